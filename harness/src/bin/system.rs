//! Composition driver for spec/BarterSystem.tla: the REAL system assembled by `SystemBuilder`
//! (engine + execution request channel + `ExecutionManager` + `MockExchange` behind a
//! `MockExecution` client + account feed), observed through the audit stream and through the
//! strategy, which is handed the engine state after every processed event.
//!
//! `system record --seed S --rounds N --out trace.ndjson`
//! `system lifecycle [--scenarios tlc.ndjson] [--seeded N] [--driver f] --seed S --out trace.ndjson`
//!      (the system's LIFECYCLE - start, commands, audit hand-over, shutdown / abort /
//!       shutdown_after_backtest - for spec/SystemLifecycle.tla: see the second half of this file)
//!
//! The driver sends market data, open requests (market orders that fill, limit orders the mock
//! exchange rejects, orders it cannot afford), cancel requests for ids in any state, and
//! cancel-orders / close-positions commands, with small random pauses so that responses interleave
//! with new commands; then leaves the system alone (quiescence) and shuts it down.
//!
//! `record` builds the system with the two TRADED exchanges (each with its own execution link) and - in
//! three runs out of four, by seed - a THIRD exchange that is DATA-ONLY: its instruments are indexed, the
//! market stream carries items and disconnect notices for it, but no execution is added for it.  It sorts
//! first / in the middle / last in `ExchangeId` order (seed % 4 = 0 / 1 / 2; 3: no third exchange), so the
//! traded exchanges' `ExchangeIndex` and their slot in the engine's `MultiExchangeTxMap` only agree if the
//! builder keeps the `None` placeholder.  Its instruments are never traded (that is the documented fatal
//! path) but cancel-orders / close-positions commands whose filter matches them are sent.
use barter::{
    EngineEvent,
    engine::{
        Engine, EngineOutput,
        command::Command,
        action::ActionOutput,
        audit::EngineAudit,
        clock::HistoricalClock,
        state::{
            EngineState,
            connectivity::Health,
            global::DefaultGlobalData,
            instrument::{data::DefaultInstrumentMarketData, filter::InstrumentFilter},
            trading::TradingState,
        },
    },
    execution::AccountStreamEvent,
    risk::DefaultRiskManager,
    strategy::{
        algo::AlgoStrategy,
        close_positions::{ClosePositionsStrategy, close_open_positions_with_market_orders},
        on_disconnect::OnDisconnectStrategy,
        on_trading_disabled::OnTradingDisabled,
    },
    system::{
        builder::{AuditMode, EngineFeedMode, SystemArgs, SystemBuilder},
        config::ExecutionConfig,
    },
};
use barter_data::{
    event::{DataKind, MarketEvent},
    streams::consumer::MarketStreamEvent,
    subscription::trade::PublicTrade,
};
use barter_execution::{
    AccountEventKind, UnindexedAccountSnapshot,
    balance::{AssetBalance, Balance},
    client::mock::MockExecutionConfig,
    order::{
        OrderKey, OrderKind, TimeInForce,
        id::{ClientOrderId, OrderId, StrategyId},
        request::{OrderRequestCancel, OrderRequestOpen, RequestCancel, RequestOpen},
        state::{ActiveOrderState, InactiveOrderState, OrderState},
    },
};
use barter_instrument::{
    Side, Underlying,
    asset::{AssetIndex, name::AssetNameExchange},
    exchange::{ExchangeId, ExchangeIndex},
    index::IndexedInstruments,
    instrument::{Instrument, InstrumentIndex, name::InstrumentNameInternal},
};
use barter_integration::{collection::one_or_many::OneOrMany, snapshot::SnapUpdates};
use parking_lot::Mutex;
use rand::Rng;
use rust_decimal::Decimal;
use serde_json::{Value, json};
use std::{sync::Arc, time::Duration};
use vh::util::*;

// deliberately NOT ExchangeId::Mock: the mock client's own `EXCHANGE` constant must never leak into the link's identity.
// TWO exchanges, each with its own request channel, ExecutionManager, MockExecution client and MockExchange task.
const EXCHANGES: [ExchangeId; 2] = [ExchangeId::BinanceSpot, ExchangeId::Kraken];

/// `record` only: the exchange tracked for its market data alone, by `seed % 4`: sorts before both traded
/// exchanges / between them / after them / (none: the two-exchange system)
const DATA_ONLY: [(Option<ExchangeId>, &str); 4] = [
    (Some(ExchangeId::BinanceFuturesUsd), "first"),
    (Some(ExchangeId::Coinbase), "middle"),
    (Some(ExchangeId::Okx), "last"),
    (None, "none"),
];
/// (internal name, exchange name, base, price) of the data-only exchange's markets (reference prices)
const REF_MARKETS: [(&str, &str, &str, i64); 2] = [("ref_btc_usdt", "BTC-USDT", "btc", 95), ("ref_eth_usdt", "ETH-USDT", "eth", 11)];

static CLOSE_IDS: std::sync::atomic::AtomicUsize = std::sync::atomic::AtomicUsize::new(0);

/// One instrument of the system: where it lives and where the builder indexed it.
#[derive(Clone)]
struct Inst {
    ex: ExchangeId,
    exi: ExchangeIndex,
    idx: InstrumentIndex,
    price: i64,
}
type State = EngineState<DefaultGlobalData, DefaultInstrumentMarketData>;
type Cmd = Command<ExchangeIndex, AssetIndex, InstrumentIndex>;

fn order_kind(s: &ActiveOrderState) -> &'static str {
    match s {
        ActiveOrderState::OpenInFlight(_) => "OIF",
        ActiveOrderState::Open(_) => "Open",
        ActiveOrderState::CancelInFlight(c) => if c.order.is_some() { "CIFo" } else { "CIFn" },
    }
}

/// no algo orders of its own: it records the engine's view of every order after each event
#[derive(Clone)]
struct Observer {
    id: StrategyId,
    views: Arc<Mutex<Vec<Value>>>,
    /// every on-disconnect invocation: (number of events fully processed before the one being processed, exchange)
    calls: Arc<Mutex<Vec<(usize, &'static str)>>>,
}

impl AlgoStrategy for Observer {
    type State = State;
    fn generate_algo_orders(
        &self,
        state: &Self::State,
    ) -> (
        impl IntoIterator<Item = OrderRequestCancel<ExchangeIndex, InstrumentIndex>>,
        impl IntoIterator<Item = OrderRequestOpen<ExchangeIndex, InstrumentIndex>>,
    ) {
        let mut m = serde_json::Map::new();
        for inst in state.instruments.0.values() {
            for (cid, o) in inst.orders.0.iter() {
                m.insert(cid.0.to_string(), json!(order_kind(&o.state)));
            }
        }
        // (balances: the traded exchanges' - a data-only exchange has no account and never gets one)
        let bal: serde_json::Map<String, Value> = state.assets.0.iter().filter(|(k, _)| EXCHANGES.contains(&k.exchange)).map(|(k, a)| {
            (format!("bal_{}_{}", k.exchange.as_str(), k.asset), match &a.balance {
                None => json!({"has": false, "t": 0, "v": 0}),
                Some(b) => json!({"has": true, "t": untime_ms(b.time), "v": dec_units(b.value.total, 1000)}),
            })
        }).collect();
        let conn: serde_json::Map<String, Value> = state.connectivity.exchanges.iter()
            .map(|(ex, c)| (ex.as_str().to_string(), json!({"market": c.market_data == Health::Healthy, "account": c.account == Health::Healthy}))).collect();
        self.views.lock().push(json!({"orders": m, "bal": bal, "conn": conn, "global": state.connectivity.global == Health::Healthy}));
        (std::iter::empty(), std::iter::empty())
    }
}

impl ClosePositionsStrategy for Observer {
    type State = State;
    fn close_positions_requests<'a>(
        &'a self,
        state: &'a Self::State,
        filter: &'a InstrumentFilter<ExchangeIndex, AssetIndex, InstrumentIndex>,
    ) -> (
        impl IntoIterator<Item = OrderRequestCancel<ExchangeIndex, InstrumentIndex>> + 'a,
        impl IntoIterator<Item = OrderRequestOpen<ExchangeIndex, InstrumentIndex>> + 'a,
    )
    where
        ExchangeIndex: 'a,
        AssetIndex: 'a,
        InstrumentIndex: 'a,
    {
        // ids of close-position orders come from their own pool z1, z2, ...
        close_open_positions_with_market_orders(&self.id, state, filter, |_| {
            ClientOrderId::new(format!("z{}", CLOSE_IDS.fetch_add(1, std::sync::atomic::Ordering::Relaxed) + 1))
        })
    }
}

impl<Clock, ExecutionTxs, Risk> OnDisconnectStrategy<Clock, State, ExecutionTxs, Risk> for Observer {
    type OnDisconnect = ();
    fn on_disconnect(engine: &mut Engine<Clock, State, ExecutionTxs, Self, Risk>, exchange: ExchangeId) -> Self::OnDisconnect {
        let seen = engine.strategy.views.lock().len();
        engine.strategy.calls.lock().push((seen, exchange.as_str()));
    }
}
impl<Clock, ExecutionTxs, Risk> OnTradingDisabled<Clock, State, ExecutionTxs, Risk> for Observer {
    type OnTradingDisabled = ();
    fn on_trading_disabled(_: &mut Engine<Clock, State, ExecutionTxs, Self, Risk>) -> Self::OnTradingDisabled {}
}

/// (exchange, internal name, exchange name, base, price): the same two markets on both exchanges,
/// under different exchange names, at different prices
const MARKETS: [(usize, &str, &str, &str, i64); 4] = [
    (0, "mock_btc_usdt", "BTCUSDT", "btc", 100),
    (0, "mock_eth_usdt", "ETHUSDT", "eth", 10),
    (1, "kr_btc_usdt", "XBT/USDT", "btc", 90),
    (1, "kr_eth_usdt", "ETH/USDT", "eth", 12),
];

fn instruments() -> IndexedInstruments {
    MARKETS
        .iter()
        .fold(IndexedInstruments::builder(), |b, (x, name, name_ex, base, _)| {
            b.add_instrument(Instrument::spot(EXCHANGES[*x], *name, *name_ex, Underlying::new(*base, "usdt"), None))
        })
        .build()
}

/// `record`: the traded markets plus the markets of the data-only exchange (if any)
/// (`second`: the SECOND universe of a process - the same exchanges, assets and counts, but every market under another
///  internal and another exchange name)
fn instruments_with(data_only: Option<ExchangeId>, second: bool) -> IndexedInstruments {
    let b = MARKETS.iter().fold(IndexedInstruments::builder(), |b, (x, name, name_ex, base, _)| {
        b.add_instrument(Instrument::spot(EXCHANGES[*x], u_name(name, second), u_name_ex(name_ex, second), Underlying::new(*base, "usdt"), None))
    });
    match data_only {
        Some(d) => REF_MARKETS.iter().fold(b, |b, (name, name_ex, base, _)| b.add_instrument(Instrument::spot(d, u_name(name, second), u_name_ex(name_ex, second), Underlying::new(*base, "usdt"), None))),
        None => b,
    }
    .build()
}
fn u_name(name: &str, second: bool) -> String {
    if second { format!("{name}_u2") } else { name.to_string() }
}
fn u_name_ex(name_ex: &str, second: bool) -> String {
    if second { format!("{name_ex}.2") } else { name_ex.to_string() }
}

/// `record`: the traded instruments of the run's universe, in the order of MARKETS
fn insts_u(indexed: &IndexedInstruments, second: bool) -> Vec<Inst> {
    MARKETS
        .iter()
        .map(|(x, name, _, _, price)| Inst {
            ex: EXCHANGES[*x],
            exi: indexed.find_exchange_index(EXCHANGES[*x]).expect("exchange indexed"),
            idx: indexed.find_instrument_index(EXCHANGES[*x], &InstrumentNameInternal::new(u_name(name, second))).expect("instrument indexed"),
            price: *price,
        })
        .collect()
}

fn ref_insts(indexed: &IndexedInstruments, data_only: Option<ExchangeId>, second: bool) -> Vec<Inst> {
    let Some(d) = data_only else { return vec![] };
    REF_MARKETS
        .iter()
        .map(|(name, _, _, price)| Inst {
            ex: d,
            exi: indexed.find_exchange_index(d).expect("exchange indexed"),
            idx: indexed.find_instrument_index(d, &InstrumentNameInternal::new(u_name(name, second))).expect("instrument indexed"),
            price: *price,
        })
        .collect()
}

fn insts(indexed: &IndexedInstruments) -> Vec<Inst> {
    MARKETS
        .iter()
        .map(|(x, name, _, _, price)| Inst {
            ex: EXCHANGES[*x],
            exi: indexed.find_exchange_index(EXCHANGES[*x]).expect("exchange indexed"),
            idx: indexed.find_instrument_index(EXCHANGES[*x], &InstrumentNameInternal::new(*name)).expect("instrument indexed"),
            price: *price,
        })
        .collect()
}

/// the account each exchange starts with (different on purpose: cross-talk between the two links is visible)
fn funds(x: usize) -> [(&'static str, i64); 3] {
    if x == 0 { [("btc", 5), ("eth", 5), ("usdt", 3000)] } else { [("btc", 7), ("eth", 3), ("usdt", 2000)] }
}

fn mock_config(x: usize, latency_ms: u64) -> MockExecutionConfig {
    let bal = |a: &str, v: i64| AssetBalance { asset: AssetNameExchange::new(a), balance: Balance { total: dec(v), free: dec(v) }, time_exchange: time(0) };
    MockExecutionConfig {
        mocked_exchange: EXCHANGES[x],
        // small enough that some orders cannot be afforded (-> rejected)
        initial_state: UnindexedAccountSnapshot { exchange: EXCHANGES[x], balances: funds(x).iter().map(|(a, v)| bal(a, *v)).collect(), instruments: vec![] },
        latency_ms,
        fees_percent: Decimal::new(1, 2),
    }
}

fn key(inst: &Inst, cid: &str) -> OrderKey {
    OrderKey { exchange: inst.exi, instrument: inst.idx, strategy: StrategyId::new("sys"), cid: ClientOrderId::new(cid) }
}

fn main() {
    let args = Args::parse();
    if args.cmd == "lifecycle" {
        // (its own runtimes: one per scenario, see `lifecycle_main`)
        return lifecycle_main(&args);
    }
    // `record`: the runtime `#[tokio::main(flavor = "multi_thread", worker_threads = 3)]` used to build
    tokio::runtime::Builder::new_multi_thread().worker_threads(3).enable_all().build().expect("runtime").block_on(record(args))
}

async fn record(args: Args) {
    if args.cmd != "record" {
        usage("system record --seed S --rounds N --out f [--out2 f2 [--rounds2 M]] [--data-only first|middle|last|none] | system lifecycle --scenarios f --seeded N --seed S --out f");
    }
    let mut summary = record_run(&args, false).await;
    // `--out2`: the SAME process then builds a SECOND system - same exchanges, same numbers of assets and instruments, the
    // same data-only exchange, but every market under other names (internal and exchange names) - and drives it for a
    // few rounds: whatever a builder keeps from one system to the next in a process (a cache keyed by shape, say) shows
    // as requests addressed by the first universe's names, which the second universe's exchange does not know
    if args.get("out2").is_some() {
        summary["second"] = record_run(&args, true).await;
    }
    println!("{summary}");
}

async fn record_run(args: &Args, second: bool) -> Value {
    CLOSE_IDS.store(0, std::sync::atomic::Ordering::Relaxed);
    let mut rng = rng(args.u64("seed", 1) + if second { 7919 } else { 0 });
    let rounds = if second { args.usize("rounds2", 12) } else { args.usize("rounds", 60) };
    let mut out = Out::create(args.req(if second { "out2" } else { "out" }));

    // the data-only exchange of this run and where it sorts among the traded ones
    let (data_only, position) = match args.get("data-only") {
        Some(p) => *DATA_ONLY.iter().find(|(_, name)| *name == p).unwrap_or_else(|| usage("--data-only first|middle|last|none")),
        None => DATA_ONLY[(args.u64("seed", 1) % 4) as usize],
    };
    let instruments = instruments_with(data_only, second);
    let insts = insts_u(&instruments, second);
    let refs = ref_insts(&instruments, data_only, second);
    // every instrument the engine tracks: the traded ones first (indices 0..n_inst), then the data-only exchange's
    let all: Vec<Inst> = insts.iter().chain(refs.iter()).cloned().collect();
    let present: Vec<&'static str> = instruments.exchanges().iter().map(|e| e.value.as_str()).collect();
    let (mtx, mrx) = tokio::sync::mpsc::unbounded_channel::<MarketStreamEvent<InstrumentIndex, DataKind>>();
    let market_stream = tokio_stream::wrappers::UnboundedReceiverStream::new(mrx);
    let views = Arc::new(Mutex::new(vec![]));
    let calls = Arc::new(Mutex::new(vec![]));
    let strategy = Observer { id: StrategyId::new("sys"), views: views.clone(), calls: calls.clone() };
    let sys_args = SystemArgs::new(
        &instruments,
        // the second link is a little slower, so answers of the two exchanges overtake one another
        // (NO execution for the data-only exchange)
        vec![ExecutionConfig::Mock(mock_config(0, args.u64("latency", 2))), ExecutionConfig::Mock(mock_config(1, args.u64("latency", 2) + 1))],
        HistoricalClock::new(time(0)),
        strategy,
        DefaultRiskManager::<State>::default(),
        market_stream,
        DefaultGlobalData::default(),
        DefaultInstrumentMarketData::default,
    );
    // (the first system of a process must come up: anything else is a tool problem.  A SECOND system that cannot be built
    //  or initialised is data: an index / name that cannot be translated says the execution links were built around
    //  another universe's maps)
    let names: Vec<String> = instruments.instruments().iter().map(|i| format!("{}:{}", i.value.exchange.value.as_str(), i.value.name_exchange)).collect();
    let failed = |out: Out, what: &str, e: String| -> Value {
        if !second {
            usage(&format!("system {what}: {e}"));
        }
        let mut out = out;
        let mut a = json!({"a": "Anomaly", "anomaly": format!("the second system of the process could not be {what}: {}", e.chars().take(400).collect::<String>())});
        if e.contains("Index") {
            a["tag"] = json!("wrong_instrument_name");
        }
        out.line(&a);
        let n = out.finish();
        json!({"lines": n, "exchanges": present, "names": names, "failed": what})
    };
    let build = match SystemBuilder::new(sys_args)
        .engine_feed_mode(if args.u64("seed", 1) % 2 == 0 { EngineFeedMode::Iterator } else { EngineFeedMode::Stream })
        .audit_mode(AuditMode::Enabled)
        .trading_state(TradingState::Enabled) // so that the observer is called after every event
        // balances seeded through the builder, as a user of SystemBuilder would (same as the mock's account)
        .balances((0..2).flat_map(|x| funds(x).into_iter().map(move |(a, v)| (EXCHANGES[x], a, Balance { total: dec(v), free: dec(v) }))))
        .build::<EngineEvent, _>()
    {
        Ok(b) => b,
        Err(e) => return failed(out, "built", format!("{e:?}")),
    };
    let mut system = match build.init_with_runtime(tokio::runtime::Handle::current()).await {
        Ok(s) => s,
        Err(e) => return failed(out, "initialised", format!("{e:?}")),
    };
    let SnapUpdates { snapshot: audit_snapshot, updates: mut audit_rx } = system.audit.take().expect("audit enabled");
    // ---- freshness trace (spec/Freshness.tla): seeded balances, then every balance the exchange delivers
    // (the traded exchanges' balances: the assets of a data-only exchange have no balance, seeded or delivered)
    let mut fresh = if second { None } else { args.get("fresh-out").map(Out::create) };
    let seeded: Vec<(String, i64, Value)> = audit_snapshot.event.assets.0.iter().filter(|(k, _)| EXCHANGES.contains(&k.exchange)).map(|(k, a)| {
        let b = a.balance.as_ref();
        (format!("bal_{}_{}", k.exchange.as_str(), k.asset), b.map(|b| untime_ms(b.time)).unwrap_or(-1), b.map(|b| dec_units(b.value.total, 1000)).unwrap_or(json!(-1)))
    }).collect();
    if let Some(f) = fresh.as_mut() {
        let none: serde_json::Map<String, Value> = seeded.iter().map(|(k, _, _)| (k.clone(), json!({"has": false, "t": 0, "v": 0}))).collect();
        f.line(&json!({"a": "Reset", "post": none}));
        // the builder stamps seeded balances with the engine clock's start time: a HistoricalClock started at
        // time(0) reads time(0) plus the few wall-clock milliseconds since its creation
        if let Some((k, t, _)) = seeded.iter().find(|(_, t, _)| !(0..=60_000).contains(t)) {
            f.line(&json!({"a": "Deliver", "ms": [], "anomaly": format!("seeded balance {k} is stamped {t} ms from the engine clock's start (expected within [0, 60000])")}));
        } else if let Some((k, _)) = audit_snapshot.event.assets.0.iter().find(|(k, a)| !EXCHANGES.contains(&k.exchange) && a.balance.is_some()) {
            f.line(&json!({"a": "Deliver", "ms": [], "anomaly": format!("the engine starts with a balance for {} of {}, an exchange without an account (no execution link, nothing seeded)", k.asset, k.exchange.as_str())}));
        } else {
            let ms: Vec<Value> = seeded.iter().map(|(k, t, v)| json!({"item": k, "t": t, "v": v})).collect();
            let post: serde_json::Map<String, Value> = seeded.iter().map(|(k, t, v)| (k.clone(), json!({"has": true, "t": t, "v": v}))).collect();
            f.line(&json!({"a": "Deliver", "ms": ms, "post": post}));
        }
    }

    // ---- drive
    let mut next_id = 0usize;
    let mut mixed_batches = 0usize;
    let mut used: Vec<(usize, String)> = vec![];
    let mut t = 0i64;
    let n_inst = insts.len();
    let n_all = all.len();
    // what the driver put into the market stream / the commands it sent that concern the data-only exchange
    let mut mnotices: std::collections::BTreeMap<&'static str, usize> = Default::default();
    let mut data_only_items = 0usize;
    let mut filters_matching_data_only = 0usize;
    let is_ref = |i: usize| i >= n_inst;
    for inst in all.iter() {
        t += 1;
        let _ = mtx.send(MarketStreamEvent::Item(MarketEvent { time_exchange: time(t), time_received: time(t), exchange: inst.ex, instrument: inst.idx,
            kind: DataKind::Trade(PublicTrade { id: format!("m{t}"), price: inst.price as f64, amount: 1.0, side: Side::Buy }) }));
    }
    data_only_items += refs.len();
    // one open request; the caller decides whether it travels alone or in a batch spanning exchanges
    // (only ever for an instrument of a TRADED exchange)
    let new_open = |rng: &mut rand::rngs::StdRng, next_id: &mut usize, used: &mut Vec<(usize, String)>, inst: usize| {
        *next_id += 1;
        let cid = format!("k{next_id}");
        let (kind, tif) = if rng.random_range(0..5) == 0 { (OrderKind::Limit, TimeInForce::GoodUntilCancelled { post_only: false }) } else { (OrderKind::Market, TimeInForce::ImmediateOrCancel) };
        let qty = if rng.random_range(0..6) == 0 { 1000 } else { 1 };
        used.push((inst, cid.clone()));
        OrderRequestOpen {
            key: key(&insts[inst], &cid),
            state: RequestOpen { side: if rng.random_bool(0.6) { Side::Buy } else { Side::Sell }, price: dec(insts[inst].price), quantity: dec(qty), kind, time_in_force: tif },
        }
    };
    // a filter over everything the engine tracks - the data-only exchange and its instruments included
    // (they hold no orders and no positions: matching them must change nothing and must request nothing)
    let mut any_filter = |rng: &mut rand::rngs::StdRng, two: bool| -> InstrumentFilter<ExchangeIndex, AssetIndex, InstrumentIndex> {
        match rng.random_range(0..3) {
            0 => {
                if !refs.is_empty() { filters_matching_data_only += 1 }
                InstrumentFilter::None
            }
            1 => {
                let i = rng.random_range(0..n_all);
                if is_ref(i) { filters_matching_data_only += 1 }
                InstrumentFilter::exchanges([all[i].exi])
            }
            _ => {
                let (i, j) = (rng.random_range(0..n_all), rng.random_range(0..n_all));
                if two {
                    if is_ref(i) || is_ref(j) { filters_matching_data_only += 1 }
                    InstrumentFilter::instruments([all[i].idx, all[j].idx])
                } else {
                    if is_ref(i) { filters_matching_data_only += 1 }
                    InstrumentFilter::instruments([all[i].idx])
                }
            }
        }
    };
    // a panic inside the system under test is data: a command that cannot be delivered because the engine
    // task has ended (e.g. after a component of the system died) is recorded, and the run goes on to shutdown
    // every command handed to the System API, as the engine must later report having processed it
    let mut intended: Vec<String> = vec![];
    let mut closes = 0usize;
    let mut dead: Option<String> = None;
    macro_rules! cmd {
        ($e:expr) => {
            if dead.is_none() {
                if let Err(p) = catch(|| $e) {
                    dead = Some(p);
                }
            }
        };
    }
    // every run starts with one open request per traded exchange, in index order (one command each): whatever
    // happens later, each execution link has been addressed at least once while every component was still up
    for x in 0..EXCHANGES.len() {
        let own: Vec<usize> = (0..n_inst).filter(|i| insts[*i].ex == EXCHANGES[x]).collect();
        let pick = own[rng.random_range(0..own.len())];
        let req = new_open(&mut rng, &mut next_id, &mut used, pick);
        intended.push(format!("{:?}", Cmd::SendOpenRequests(OneOrMany::One(req.clone()))));
        cmd!(system.send_open_requests(OneOrMany::One(req)));
        tokio::task::yield_now().await;
    }
    for _ in 0..rounds {
        match rng.random_range(0..100) {
            0..=34 if next_id < 38 => {
                // open: a market order (fills), sometimes a limit order (rejected by the mock) or one it cannot afford
                let inst = rng.random_range(0..n_inst);
                let req = new_open(&mut rng, &mut next_id, &mut used, inst);
                intended.push(format!("{:?}", Cmd::SendOpenRequests(OneOrMany::One(req.clone()))));
                cmd!(system.send_open_requests(OneOrMany::One(req)));
            }
            35..=44 if next_id < 37 => {
                // ONE command carrying requests for instruments of BOTH traded exchanges (in either order)
                mixed_batches += 1;
                let first = rng.random_range(0..n_inst);
                let mut batch = vec![new_open(&mut rng, &mut next_id, &mut used, first)];
                let other: Vec<usize> = (0..n_inst).filter(|i| insts[*i].ex != insts[first].ex).collect();
                let second = other[rng.random_range(0..other.len())];
                batch.push(new_open(&mut rng, &mut next_id, &mut used, second));
                if rng.random_bool(0.4) {
                    let third = rng.random_range(0..n_inst);
                    batch.push(new_open(&mut rng, &mut next_id, &mut used, third));
                }
                intended.push(format!("{:?}", Cmd::SendOpenRequests(OneOrMany::Many(batch.clone()))));
                cmd!(system.send_open_requests(OneOrMany::Many(batch)));
            }
            45..=64 if !used.is_empty() => {
                let (inst, cid) = used[rng.random_range(0..used.len())].clone();
                let id = rng.random_bool(0.5).then(|| OrderId::new("x"));
                let req = OneOrMany::One(OrderRequestCancel { key: key(&insts[inst], &cid), state: RequestCancel { id } });
                intended.push(format!("{:?}", Cmd::SendCancelRequests(req.clone())));
                cmd!(system.send_cancel_requests(req));
            }
            65..=69 if used.len() >= 2 => {
                // cancels for ids of both exchanges in one command
                let picks: Vec<(usize, String)> = (0..3).map(|_| used[rng.random_range(0..used.len())].clone()).collect();
                let req = OneOrMany::Many(picks.iter().map(|(inst, cid)| OrderRequestCancel { key: key(&insts[*inst], cid), state: RequestCancel { id: None } }).collect());
                intended.push(format!("{:?}", Cmd::SendCancelRequests(req.clone())));
                cmd!(system.send_cancel_requests(req));
            }
            70..=77 => {
                let filter = any_filter(&mut rng, true);
                intended.push(format!("{:?}", Cmd::CancelOrders(filter.clone())));
                cmd!(system.cancel_orders(filter));
            }
            78 | 79 if closes < 5 => {
                // close the open positions of one exchange / one instrument / everywhere: market orders z1, z2, ...
                closes += 1;
                let filter = any_filter(&mut rng, false);
                intended.push(format!("{:?}", Cmd::ClosePositions(filter.clone())));
                cmd!(system.close_positions(filter));
            }
            80 => {
                // (the state it is already in: the observer must keep being called after every event)
                intended.push(format!("{:?}", TradingState::Enabled));
                cmd!(system.trading_state(TradingState::Enabled));
            }
            81..=89 => {
                t += 1;
                let i = rng.random_range(0..n_all);
                if is_ref(i) { data_only_items += 1 }
                let inst = &all[i];
                let _ = mtx.send(MarketStreamEvent::Item(MarketEvent { time_exchange: time(t), time_received: time(t), exchange: inst.ex, instrument: inst.idx,
                    kind: DataKind::Trade(PublicTrade { id: format!("m{t}"), price: inst.price as f64, amount: 1.0, side: Side::Sell }) }));
            }
            90..=93 => {
                // the market-data link of one tracked exchange - traded or data-only - drops: a disconnect notice
                // in the market stream (items of that exchange follow whenever the 81..=89 arm picks it again)
                let ex = all[rng.random_range(0..n_all)].ex;
                *mnotices.entry(ex.as_str()).or_default() += 1;
                let _ = mtx.send(MarketStreamEvent::Reconnecting(ex));
            }
            _ => {}
        }
        match rng.random_range(0..4) {
            0 => tokio::time::sleep(Duration::from_millis(rng.random_range(1..6))).await,
            1 => tokio::task::yield_now().await,
            _ => {}
        }
    }
    // ---- quiescence, then shutdown
    // adaptive: quiescent once the engine has processed nothing new for 1.5 s (longer than the
    // execution manager's request timeout for the mock link, so even a lost response would have
    // produced its timeout failure by then); wall-clock bound 30 s
    let mut stable = 0;
    let mut last = views.lock().len();
    let t_settle = std::time::Instant::now();
    while stable < 5 && t_settle.elapsed() < Duration::from_secs(30) {
        tokio::time::sleep(Duration::from_millis(300)).await;
        let now = views.lock().len();
        if now == last { stable += 1 } else { stable = 0; last = now }
    }
    let n_before_shutdown = views.lock().len();
    // ---- the execution managers: each serves its exchange's request channel for as long as the system runs.
    // One whose task has ended by now ended on its own; its own last words say why (ExecutionManager::run panics
    // when it is handed a request for a key that is not in its exchange's instrument map).
    let mut mgr_down: Vec<&'static str> = vec![];
    let mut mgr_panicked: Vec<&'static str> = vec![];
    let mut mgr_foreign: Vec<&'static str> = vec![];
    let mut mgr_words: Vec<String> = vec![];
    // (an engine task that has ended - stopped on an error, panicked - has closed the request channels: every manager
    //  RETURNS then, which says nothing about the managers)
    let engine_ended = system.engine.is_finished();
    for x in 0..system.handles.execution.managers.len() {
        if system.handles.execution.managers[x].is_finished() {
            // (a finished task in its place, so that shutdown still has a handle to await)
            let ended = std::mem::replace(&mut system.handles.execution.managers[x], tokio::spawn(async {}));
            let words = match ended.await {
                Ok(()) => "returned".to_string(),
                Err(e) if e.is_panic() => {
                    mgr_panicked.push(EXCHANGES[x].as_str());
                    let p = e.into_panic();
                    p.downcast_ref::<String>().cloned().or_else(|| p.downcast_ref::<&str>().map(|s| s.to_string())).unwrap_or_else(|| "panic".into())
                }
                Err(e) => e.to_string(),
            };
            mgr_down.push(EXCHANGES[x].as_str());
            if words.contains("non-configured key") {
                mgr_foreign.push(EXCHANGES[x].as_str());
            }
            mgr_words.push(format!("{}: {}", EXCHANGES[x].as_str(), words.chars().take(300).collect::<String>()));
        }
    }
    // ---- the execution link of the exchange goes down: kill the (mock) exchange task and wait for the
    // engine to process the account-stream disconnect notice
    let drop_link = !second && args.u64("drop-link", 1) == 1;
    let mut killed: Vec<&'static str> = vec![];
    if drop_link {
        // one link after the other (which one first depends on the seed), each time waiting for the
        // engine to have processed something (the notice) and a little longer
        let mut order: Vec<usize> = (0..system.handles.execution.mock_exchanges.len()).collect();
        if args.u64("seed", 1) % 3 == 0 {
            order.reverse();
        }
        if args.u64("seed", 1) % 5 == 4 {
            order.truncate(1); // sometimes only one of the two links dies
        }
        for x in order {
            let before = views.lock().len();
            system.handles.execution.mock_exchanges[x].abort();
            killed.push(EXCHANGES[x].as_str());
            let t_drop = std::time::Instant::now();
            while views.lock().len() == before && t_drop.elapsed() < Duration::from_secs(10) {
                tokio::time::sleep(Duration::from_millis(50)).await;
            }
            tokio::time::sleep(Duration::from_millis(150)).await;
        }
    }
    // a panic inside the system under test is data (e.g. the engine task died, so `shutdown` cannot
    // reach it any more): catch it and report it as an anomaly line.  Anomalies found here are reported at
    // the END of the run's trace: what the engine did before is validated first.
    let mut tail: Vec<String> = vec![];
    if let Some(p) = &dead {
        tail.push(format!("a command could not be handed to the system: {p} (the engine task had ended although no shutdown was requested)"));
    }
    let shutdown = {
        use futures::FutureExt;
        let prev = std::panic::take_hook();
        std::panic::set_hook(Box::new(|_| {}));
        let r = tokio::time::timeout(Duration::from_secs(20), std::panic::AssertUnwindSafe(system.shutdown()).catch_unwind()).await;
        std::panic::set_hook(prev);
        match r {
            Err(e) => Err(e),
            Ok(Ok(inner)) => Ok(inner.map(|_| ())),
            Ok(Err(p)) => {
                let msg = p.downcast_ref::<String>().cloned().or_else(|| p.downcast_ref::<&str>().map(|s| s.to_string())).unwrap_or_else(|| "panic".into());
                tail.push(format!("system.shutdown() panicked: {msg} (the engine task had already died)"));
                Ok(Ok(()))
            }
        }
    };
    match shutdown {
        Err(_) => tail.push("system.shutdown() did not return within 20 s".into()),
        // the task this driver aborted itself reports as cancelled: not a defect
        Ok(Err(e)) if drop_link && e.is_cancelled() => {}
        Ok(Err(e)) => tail.push(format!("system.shutdown() failed: {e} (a task panicked)")),
        Ok(Ok(())) => {}
    }

    // ---- the audit stream -> trace lines
    let ex_name = |i: ExchangeIndex| instruments.find_exchange(i).map(|e| e.as_str()).unwrap_or("?");
    let views = views.lock().clone();
    let calls: Vec<(usize, &'static str)> = calls.lock().clone();
    let mut records = vec![];
    while let Ok(tick) = audit_rx.rx.try_recv() {
        records.push(tick);
    }
    // an engine that reports an unrecoverable error stops: no strategy call follows that record, nothing after it is
    // processed, and what is outstanding then is no statement about the execution managers (no Quiescent line)
    let stops = records.iter().any(|tick| matches!(&tick.event, EngineAudit::Process(p) if !p.errors.is_empty()));
    // (once the engine has ended only a manager that panicked says something about the run; while the engine runs, a
    //  manager that ended in any way does)
    let managers_line = |a: &str| json!({"a": a, "down": if a == "Managers" || engine_ended { &mgr_panicked } else { &mgr_down }, "foreign": mgr_foreign, "words": mgr_words});
    let mut vi = 0usize;
    let mut ticks = 0usize;
    let mut link_notices = 0usize;
    let mut market_notices_seen = 0usize;
    let mut stop_explained = false;
    let mut stopped = false;
    let mut processed_cmds: Vec<String> = vec![];
    let mut opens_filled = 0usize;
    for tick in records.iter() {
        let EngineAudit::Process(p) = &tick.event else { continue };
        ticks += 1;
        match &p.event {
            EngineEvent::Command(c) => processed_cmds.push(format!("{c:?}")),
            EngineEvent::TradingStateUpdate(t) => processed_cmds.push(format!("{t:?}")),
            _ => {}
        }
        let mut lines: Vec<Value> = vec![];
        // the requests the engine reports as handed to a link (sent) and those it could not hand over (errors)
        // (why: the engine found no link for the exchange / the link's channel is closed: its manager has gone)
        let why = |e: &barter::engine::error::EngineError| match e {
            barter::engine::error::EngineError::Unrecoverable(barter::engine::error::UnrecoverableEngineError::IndexError(_)) => "no_link",
            barter::engine::error::EngineError::Unrecoverable(barter::engine::error::UnrecoverableEngineError::ExecutionChannelTerminated(_)) => "terminated",
            barter::engine::error::EngineError::Recoverable(_) => "unhealthy",
            _ => "other",
        };
        let mut failed_any = false;
        for o in p.outputs.iter() {
            if let EngineOutput::Commanded(a) = o {
                let mut open = |s: &barter::engine::action::send_requests::SendRequestsOutput<RequestOpen>, lines: &mut Vec<Value>| {
                    s.sent.iter().for_each(|r| lines.push(json!({"a": "SendOpen", "c": r.key.cid.0.as_str(), "x": ex_name(r.key.exchange)})));
                    s.errors.iter().for_each(|(r, e)| {
                        failed_any = true;
                        lines.push(json!({"a": "SendFail", "c": r.key.cid.0.as_str(), "x": ex_name(r.key.exchange), "k": "open", "why": why(e), "foreign": mgr_foreign,
                                          "err": format!("{e:?}").chars().take(160).collect::<String>()}))
                    });
                };
                match a {
                    ActionOutput::OpenOrders(s) => open(s, &mut lines),
                    ActionOutput::ClosePositions(s) => open(&s.opens, &mut lines),
                    _ => {}
                }
                let mut cancel = |s: &barter::engine::action::send_requests::SendRequestsOutput<RequestCancel>, lines: &mut Vec<Value>| {
                    s.sent.iter().for_each(|r| lines.push(json!({"a": "SendCancel", "c": r.key.cid.0.as_str()})));
                    s.errors.iter().for_each(|(r, e)| {
                        failed_any = true;
                        lines.push(json!({"a": "SendFail", "c": r.key.cid.0.as_str(), "x": ex_name(r.key.exchange), "k": "cancel", "why": why(e), "foreign": mgr_foreign,
                                          "err": format!("{e:?}").chars().take(160).collect::<String>()}))
                    });
                };
                match a {
                    ActionOutput::CancelOrders(s) => cancel(s, &mut lines),
                    ActionOutput::ClosePositions(s) => cancel(&s.cancels, &mut lines),
                    _ => {}
                }
            }
        }
        // the on-disconnect invocations the strategy saw while the engine processed this event
        let called: Vec<&'static str> = calls.iter().filter(|(at, _)| *at == vi).map(|(_, x)| *x).collect();
        match &p.event {
            EngineEvent::Account(AccountStreamEvent::Reconnecting(ex)) => {
                lines.push(json!({"a": "LinkDown", "x": ex.as_str(), "calls": called}));
                link_notices += 1;
            }
            EngineEvent::Market(MarketStreamEvent::Reconnecting(ex)) => {
                lines.push(json!({"a": "MktDown", "x": ex.as_str(), "calls": called}));
                market_notices_seen += 1;
            }
            EngineEvent::Market(MarketStreamEvent::Item(ev)) => lines.push(json!({"a": "MktItem", "x": ev.exchange.as_str()})),
            _ => {}
        }
        if let (Some(f), EngineEvent::Account(AccountStreamEvent::Item(ev))) = (fresh.as_mut(), &p.event) {
            let msg = |b: &AssetBalance<AssetIndex>| {
                let name = audit_snapshot.event.assets.0.get_index(b.asset.index()).map(|(k, _)| format!("bal_{}_{}", k.exchange.as_str(), k.asset)).unwrap_or_else(|| "bal_?".into());
                json!({"item": name, "t": untime_ms(b.time_exchange), "v": dec_units(b.balance.total, 1000)})
            };
            let ms: Vec<Value> = match &ev.kind {
                AccountEventKind::BalanceSnapshot(b) => vec![msg(&b.0)],
                AccountEventKind::Snapshot(snap) => snap.balances.iter().map(msg).collect(),
                _ => vec![],
            };
            if !ms.is_empty() {
                match views.get(vi) {
                    Some(v) => f.line(&json!({"a": "Deliver", "ms": ms, "post": v["bal"]})),
                    None => f.line(&json!({"a": "Deliver", "ms": ms, "anomaly": "no engine view for this audit record"})),
                }
            }
        }
        if let EngineEvent::Account(AccountStreamEvent::Item(ev)) = &p.event {
            lines.push(json!({"a": "Item", "x": ex_name(ev.exchange)}));
            match &ev.kind {
                AccountEventKind::OrderSnapshot(s) => {
                    let kind = match &s.0.state {
                        OrderState::Active(ActiveOrderState::Open(_)) => "open_ok",
                        OrderState::Active(_) => "other_active",
                        OrderState::Inactive(InactiveOrderState::OpenFailed(_)) => "open_failed",
                        OrderState::Inactive(_) => "open_filled",
                    };
                    if kind == "open_filled" { opens_filled += 1 }
                    // (why an open failed: the exchange did not know the instrument name it was addressed with / anything else)
                    let why = if kind == "open_failed" && format!("{:?}", s.0.state).contains("InstrumentInvalid") { "instrument_invalid" } else { "other" };
                    lines.push(json!({"a": "Process", "c": s.0.key.cid.0.as_str(), "kind": kind, "why": why, "x": ex_name(ev.exchange), "key_x": ex_name(s.0.key.exchange)}));
                }
                AccountEventKind::OrderCancelled(r) => lines.push(json!({"a": "Process", "c": r.key.cid.0.as_str(), "kind": if r.state.is_ok() { "cancel_ok" } else { "cancel_err" }, "why": "other",
                                                                          "x": ex_name(ev.exchange), "key_x": ex_name(r.key.exchange)})),
                _ => {}
            }
        }
        // the engine view after this event (the observer is called once per processed event while trading is enabled)
        let is_shutdown = matches!(&p.event, EngineEvent::Shutdown(_));
        if !p.errors.is_empty() {
            // the engine stops here.  If it stops because it could not hand over a request (the SendFail lines above: no link
            // found for a traded exchange / the link's manager gone / a request for the data-only exchange), those lines and
            // the state of the managers are what the specification judges, and everything after the stop is its consequence;
            // a stop for any other reason is an anomaly.
            stopped = true;
            stop_explained = failed_any;
            lines.push(managers_line("Managers"));
            if !failed_any {
                lines.push(json!({"a": "Anomaly", "anomaly": format!("the engine stopped on an unrecoverable error while processing {}: {}",
                    format!("{:?}", p.event).chars().take(200).collect::<String>(), format!("{:?}", p.errors).chars().take(300).collect::<String>())}));
            }
        } else if !is_shutdown {
            if let Some(v) = views.get(vi) {
                let conn: serde_json::Map<String, Value> = v["conn"].as_object().map(|m| m.iter().map(|(k, c)| (k.clone(), c["account"].clone())).collect()).unwrap_or_default();
                let market: serde_json::Map<String, Value> = v["conn"].as_object().map(|m| m.iter().map(|(k, c)| (k.clone(), c["market"].clone())).collect()).unwrap_or_default();
                lines.push(json!({"a": "State", "post": v["orders"], "conn": conn, "market": market, "global": v["global"]}));
            } else {
                lines.push(json!({"a": "Anomaly", "anomaly": "an audit record without a matching strategy call (trading enabled)"}));
            }
            vi += 1;
            if vi == n_before_shutdown && !stops {
                lines.push(managers_line("Quiescent"));
            }
        }
        for l in lines {
            out.line(&l);
        }
        if stopped {
            break;
        }
    }
    // what was found after the drive (reported here, after everything the engine did) - unless it is the consequence
    // of a stop whose cause the trace already shows
    if !stop_explained {
        for d in tail {
            out.line(&json!({"a": "Anomaly", "anomaly": d}));
        }
    }
    // the System API is a thin sender: the engine must have processed exactly the commands handed to it, in order
    if dead.is_none() && !stopped && processed_cmds != intended {
        let at = processed_cmds.iter().zip(intended.iter()).position(|(a, b)| a != b).unwrap_or(processed_cmds.len().min(intended.len()));
        out.line(&json!({"a": "Anomaly", "tag": "command_fidelity", "anomaly": format!("commands handed to the System API and commands the engine processed differ at #{at} ({} handed, {} processed): handed {:?}, processed {:?}",
            intended.len(), processed_cmds.len(), intended.get(at), processed_cmds.get(at))}));
    }
    if drop_link && !stopped {
        // exactly one disconnect notice must have reached the engine for the killed link; every market notice put into
        // the market stream must have been processed
        out.line(&json!({"a": "LinkDownCount", "killed": killed, "n": link_notices, "mnotices": mnotices}));
    }
    let n = out.finish();
    let nf = fresh.map(|f| f.finish()).unwrap_or(0);
    json!({"lines": n, "fresh_lines": nf, "names": names, "opens_filled": opens_filled, "audit_records": ticks, "strategy_views": views.len(), "opens": next_id, "link_notices": link_notices,
                            "commands_spanning_both_exchanges": mixed_batches, "commands": intended.len(), "close_positions_commands": closes, "links_killed": killed.len(),
                            "exchanges": present, "data_only": data_only.map(|d| d.as_str()).unwrap_or("none"), "data_only_position": position,
                            "market_notices": mnotices.values().sum::<usize>(), "market_notices_processed": market_notices_seen,
                            "market_notices_data_only": data_only.and_then(|d| mnotices.get(d.as_str()).copied()).unwrap_or(0),
                            "market_items_data_only": data_only_items, "filter_commands_matching_data_only": filters_matching_data_only,
                            "on_disconnect_calls": calls.len(), "engine_stopped": stopped})
}

// =====================================================================================================
// `system lifecycle` - the LIFECYCLE of the real system: start, commands, audit hand-over and the three
// ways to stop (spec/SystemLifecycle.tla; validated by spec/Trace_SystemLifecycle.tla).
//
//   system lifecycle [--scenarios tlc.ndjson] [--seeded N] --seed S --out trace.ndjson
//
// Every scenario builds the REAL system through `SystemBuilder` (two mock exchanges, balances seeded,
// EngineFeedMode Stream | Iterator, AuditMode Enabled | Disabled, TradingState at start) on its own
// `current_thread` runtime - Stream mode under tokio's PAUSED clock, Iterator mode (the engine spins on a
// blocking thread, which inhibits the paused clock's auto-advance) in real time - and drives it through the
// System API at scripted points.  ONE chronological log (a mutex) takes a line
//   * from the driver right BEFORE every API call (Cmd, TakeAudit, DropAudit, StopCall) and after the stop
//     call has returned (StopRet: what came back, which tasks have ended, the audit records received),
//   * from the market source whenever the forwarder takes an item (Yield k) or finds it ended (SrcEnd) -
//     the forwarder sends the item into the feed within the same poll and the driver lives on the same
//     thread, so that line is the moment the item enters the feed,
//   * from the ENGINE whenever it starts processing an event (Proc label): the engine's clock - the first
//     thing `Engine::process` consults for every event - is a recording wrapper around HistoricalClock.
// Account items are produced by the real mock exchanges; when they enter the feed is not observable.
// =====================================================================================================
use barter::{
    engine::{Processor, clock::EngineClock, execution_tx::MultiExchangeTxMap},
    execution::request::ExecutionRequest,
};
use futures::{FutureExt, Stream, StreamExt};

type Ev = EngineEvent<DataKind>;
type MItem = MarketStreamEvent<InstrumentIndex, DataKind>;

#[derive(Default)]
struct LcShared {
    lines: Vec<Value>,
    /// every event the engine processed (clock hook), for the twin engine
    events: Vec<Ev>,
    labels: Vec<String>,
    /// (debug rendering of the command as handed to the System API, its label), in hand-over order
    intended: Vec<(String, String)>,
    used: Vec<bool>,
    yields: usize,
}

/// the label of a processed / audited event: market items carry their own (trade id m<k>), commands are
/// recognised by CONTENT (the k-th unmatched command handed over with that rendering), "c?" otherwise
fn lc_label(ev: &Ev, intended: &[(String, String)], used: &mut Vec<bool>) -> String {
    used.resize(intended.len(), false);
    let mut cmd = |dbg: String| {
        for (j, (d, l)) in intended.iter().enumerate() {
            if !used[j] && *d == dbg {
                used[j] = true;
                return l.clone();
            }
        }
        "c?".to_string()
    };
    match ev {
        EngineEvent::Shutdown(_) => "sd".into(),
        EngineEvent::Command(c) => cmd(format!("{c:?}")),
        EngineEvent::TradingStateUpdate(t) => cmd(format!("{t:?}")),
        EngineEvent::Account(AccountStreamEvent::Item(_)) => "acct".into(),
        EngineEvent::Account(AccountStreamEvent::Reconnecting(_)) => "notice".into(),
        EngineEvent::Market(MarketStreamEvent::Item(m)) => match &m.kind {
            DataKind::Trade(t) => t.id.clone(),
            _ => "m?".into(),
        },
        EngineEvent::Market(MarketStreamEvent::Reconnecting(_)) => "mnotice".into(),
    }
}

/// HistoricalClock that records every event the engine hands it (Engine::process calls the clock first)
#[derive(Clone)]
struct RecClock {
    inner: HistoricalClock,
    shared: Option<Arc<Mutex<LcShared>>>,
}
impl std::fmt::Debug for RecClock {
    fn fmt(&self, f: &mut std::fmt::Formatter<'_>) -> std::fmt::Result {
        write!(f, "RecClock({:?})", self.inner)
    }
}
impl EngineClock for RecClock {
    fn time(&self) -> chrono::DateTime<chrono::Utc> {
        self.inner.time()
    }
}
impl Processor<&Ev> for RecClock {
    type Audit = ();
    fn process(&mut self, event: &Ev) -> Self::Audit {
        if let Some(sh) = &self.shared {
            let mut g = sh.lock();
            let g = &mut *g;
            let label = lc_label(event, &g.intended, &mut g.used);
            g.lines.push(json!({"a": "Proc", "ev": label}));
            g.events.push(event.clone());
            g.labels.push(label);
        }
        self.inner.process(event)
    }
}

/// no algo orders; close-position orders get ids derived from the instrument (deterministic: the twin engine
/// must generate the same requests)
#[derive(Clone)]
struct Lc {
    id: StrategyId,
}
impl AlgoStrategy for Lc {
    type State = State;
    fn generate_algo_orders(
        &self,
        _: &Self::State,
    ) -> (
        impl IntoIterator<Item = OrderRequestCancel<ExchangeIndex, InstrumentIndex>>,
        impl IntoIterator<Item = OrderRequestOpen<ExchangeIndex, InstrumentIndex>>,
    ) {
        (std::iter::empty(), std::iter::empty())
    }
}
impl ClosePositionsStrategy for Lc {
    type State = State;
    fn close_positions_requests<'a>(
        &'a self,
        state: &'a Self::State,
        filter: &'a InstrumentFilter<ExchangeIndex, AssetIndex, InstrumentIndex>,
    ) -> (
        impl IntoIterator<Item = OrderRequestCancel<ExchangeIndex, InstrumentIndex>> + 'a,
        impl IntoIterator<Item = OrderRequestOpen<ExchangeIndex, InstrumentIndex>> + 'a,
    )
    where
        ExchangeIndex: 'a,
        AssetIndex: 'a,
        InstrumentIndex: 'a,
    {
        close_open_positions_with_market_orders(&self.id, state, filter, |st| ClientOrderId::new(format!("z{}", st.key.index())))
    }
}
impl<Clock, ExecutionTxs, Risk> OnDisconnectStrategy<Clock, State, ExecutionTxs, Risk> for Lc {
    type OnDisconnect = ();
    fn on_disconnect(_: &mut Engine<Clock, State, ExecutionTxs, Self, Risk>, _: ExchangeId) -> Self::OnDisconnect {}
}
impl<Clock, ExecutionTxs, Risk> OnTradingDisabled<Clock, State, ExecutionTxs, Risk> for Lc {
    type OnTradingDisabled = ();
    fn on_trading_disabled(_: &mut Engine<Clock, State, ExecutionTxs, Self, Risk>) -> Self::OnTradingDisabled {}
}

/// the market source as the forwarder sees it: a channel the driver / a source task feeds; logs the moment
/// the forwarder takes an item or finds the source ended
struct LoggedSource {
    rx: tokio_stream::wrappers::UnboundedReceiverStream<MItem>,
    shared: Arc<Mutex<LcShared>>,
    ended: bool,
}
impl Stream for LoggedSource {
    type Item = MItem;
    fn poll_next(mut self: std::pin::Pin<&mut Self>, cx: &mut std::task::Context<'_>) -> std::task::Poll<Option<MItem>> {
        match self.rx.poll_next_unpin(cx) {
            std::task::Poll::Ready(Some(item)) => {
                let mut g = self.shared.lock();
                g.yields += 1;
                let k = g.yields;
                g.lines.push(json!({"a": "Yield", "k": k}));
                drop(g);
                std::task::Poll::Ready(Some(item))
            }
            std::task::Poll::Ready(None) => {
                if !self.ended {
                    self.ended = true;
                    self.shared.lock().lines.push(json!({"a": "SrcEnd"}));
                }
                std::task::Poll::Ready(None)
            }
            std::task::Poll::Pending => std::task::Poll::Pending,
        }
    }
}

/// the feeding side of the market source, shared by the driver and the source tasks
#[derive(Clone)]
struct SrcHandle {
    tx: Arc<Mutex<Option<tokio::sync::mpsc::UnboundedSender<MItem>>>>,
    pushed: Arc<std::sync::atomic::AtomicUsize>,
    insts: Arc<Vec<Inst>>,
}
impl SrcHandle {
    fn item(&self) {
        if let Some(tx) = self.tx.lock().as_ref() {
            let k = self.pushed.fetch_add(1, std::sync::atomic::Ordering::SeqCst) + 1;
            let inst = &self.insts[(k - 1) % self.insts.len()];
            let _ = tx.send(MarketStreamEvent::Item(MarketEvent { time_exchange: time(k as i64), time_received: time(k as i64), exchange: inst.ex, instrument: inst.idx,
                kind: DataKind::Trade(PublicTrade { id: format!("m{k}"), price: inst.price as f64, amount: 1.0, side: Side::Buy }) }));
        }
    }
    fn end(&self) {
        self.tx.lock().take();
    }
    async fn run_plan(self, plan: Vec<Value>) {
        for p in plan {
            let ms = p["ms"].as_u64().unwrap_or(0);
            if ms > 0 { tokio::time::sleep(Duration::from_millis(ms)).await } else { tokio::task::yield_now().await }
            if s(&p, "a") == "Item" { self.item() } else { self.end() }
        }
    }
}

fn lc_differing_component(a: &State, b: &State) -> &'static str {
    if a.trading != b.trading {
        "trading state"
    } else if a.connectivity != b.connectivity {
        "connectivity"
    } else if a.assets != b.assets {
        "balances"
    } else if a.instruments.0.values().zip(b.instruments.0.values()).any(|(x, y)| x.position != y.position) {
        "positions"
    } else if a.instruments.0.values().zip(b.instruments.0.values()).any(|(x, y)| x.data != y.data) {
        "market data"
    } else if a.instruments.0.values().zip(b.instruments.0.values()).any(|(x, y)| x.orders != y.orders) {
        "orders"
    } else if a == b {
        ""
    } else {
        "other"
    }
}

const LC_KINDS: [&str; 5] = ["open", "cancel", "cancel_orders", "close", "trading"];

/// a TLC schedule (Gen_SystemLifecycle) -> driver steps: what the specification did after the stop call on
/// the source side (Item / End) becomes a source task started right before the call
fn lc_from_tlc(v: &Value, rng: &mut rand::rngs::StdRng) -> Value {
    let mut steps: Vec<Value> = vec![];
    let mut after: Vec<Value> = vec![];
    let mut stop: Option<String> = None;
    let mut ended = false;
    for st in v["steps"].as_array().cloned().unwrap_or_default() {
        let a = s(&st, "a").to_string();
        if stop.is_none() {
            match a.as_str() {
                "Cmd" => steps.push(json!({"a": "Cmd", "c": s(&st, "x"), "kind": LC_KINDS[rng.random_range(0..LC_KINDS.len())]})),
                "Stop" => stop = Some(s(&st, "x").to_string()),
                "End" => { ended = true; steps.push(json!({"a": "End"})) }
                _ => steps.push(json!({"a": a})),
            }
        } else if a == "Item" || a == "End" {
            ended |= a == "End";
            after.push(json!({"a": a, "ms": rng.random_range(0..3)}));
        }
    }
    let kind = stop.unwrap_or_else(|| "shutdown".into());
    if kind == "backtest" && !ended {
        after.push(json!({"a": "End", "ms": 1}));
    }
    if !after.is_empty() {
        steps.push(json!({"a": "Src", "plan": after}));
    }
    steps.push(json!({"a": "Stop", "kind": kind}));
    json!({"origin": "tlc", "mode": v["mode"], "audit": v["audit"], "trading": if rng.random_bool(0.5) { "enabled" } else { "disabled" }, "steps": steps})
}

/// seeded free-running scenarios: a SLOW market source (items separated by sleeps), commands, audit
/// hand-over and the stop call at random (virtual / real) times
fn lc_seeded(rng: &mut rand::rngs::StdRng, n: usize) -> Vec<Value> {
    (0..n).map(|i| {
        if i == 0 {
            // a fixed scenario (also the subject of the corrupted-trace self-test): slow source, two commands still in
            // the feed, both take_audit outcomes, shutdown_after_backtest called while two items are still to come
            return json!({"origin": "canonical", "mode": "stream", "audit": "on", "trading": "disabled", "steps": [
                {"a": "Src", "plan": [{"a": "Item", "ms": 5}, {"a": "Item", "ms": 5}, {"a": "Item", "ms": 5}, {"a": "End", "ms": 5}]},
                {"a": "Take"}, {"a": "Pause", "ms": 4}, {"a": "Cmd", "c": "c1", "kind": "trading"}, {"a": "Pause", "ms": 3},
                {"a": "Cmd", "c": "c2", "kind": "cancel_orders"}, {"a": "Take"}, {"a": "Cmd", "c": "c3", "kind": "close"},
                {"a": "Stop", "kind": "backtest"}]});
        }
        if i == 1 {
            // a second fixed scenario: Iterator mode, an order that is answered by the exchange, the audit receiver taken
            // and DROPPED while the engine keeps running, then the back-test stop
            return json!({"origin": "fixed", "mode": "iter", "audit": "on", "trading": "enabled", "steps": [
                {"a": "Src", "plan": [{"a": "Item", "ms": 2}, {"a": "Item", "ms": 2}, {"a": "End", "ms": 2}]},
                {"a": "Take"}, {"a": "Cmd", "c": "c1", "kind": "open"}, {"a": "Pause", "ms": 3}, {"a": "Drop"},
                {"a": "Cmd", "c": "c2", "kind": "cancel"}, {"a": "Pause", "ms": 2}, {"a": "Cmd", "c": "c3", "kind": "trading"},
                {"a": "Stop", "kind": "backtest"}]});
        }
        let kind = ["backtest", "shutdown", "abort"][(i / 4) % 3];
        let gap = [2u64, 5, 10][rng.random_range(0..3)];
        let items = rng.random_range(if kind == "backtest" { 1..=3 } else { 0..=3 });
        let mut plan: Vec<Value> = (0..items).map(|j| json!({"a": "Item", "ms": if j == 0 { rng.random_range(0..=gap) } else { gap }})).collect();
        if kind == "backtest" || rng.random_bool(0.5) {
            plan.push(json!({"a": "End", "ms": rng.random_range(0..=gap)}));
        }
        let mut steps = vec![json!({"a": "Src", "plan": plan})];
        let mut cmds: Vec<Value> = (1..=rng.random_range(0..=3usize)).map(|j| json!({"a": "Cmd", "c": format!("c{j}"), "kind": LC_KINDS[rng.random_range(0..LC_KINDS.len())]})).collect();
        match rng.random_range(0..4) {
            0 => {}
            1 => cmds.insert(rng.random_range(0..=cmds.len()), json!({"a": "Take"})),
            2 => {
                let at = rng.random_range(0..=cmds.len());
                cmds.insert(at, json!({"a": "Take"}));
                cmds.insert(rng.random_range(at + 1..=cmds.len()), json!({"a": "Drop"}));
            }
            _ => {
                let at = rng.random_range(0..=cmds.len());
                cmds.insert(at, json!({"a": "Take"}));
                cmds.insert(rng.random_range(at + 1..=cmds.len()), json!({"a": "Take"}));
            }
        }
        for c in cmds {
            if rng.random_bool(0.6) {
                steps.push(json!({"a": "Pause", "ms": rng.random_range(0..=2 * gap)}));
            }
            steps.push(c);
        }
        // the stop call: often while the source is still yielding (the drain must wait / the live source is cut)
        if rng.random_bool(0.7) {
            steps.push(json!({"a": "Pause", "ms": rng.random_range(0..=3 * gap)}));
        }
        steps.push(json!({"a": "Stop", "kind": kind}));
        json!({"origin": "seeded", "mode": if i % 2 == 0 { "stream" } else { "iter" }, "audit": if (i / 2) % 2 == 0 { "on" } else { "off" },
               "trading": if rng.random_bool(0.5) { "enabled" } else { "disabled" }, "steps": steps})
    }).collect()
}

async fn lc_run(scn: &Value, run: usize) -> Vec<Value> {
    let stream_mode = s(scn, "mode") == "stream";
    let audit_on = s(scn, "audit") == "on";
    let trading = if s(scn, "trading") == "enabled" { TradingState::Enabled } else { TradingState::Disabled };
    let shared = Arc::new(Mutex::new(LcShared::default()));
    let log = |v: Value| shared.lock().lines.push(v);
    let instruments = instruments();
    let insts = Arc::new(insts(&instruments));
    let (mtx, mrx) = tokio::sync::mpsc::unbounded_channel::<MItem>();
    let src = SrcHandle { tx: Arc::new(Mutex::new(Some(mtx))), pushed: Arc::new(Default::default()), insts: insts.clone() };
    let source = LoggedSource { rx: tokio_stream::wrappers::UnboundedReceiverStream::new(mrx), shared: shared.clone(), ended: false };
    let clock = RecClock { inner: HistoricalClock::new(time(0)), shared: Some(shared.clone()) };
    log(json!({"a": "Start", "run": run, "origin": scn["origin"], "mode": scn["mode"], "audit": scn["audit"], "trading": scn["trading"], "scn": scn}));
    let sys_args = SystemArgs::new(
        &instruments,
        vec![ExecutionConfig::Mock(mock_config(0, 1)), ExecutionConfig::Mock(mock_config(1, 2))],
        clock,
        Lc { id: StrategyId::new("sys") },
        DefaultRiskManager::<State>::default(),
        source,
        DefaultGlobalData::default(),
        DefaultInstrumentMarketData::default,
    );
    let build = match SystemBuilder::new(sys_args)
        .engine_feed_mode(if stream_mode { EngineFeedMode::Stream } else { EngineFeedMode::Iterator })
        .audit_mode(if audit_on { AuditMode::Enabled } else { AuditMode::Disabled })
        .trading_state(trading)
        .balances((0..2).flat_map(|x| funds(x).into_iter().map(move |(a, v)| (EXCHANGES[x], a, Balance { total: dec(v), free: dec(v) }))))
        .build::<EngineEvent, _>()
    {
        Ok(b) => b,
        Err(e) => usage(&format!("system build: {e:?}")),
    };
    // the engine state BEFORE anything is processed: the twin starts from it, the audit snapshot must equal it
    let state0: State = build.engine.state.clone();
    let mut system = match build.init_with_runtime(tokio::runtime::Handle::current()).await {
        Ok(s) => s,
        Err(e) => usage(&format!("system init: {e:?}")),
    };
    let h_engine = system.engine.abort_handle();
    let h_market = system.handles.market_to_engine.abort_handle();
    let h_account = system.handles.account_to_engine.abort_handle();
    let h_exec: Vec<Vec<tokio::task::AbortHandle>> = (0..EXCHANGES.len()).map(|x| {
        let e = &system.handles.execution;
        vec![e.mock_exchanges[x].abort_handle(), e.managers[x].abort_handle(), e.account_to_engines[x].abort_handle()]
    }).collect();

    let breathe = || async move {
        if stream_mode {
            for _ in 0..3 { tokio::task::yield_now().await }
        } else {
            tokio::time::sleep(Duration::from_micros(300)).await
        }
    };
    let mut held = None;
    let mut helpers: Vec<tokio::task::JoinHandle<()>> = vec![];
    let mut stop_kind = "shutdown".to_string();
    let mut api_panic: Option<String> = None;
    for st in scn["steps"].as_array().cloned().unwrap_or_default() {
        match s(&st, "a") {
            "Item" => {
                src.item();
                // let the forwarder take it (bounded wait; whatever really happened is what the log shows)
                let want = src.pushed.load(std::sync::atomic::Ordering::SeqCst);
                for _ in 0..40 {
                    if shared.lock().yields >= want { break }
                    breathe().await;
                }
            }
            "End" => { src.end(); breathe().await }
            "Src" => helpers.push(tokio::spawn(src.clone().run_plan(st["plan"].as_array().cloned().unwrap_or_default()))),
            "Run" => breathe().await,
            "Pause" => tokio::time::sleep(Duration::from_millis(st["ms"].as_u64().unwrap_or(1))).await,
            "Cmd" if api_panic.is_none() => {
                let label = s(&st, "c").to_string();
                let j: usize = label[1..].parse().unwrap_or(1);
                let inst = &insts[j % insts.len()];
                let cid = format!("L{j}");
                let filter = || InstrumentFilter::instruments([inst.idx]);
                let open = || OneOrMany::One(OrderRequestOpen { key: key(inst, &cid), state: RequestOpen { side: Side::Buy, price: dec(inst.price), quantity: dec(1), kind: OrderKind::Market, time_in_force: TimeInForce::ImmediateOrCancel } });
                let cancel = || OneOrMany::One(OrderRequestCancel { key: key(inst, &cid), state: RequestCancel { id: None } });
                let ts = if j % 2 == 1 { TradingState::Disabled } else { TradingState::Enabled };
                let kind = s(&st, "kind");
                let rendering = match kind {
                    "open" => format!("{:?}", Cmd::SendOpenRequests(open())),
                    "cancel" => format!("{:?}", Cmd::SendCancelRequests(cancel())),
                    "cancel_orders" => format!("{:?}", Cmd::CancelOrders(filter())),
                    "close" => format!("{:?}", Cmd::ClosePositions(filter())),
                    _ => format!("{ts:?}"),
                };
                {
                    let mut g = shared.lock();
                    g.intended.push((rendering, label.clone()));
                    g.lines.push(json!({"a": "Cmd", "c": label, "kind": kind}));
                }
                let r = catch(|| match kind {
                    "open" => system.send_open_requests(open()),
                    "cancel" => system.send_cancel_requests(cancel()),
                    "cancel_orders" => system.cancel_orders(filter()),
                    "close" => system.close_positions(filter()),
                    _ => system.trading_state(ts),
                });
                if let Err(p) = r {
                    api_panic = Some(p);
                }
            }
            "Take" => {
                let got = system.take_audit();
                let (snap_seq, snap_eq) = match &got {
                    Some(a) => (a.snapshot.context.sequence.value() as i64, a.snapshot.event == state0),
                    None => (-1, true),
                };
                log(json!({"a": "TakeAudit", "some": got.is_some(), "snap_seq": snap_seq, "snap_eq": snap_eq}));
                if got.is_some() {
                    held = got;
                }
            }
            "Drop" => {
                if held.take().is_some() {
                    log(json!({"a": "DropAudit"}));
                }
            }
            "Stop" => stop_kind = s(&st, "kind").to_string(),
            _ => {}
        }
    }
    if let Some(p) = api_panic {
        log(json!({"a": "Anomaly", "tag": "api_panicked", "anomaly": format!("a System API call panicked: {p} (the engine task had ended although no stop was requested)")}));
    }
    // ---- the stop call
    log(json!({"a": "StopCall", "kind": stop_kind}));
    let kind = stop_kind.clone();
    let fut = async move {
        match kind.as_str() {
            "shutdown" => system.shutdown().await,
            "abort" => system.abort().await,
            _ => system.shutdown_after_backtest().await,
        }
    };
    // (Stream mode: virtual seconds - a deadlocked system lets the paused clock jump to the deadline at once)
    let limit = Duration::from_secs(if stream_mode { 120 } else { 10 });
    let r = tokio::time::timeout(limit, std::panic::AssertUnwindSafe(fut).catch_unwind()).await;
    let (engine, final_audit) = match r {
        Err(_) => {
            log(json!({"a": "Anomaly", "tag": "stop_hangs", "anomaly": format!("{stop_kind}() did not return within {} s ({})", limit.as_secs(), if stream_mode { "virtual" } else { "wall clock" })}));
            return finish(&shared, helpers);
        }
        Ok(Err(p)) => {
            let msg = p.downcast_ref::<String>().cloned().or_else(|| p.downcast_ref::<&str>().map(|s| s.to_string())).unwrap_or_else(|| "panic".into());
            log(json!({"a": "Anomaly", "tag": "stop_failed", "anomaly": format!("{stop_kind}() panicked: {msg}")}));
            return finish(&shared, helpers);
        }
        Ok(Ok(Err(e))) => {
            log(json!({"a": "Anomaly", "tag": "stop_failed", "anomaly": format!("{stop_kind}() returned an error: {e}")}));
            return finish(&shared, helpers);
        }
        Ok(Ok(Ok(x))) => x,
    };
    // ---- what has ended: a cancelled task completes the next time the runtime polls it
    for _ in 0..5 { tokio::task::yield_now().await }
    tokio::time::sleep(Duration::from_millis(2)).await;
    for _ in 0..5 { tokio::task::yield_now().await }
    let mut tasks = serde_json::Map::new();
    tasks.insert("engine".into(), json!(h_engine.is_finished()));
    tasks.insert("marketFwd".into(), json!(h_market.is_finished()));
    tasks.insert("accountFwd".into(), json!(h_account.is_finished()));
    for (x, hs) in h_exec.iter().enumerate() {
        tasks.insert(EXCHANGES[x].as_str().to_string(), json!(hs.iter().all(|h| h.is_finished())));
    }
    // ---- the audit records received (if the receiver is still held)
    let (intended, labels, events) = {
        let g = shared.lock();
        (g.intended.clone(), g.labels.clone(), g.events.clone())
    };
    let holds = held.is_some();
    let mut ticks: Vec<Value> = vec![];
    if let Some(a) = held.as_mut() {
        let mut used = vec![];
        while let Ok(t) = a.updates.rx.try_recv() {
            let ev = match &t.event {
                EngineAudit::Process(p) => lc_label(&p.event, &intended, &mut used),
                EngineAudit::FeedEnded => "feedEnded".to_string(),
            };
            ticks.push(json!({"seq": t.context.sequence.value(), "ev": ev}));
        }
    }
    let fin = match &final_audit {
        EngineAudit::Process(p) => {
            let mut used = vec![true; intended.len()];
            let l = lc_label(&p.event, &intended, &mut used);
            if l == "sd" { l } else { "other".to_string() }
        }
        EngineAudit::FeedEnded => "feedEnded".to_string(),
    };
    // ---- the twin: a second real engine started from the same state, fed the same events synchronously
    let sinks: Vec<_> = EXCHANGES.iter().map(|_| barter_integration::channel::mpsc_unbounded::<ExecutionRequest>()).collect();
    let txs: MultiExchangeTxMap = EXCHANGES.iter().zip(sinks.iter()).map(|(e, (tx, _))| (*e, Some(tx.clone()))).collect();
    let mut twin = Engine::new(HistoricalClock::new(time(0)), state0.clone(), txs, Lc { id: StrategyId::new("sys") }, DefaultRiskManager::<State>::default());
    let twin_ok = catch(|| {
        for e in events.iter() {
            let _ = twin.process(e.clone());
        }
    });
    let diff = match twin_ok {
        Ok(()) => lc_differing_component(&engine.state, &twin.state).to_string(),
        Err(p) => format!("twin panicked: {p}"),
    };
    log(json!({"a": "StopRet", "kind": stop_kind, "final": fin, "tasks": tasks, "log": labels, "seq": engine.meta.sequence.value(),
               "twin": diff.is_empty(), "twin_diff": diff, "holds": holds, "ticks": ticks}));
    finish(&shared, helpers)
}

fn finish(shared: &Arc<Mutex<LcShared>>, helpers: Vec<tokio::task::JoinHandle<()>>) -> Vec<Value> {
    for h in helpers {
        h.abort();
    }
    std::mem::take(&mut shared.lock().lines)
}

fn lifecycle_main(args: &Args) {
    let seed = args.u64("seed", 1);
    let mut rng = rng(seed);
    let mut scns: Vec<Value> = vec![];
    if let Some(p) = args.get("scenarios") {
        scns.extend(read_ndjson(p).iter().map(|v| lc_from_tlc(v, &mut rng)));
    }
    scns.extend(lc_seeded(&mut rng, args.usize("seeded", 0)));
    // (replays: scenarios already in driver format)
    if let Some(p) = args.get("driver") {
        scns.extend(read_ndjson(p));
    }
    let mut out = Out::create(args.req("out"));
    // a panic inside the system under test is data, reported through the log - not through stderr
    std::panic::set_hook(Box::new(|_| {}));
    let mut stats: std::collections::BTreeMap<String, usize> = Default::default();
    let mut hangs = 0usize;
    for (i, scn) in scns.iter().enumerate() {
        let stream_mode = s(scn, "mode") == "stream";
        // a stop call that hangs costs its wall-clock limit in Iterator mode: two such runs are evidence enough
        if !stream_mode && hangs >= 2 {
            *stats.entry("iterator_runs_skipped_after_two_hanging_stop_calls".into()).or_default() += 1;
            continue;
        }
        let rt = tokio::runtime::Builder::new_current_thread().enable_all().start_paused(stream_mode).build().expect("runtime");
        let lines = rt.block_on(lc_run(scn, i));
        rt.shutdown_timeout(Duration::from_millis(50));
        let stop = scn["steps"].as_array().and_then(|a| a.last()).map(|l| s(l, "kind").to_string()).unwrap_or_default();
        *stats.entry(format!("runs_{}_{}_audit_{}", s(scn, "mode"), stop, s(scn, "audit"))).or_default() += 1;
        for l in lines.iter() {
            match s(l, "a") {
                "Proc" => *stats.entry(format!("processed_{}", match s(l, "ev") { "acct" => "account_items", "sd" => "shutdown", x if x.starts_with('m') => "market_items", _ => "commands" })).or_default() += 1,
                "Yield" => *stats.entry("items_taken_by_the_market_forwarder".into()).or_default() += 1,
                "TakeAudit" => *stats.entry(format!("take_audit_{}", if b(l, "some") { "some" } else { "none" })).or_default() += 1,
                "DropAudit" => *stats.entry("audit_receiver_dropped_while_running".into()).or_default() += 1,
                "StopRet" => {
                    *stats.entry("stop_calls_returned".into()).or_default() += 1;
                    *stats.entry("audit_records_received".into()).or_default() += l["ticks"].as_array().map(|a| a.len()).unwrap_or(0);
                    if b(l, "twin") { *stats.entry("returned_engines_equal_to_their_twin".into()).or_default() += 1 }
                }
                "Anomaly" => {
                    *stats.entry("anomalies".into()).or_default() += 1;
                    if !stream_mode && l["tag"] == "stop_hangs" { hangs += 1 }
                }
                _ => {}
            }
            out.line(l);
        }
        // the drain is discriminating when the stop call was made while the source still had items to yield
        let call = lines.iter().position(|l| s(l, "a") == "StopCall");
        if let Some(c) = call {
            if stop == "backtest" && lines[c..].iter().any(|l| s(l, "a") == "Yield") {
                *stats.entry("backtest_stops_called_before_the_source_was_drained".into()).or_default() += 1;
            }
            if stop != "backtest" && lines[c..].iter().any(|l| s(l, "a") == "Yield") {
                *stats.entry("items_yielded_after_a_shutdown_or_abort_call".into()).or_default() += 1;
            }
            if lines[..c].iter().filter(|l| s(l, "a") == "Cmd").count() > lines[..c].iter().filter(|l| s(l, "a") == "Proc" && s(l, "ev").starts_with('c')).count() {
                *stats.entry("stops_called_with_commands_still_in_the_feed".into()).or_default() += 1;
            }
        }
    }
    let n = out.finish();
    let mut summary = serde_json::Map::new();
    summary.insert("lines".into(), json!(n));
    summary.insert("scenarios".into(), json!(scns.len()));
    for (k, v) in stats {
        summary.insert(k, json!(v));
    }
    println!("{}", Value::Object(summary));
    // (an engine left spinning on its blocking thread by a failed stop must not keep the process alive)
    std::process::exit(0);
}
