------------------------------ MODULE MC_Stats ------------------------------
(* Model constants of Stats for TLC (a .cfg file cannot write negative      *)
(* numbers, so the value sets are defined here and substituted with `<-`).  *)
EXTENDS Stats

PnLsQuick    == {-2, -1, 0, 1, 3}           \* returns {-2,-1,0,1,3}/10 with cost 10
ValsQuick    == {-3, -1, 0, 2, 1000}        \* repeats allowed, mixed magnitude
ValsThorough == {-3, -1, 0, 2, 7, 1000}
=============================================================================
