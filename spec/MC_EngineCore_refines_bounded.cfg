SPECIFICATION Spec
CONSTANTS
  CIDS = {"c1", "c2", "x"}
  EVENTS <- MCEvents
  ENVS <- MCEnvs
  MaxSeq = 1
  Mode = "bounded"
INVARIANTS ConnIff ConnInv
PROPERTIES ConnSpec Labelled ConnStepProps ConnHealedByNext
CONSTRAINT Bound
VIEW View
CHECK_DEADLOCK FALSE
