--------------------------- MODULE MC_AccountLink ---------------------------
(* The bounded alphabets of the exhaustive runs of AccountLink and of scenario generation       *)
(* (records cannot be written in a .cfg).  The name tables are those the implementation's       *)
(* IndexedInstruments assigns to the harness world of harness/src/bin/acctlink.rs (two          *)
(* exchanges; the asset names btc / usdt and the instrument name BTCUSDT exist on BOTH with      *)
(* different indices; sol / SOLUSDT only on binance_spot, eth / ETHUSDT only on kraken); trace   *)
(* validation does not rely on them: it takes the tables from the recorded run.                 *)
EXTENDS AccountLink

TabB == [ex |-> 0, xid |-> "binance_spot",
         assets |-> [btc |-> 0, sol |-> 1, usdt |-> 2], insts |-> [BTCUSDT |-> 0, SOLUSDT |-> 1]]
TabK == [ex |-> 1, xid |-> "kraken",
         assets |-> [btc |-> 3, eth |-> 4, usdt |-> 5], insts |-> [BTCUSDT |-> 2, ETHUSDT |-> 3]]

E(kd, nm, xok, ea, d) == [k |-> kd, nm |-> nm, xok |-> xok, early |-> ea, d |-> d, v |-> 0]

RECURSIVE SeqsUpTo(_, _)
SeqsUpTo(S, n) == IF n = 0 THEN {<<>>}
                  ELSE LET P == SeqsUpTo(S, n - 1)
                       IN P \cup {Append(s, x) : s \in {p \in P : Len(p) = n - 1}, x \in S}

\* early elements form a prefix of the body
Bodies(shapes, n) == {b \in SeqsUpTo(shapes, n) : \A i \in 1..(Len(b) - 1) : b[i + 1].early => b[i].early}
EarlyOnly(shapes, n) == {b \in Bodies(shapes, n) : \A i \in 1..Len(b) : b[i].early}

\* lps: the pairs <<ls, ln>> of call latencies of a successful attempt; fl: the latency of a failing call
OutcomeShapes(shapes, lps, fl, eds, maxb) ==
         {[r |-> "sfail", ls |-> fl, ln |-> 0, ed |-> 0, body |-> <<>>]}
    \cup {[r |-> rr, ls |-> 0, ln |-> fl, ed |-> 0, body |-> b] :
              rr \in {"nfail", "nbad"}, b \in EarlyOnly(shapes, Min(maxb, 1))}
    \cup {[r |-> "ok", ls |-> p[1], ln |-> p[2], ed |-> e, body |-> b] :
              p \in lps, e \in eds, b \in Bodies(shapes, maxb)}

RECURSIVE ShapesWith(_, _, _)      \* n outcomes and m elements left
ShapesWith(O, n, m) ==
  IF n = 0 THEN {<<>>}
  ELSE {<<>>} \cup UNION {{<<o>> \o s : s \in ShapesWith(O, n - 1, m - Len(o.body))} :
                               o \in {x \in O : Len(x.body) <= m}}

RECURSIVE SumLen(_, _)
SumLen(s, j) == IF j = 0 THEN 0 ELSE SumLen(s, j - 1) + Len(s[j].body)

\* every element gets a value of its own: 1, 2, 3 ... in script order
Numbered(s) == [j \in 1..Len(s) |->
                  [s[j] EXCEPT !.body = [i \in 1..Len(s[j].body) |->
                      [s[j].body[i] EXCEPT !.v = SumLen(s, j - 1) + i]]]]

ScriptsOf(shapes, lps, fl, eds, maxo, maxb, maxe) ==
    {Numbered(s) : s \in ShapesWith(OutcomeShapes(shapes, lps, fl, eds, maxb), maxo, maxe) \ {<<>>}}

ReqListsOf(ats, ds, n) == SeqsUpTo({[at |-> a, d |-> d] : a \in ats, d \in ds}, n)

\* ---- element alphabets (kraken is the exchange under test unless stated)
OwnEarly  == E("bal", "usdt", TRUE, TRUE, 0)         \* shared name: index 5 here, 2 on binance_spot
OwnLate   == E("ord", "BTCUSDT", TRUE, FALSE, 0)     \* shared name: index 2 here, 0 on binance_spot
OwnLate3  == E("trade", "ETHUSDT", TRUE, FALSE, 3)
ForLate   == E("bal", "sol", TRUE, FALSE, 0)         \* foreign asset
ForEarly  == E("trade", "SOLUSDT", TRUE, TRUE, 0)    \* foreign instrument
XidLate   == E("ord", "BTCUSDT", FALSE, FALSE, 0)    \* own name under another exchange's ExchangeId
ForLate3  == E("trade", "SOLUSDT", TRUE, FALSE, 3)
\* for binance_spot the foreign names are eth / ETHUSDT
BOwnEarly == E("bal", "sol", TRUE, TRUE, 0)
BForLate  == E("trade", "ETHUSDT", TRUE, FALSE, 0)
BForEarly == E("bal", "eth", TRUE, TRUE, 0)

Rq(a, d) == [at |-> a, d |-> d]
\* ---- exhaustive model, quick: rich scripts without latencies, a request that times out while the link waits
PolA      == {[b0 |-> 100, mult |-> 3, max |-> 500]}
PolT      == {[b0 |-> 10, mult |-> 2, max |-> 15]}
ScriptsA  == ScriptsOf({OwnEarly, OwnLate, ForLate}, {<<0, 0>>}, 0, {0}, 3, 2, 2)
ReqsA     == {<<Rq(0, -1)>>}
\* ---- exhaustive model, quick: latencies, silences, slack, two requests; short scripts
ScriptsT  == ScriptsOf({OwnEarly, OwnLate3, ForLate3}, {<<7, 0>>, <<0, 7>>}, 7, {3}, 2, 1, 1)
ReqsT     == {<<Rq(0, 4)>>, <<Rq(0, 4), Rq(8, 4)>>, <<Rq(0, -1), Rq(0, 4)>>}
TabsBoth  == {TabB, TabK}
TabsK     == {TabK}
\* the client's constant ExchangeId: mock goes with every map, any other must be the map's own
ClientsOK == {"mock", "kraken"}
ClientsAll == {"mock", "kraken", "binance_spot"}
ClientsA  == {"kraken", "binance_spot"}
ClientsT  == {"mock"}
RInsAll   == {"BTCUSDT"}
=============================================================================
