SPECIFICATION RefSpec
CONSTANTS
  CIDS = {"c1", "c2", "x"}
  EVENTS = {}
  ENVS = {}
  MaxSeq = 0
  Mode = "deep"
INVARIANTS ConnIff ConnInv
PROPERTIES ConnSpec Labelled NeverBroken ConnStepProps ConnHealedByNext ConnStep
VIEW DeepView
CHECK_DEADLOCK FALSE
