SPECIFICATION GSpecR
CONSTANTS
  CID = {"c1", "c2", "c3"}
  QTY = {2, 3}
  SV = {1, 2}
  TIME = {0, 1, 2, 3}
  OID = {1, 2}
  MaxLen = 24
  AllPre = FALSE
INVARIANT Emit
CHECK_DEADLOCK FALSE
