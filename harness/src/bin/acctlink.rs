//! The account link of an exchange — conformance driver for spec/AccountLink.tla (C12, C14, C07, C04).
//!
//! `acctlink run    --scenarios f.ndjson --out trace.ndjson`   executes scenarios (TLC-generated or replayed)
//! `acctlink random --seed S --n N [--mock M] --out trace.ndjson --scn-out scn.ndjson`   seeded random scenarios (longer
//!     scripts, more updates and requests than the bounded model), written to --scn-out as scenarios
//!
//! scenario = {"x": "kraken"|"binance_spot"   the exchange whose link is built,
//!             "cc": "mock"|"kraken"|"binance_spot"   the client's constant ExchangeId,
//!             "pol": {b0,mult,max}, "T": request timeout ms,
//!             "script": [{"r": sfail|nfail|nbad|ok, "ls","ln","ed", "body": [{"k": bal|ord|trade, "nm", "xok", "early", "d", "v"}]}],
//!             "reqs": [{"at","d"}]}          (see the header of spec/AccountLink.tla)
//!
//! Every scenario runs the REAL `ExecutionManager::init` (reconnecting, indexed account stream merged with the
//! manager's response channel) and the REAL `ExecutionManager::run` on a current-thread tokio runtime with the
//! paused clock, around a scripted `ExecutionClient`:
//!   * `account_stream()` / `account_snapshot()` take the scripted time and fail or succeed as scripted; the client
//!     logs each call with its virtual instant (`Subscribe`, `Snap`; `Wait` before a call that follows a failed attempt);
//!   * the exchange "produces" the early updates of an attempt when the snapshot is requested: they are sent to the
//!     subscription that exists at that moment (none: they are lost, as on a real exchange) and logged (`Early`);
//!   * once both calls of an attempt succeeded a feeder task sends the remaining updates at their scripted instants
//!     and then ends the connection;
//!   * the snapshot is built from the ARGUMENTS of the call (one balance per asset name, one entry per instrument
//!     name the manager asked for, each listing one open order), stamped with the attempt number; `nbad` adds a
//!     balance of a foreign asset;
//!   * updates carry exchange names (own, shared with the other exchange, foreign) and the own or the other
//!     exchange's ExchangeId.
//! The driver consumes the merged stream, stamping every item with the virtual instant, hands the scripted
//! requests to the manager at `born + at` (whatever the link is doing), and when nothing has happened for a long
//! virtual time logs `Stop quiet`, sends Shutdown (`Shutdown`) and expects the stream to end (`Ended`).
//! OVERRUN family (`random --mock M`, scenario field "mock"): the REAL `MockExecution` client and a REAL `MockExchange`
//! task (wired as ExecutionBuilder::add_mock does, but with a SMALL notification capacity) behind the real
//! `ExecutionManager::init`, through a delegating client that only logs the two calls, stamps the exchange's snapshot
//! with the attempt number and stops answering once the plan is worked off.  Per connection the driver publishes
//! account notifications on the exchange's broadcast channel and consumes them; then a burst that fits the capacity
//! while the merged stream is NOT polled (all delivered late, in order); then a burst LARGER than the capacity while it
//! is not polled: the subscription lags.  In AccountLink's terms the connection ENDS there: its script body is what was
//! published before the overrun (instants as actually played, so the `Reset` line is assembled after the run), the
//! overrun notifications belong to no connection and must never appear; one notice, then the next connection's
//! snapshot first.
//! One NDJSON line per observation; all lines have the same fields.  `Trace_AccountLink.tla` is the oracle.
//! The name tables in the `Reset` line are read off the implementation's IndexedInstruments (not off the
//! ExecutionInstrumentMap the manager uses).
use barter::execution::{AccountStreamEvent, manager::ExecutionManager, request::ExecutionRequest};
use barter_data::streams::reconnect::stream::ReconnectionBackoffPolicy;
use barter_execution::{
    AccountEventKind, InstrumentAccountSnapshot, UnindexedAccountEvent, UnindexedAccountSnapshot,
    balance::{AssetBalance, Balance},
    client::{
        ExecutionClient,
        mock::{MockExecution, MockExecutionClientConfig, MockExecutionConfig},
    },
    exchange::mock::MockExchange,
    error::{ConnectivityError, OrderError, UnindexedClientError, UnindexedOrderError},
    indexer::AccountEventIndexer,
    map::generate_execution_instrument_map,
    order::{
        Order, OrderKey, OrderKind, TimeInForce,
        id::{ClientOrderId, OrderId, StrategyId},
        request::{OrderRequestCancel, OrderRequestOpen, RequestOpen, UnindexedOrderResponseCancel},
        state::{ActiveOrderState, InactiveOrderState, Open, OrderState, UnindexedOrderState},
    },
    trade::{AssetFees, Trade, TradeId},
};
use barter_instrument::{
    Side, Underlying,
    asset::{QuoteAsset, name::AssetNameExchange},
    exchange::{ExchangeId, ExchangeIndex},
    index::IndexedInstruments,
    instrument::{Instrument, InstrumentIndex, name::InstrumentNameExchange},
};
use barter_integration::{channel::mpsc_unbounded, snapshot::Snapshot};
use chrono::{DateTime, Utc};
use futures::{FutureExt, StreamExt, stream::BoxStream};
use rand::Rng;
use serde_json::{Value, json};
use std::{
    collections::BTreeMap,
    marker::PhantomData,
    panic::AssertUnwindSafe,
    sync::{Arc, Mutex},
    time::Duration,
};
use tokio::{sync::mpsc::UnboundedSender, time::Instant};
use tokio_stream::wrappers::UnboundedReceiverStream;
use vh::util::*;

/// virtual ms without any observation after which the run is considered quiet (far above every scripted
/// latency, silence and back-off wait)
const IDLE_MS: u64 = 600_000;
/// more items than any script can produce
const RUNAWAY: usize = 400;

// ------------------------------------------------------------------------------------------------
// the world: two exchanges; btc / usdt / BTCUSDT exist on both (different indices), sol / SOLUSDT only on
// binance_spot, eth / ETHUSDT only on kraken
// ------------------------------------------------------------------------------------------------
const XB: ExchangeId = ExchangeId::BinanceSpot;
const XK: ExchangeId = ExchangeId::Kraken;

fn world() -> IndexedInstruments {
    IndexedInstruments::builder()
        .add_instrument(Instrument::spot(XB, "b_btc_usdt", "BTCUSDT", Underlying::new("btc", "usdt"), None))
        .add_instrument(Instrument::spot(XK, "k_eth_usdt", "ETHUSDT", Underlying::new("eth", "usdt"), None))
        .add_instrument(Instrument::spot(XK, "k_btc_usdt", "BTCUSDT", Underlying::new("btc", "usdt"), None))
        .add_instrument(Instrument::spot(XB, "b_sol_usdt", "SOLUSDT", Underlying::new("sol", "usdt"), None))
        .build()
}

fn exchange_of(name: &str) -> ExchangeId {
    match name {
        "kraken" => XK,
        "binance_spot" => XB,
        "mock" => ExchangeId::Mock,
        _ => usage("exchange: kraken | binance_spot | mock"),
    }
}

/// The name tables of `x`, read off IndexedInstruments: {ex, xid, assets: {name: index}, insts: {name: index}}.
fn table(w: &IndexedInstruments, x: ExchangeId) -> Value {
    let ex = w.exchanges().iter().find(|k| k.value == x).map(|k| k.key.index()).expect("exchange of the world");
    let assets: BTreeMap<String, usize> = w.assets().iter().filter(|a| a.value.exchange == x)
        .map(|a| (a.value.asset.name_exchange.name().to_string(), a.key.index())).collect();
    let insts: BTreeMap<String, usize> = w.instruments().iter().filter(|i| i.value.exchange.value == x)
        .map(|i| (i.value.name_exchange.name().to_string(), i.key.index())).collect();
    json!({"ex": ex, "xid": x.as_str(), "assets": assets, "insts": insts})
}

// ------------------------------------------------------------------------------------------------
// scenario
// ------------------------------------------------------------------------------------------------
#[derive(Clone, Debug)]
struct Elem {
    k: String,
    nm: String,
    xok: bool,
    early: bool,
    d: u64,
    v: i64,
}

#[derive(Clone, Debug)]
struct Outcome {
    r: String,
    ls: u64,
    ln: u64,
    ed: u64,
    body: Vec<Elem>,
}

#[derive(Clone, Debug)]
struct Req {
    at: u64,
    /// client delay, None = never answers (the timeout failure)
    d: Option<u64>,
}

/// One connection of the overrun family: notifications consumed one by one (`pre`, each `g` ms after the previous),
/// a burst that fits the capacity (`fit`, published together while the consumer is busy), then `over` notifications
/// (more than the capacity) while the consumer is busy.
#[derive(Clone, Debug)]
struct MockConn {
    pre: Vec<(u64, Elem)>,
    fit: Vec<Elem>,
    fit_gap: u64,
    over: usize,
    over_gap: u64,
}

#[derive(Clone, Debug)]
struct MockPlan {
    cap: usize,
    lat: u64,
    busy: u64,
    conns: Vec<MockConn>,
}

#[derive(Clone, Debug)]
struct Scenario {
    mock: Option<MockPlan>,
    x: String,
    cc: String,
    pol: (u64, u8, u64),
    t: u64,
    script: Vec<Outcome>,
    reqs: Vec<Req>,
}

fn arr<'a>(v: &'a Value, k: &str) -> &'a [Value] {
    // TLC prints an empty function as {} rather than []
    v.get(k).and_then(|x| x.as_array()).map(|a| a.as_slice()).unwrap_or(&[])
}

fn elem_of(e: &Value) -> Elem {
    Elem {
        k: s(e, "k").to_string(),
        nm: s(e, "nm").to_string(),
        xok: b(e, "xok"),
        early: e.get("early").and_then(|x| x.as_bool()).unwrap_or(false),
        d: e.get("d").and_then(|x| x.as_u64()).unwrap_or(0),
        v: i(e, "v"),
    }
}

fn elem_json(e: &Elem) -> Value {
    json!({"k": e.k, "nm": e.nm, "xok": e.xok, "early": e.early, "d": e.d, "v": e.v})
}

fn mock_of(m: &Value) -> MockPlan {
    MockPlan {
        cap: i(m, "cap") as usize,
        lat: i(m, "lat") as u64,
        busy: i(m, "busy") as u64,
        conns: arr(m, "conns").iter().map(|c| MockConn {
            pre: arr(c, "pre").iter().map(|e| (i(e, "g") as u64, elem_of(e))).collect(),
            fit: arr(c, "fit").iter().map(elem_of).collect(),
            fit_gap: i(c, "fit_gap") as u64,
            over: i(c, "over") as usize,
            over_gap: i(c, "over_gap") as u64,
        }).collect(),
    }
}

fn mock_json(m: &MockPlan) -> Value {
    json!({"cap": m.cap, "lat": m.lat, "busy": m.busy, "conns": m.conns.iter().map(|c| json!({
        "pre": c.pre.iter().map(|(g, e)| { let mut j = elem_json(e); j["g"] = Value::from(*g); j }).collect::<Vec<_>>(),
        "fit": c.fit.iter().map(elem_json).collect::<Vec<_>>(),
        "fit_gap": c.fit_gap, "over": c.over, "over_gap": c.over_gap,
    })).collect::<Vec<_>>()})
}

fn scenario_of(v: &Value) -> Scenario {
    Scenario {
        mock: v.get("mock").filter(|m| m.is_object()).map(mock_of),
        x: s(v, "x").to_string(),
        cc: s(v, "cc").to_string(),
        pol: (i(&v["pol"], "b0") as u64, i(&v["pol"], "mult") as u8, i(&v["pol"], "max") as u64),
        t: i(v, "T") as u64,
        script: arr(v, "script").iter().map(|o| Outcome {
            r: s(o, "r").to_string(),
            ls: i(o, "ls") as u64,
            ln: i(o, "ln") as u64,
            ed: i(o, "ed") as u64,
            body: arr(o, "body").iter().map(elem_of).collect(),
        }).collect(),
        reqs: arr(v, "reqs").iter().map(|r| Req { at: i(r, "at") as u64, d: (i(r, "d") >= 0).then(|| i(r, "d") as u64) }).collect(),
    }
}

fn scenario_json(scn: &Scenario) -> Value {
    let mut j = scenario_json_base(scn);
    if let Some(m) = &scn.mock {
        j["mock"] = mock_json(m);
    }
    j
}

fn scenario_json_base(scn: &Scenario) -> Value {
    json!({
        "x": scn.x, "cc": scn.cc, "pol": {"b0": scn.pol.0, "mult": scn.pol.1, "max": scn.pol.2}, "T": scn.t,
        "script": scn.script.iter().map(|o| json!({
            "r": o.r, "ls": o.ls, "ln": o.ln, "ed": o.ed,
            "body": o.body.iter().map(elem_json).collect::<Vec<_>>(),
        })).collect::<Vec<_>>(),
        "reqs": scn.reqs.iter().map(|r| json!({"at": r.at, "d": r.d.map(|x| x as i64).unwrap_or(-1)})).collect::<Vec<_>>(),
    })
}

// ------------------------------------------------------------------------------------------------
// trace lines (all with the same fields)
// ------------------------------------------------------------------------------------------------
fn blank(a: &str, at: u64) -> Value {
    json!({"a": a, "at": at, "k": "none", "v": 0, "ex": -1, "kex": -1, "idx": 0, "kind": "none", "xid": "none", "as": [], "is": []})
}

fn stop(kind: &str, at: u64, what: &str) -> Value {
    let mut l = blank("Stop", at);
    l["k"] = Value::from(kind);
    if !what.is_empty() {
        l["what"] = Value::from(what);
    }
    l
}

fn rid(i: usize) -> ClientOrderId {
    ClientOrderId::new(format!("r{i}"))
}

fn whole(d: rust_decimal::Decimal) -> i64 {
    dec_json(d).as_i64().unwrap_or(-7)
}

/// Projection: an item of the merged stream -> the spec's observation.
fn emit_line(at: u64, event: &AccountStreamEvent) -> Value {
    let mut l = blank("Emit", at);
    let event = match event {
        AccountStreamEvent::Reconnecting(origin) => {
            l["k"] = Value::from("Notice");
            l["xid"] = Value::from(origin.as_str());
            return l;
        }
        AccountStreamEvent::Item(event) => event,
    };
    l["ex"] = Value::from(event.exchange.index());
    l["kex"] = Value::from(event.exchange.index());
    match &event.kind {
        AccountEventKind::Snapshot(snapshot) => {
            l["k"] = Value::from("Snapshot");
            l["kex"] = Value::from(snapshot.exchange.index());
            // the attempt number the exchange stamped on every balance and on every listed order
            let stamps: Vec<i64> = snapshot.balances.iter().map(|b| whole(b.balance.total))
                .chain(snapshot.instruments.iter().flat_map(|i| i.orders.iter().map(|o| whole(o.price)))).collect();
            l["v"] = Value::from(match stamps.first() {
                Some(v) if stamps.iter().all(|t| t == v) => *v,
                _ => -2,
            });
            // every listed order sits under the instrument its own key names, on this exchange
            if snapshot.instruments.iter().any(|i| i.orders.iter().any(|o| o.key.instrument != i.instrument || o.key.exchange != snapshot.exchange)) {
                l["kex"] = Value::from(-3);
            }
            let mut assets: Vec<usize> = snapshot.balances.iter().map(|b| b.asset.index()).collect();
            let mut insts: Vec<usize> = snapshot.instruments.iter().map(|i| i.instrument.index()).collect();
            assets.sort();
            insts.sort();
            l["as"] = json!(assets);
            l["is"] = json!(insts);
        }
        AccountEventKind::BalanceSnapshot(balance) => {
            l["k"] = Value::from("Update");
            l["kind"] = Value::from("bal");
            l["v"] = Value::from(whole(balance.0.balance.total));
            l["idx"] = Value::from(balance.0.asset.index());
        }
        AccountEventKind::Trade(trade) => {
            l["k"] = Value::from("Update");
            l["kind"] = Value::from("trade");
            l["v"] = Value::from(whole(trade.price));
            l["idx"] = Value::from(trade.instrument.index());
        }
        AccountEventKind::OrderSnapshot(order) => {
            let o = &order.0;
            l["kex"] = Value::from(o.key.exchange.index());
            l["idx"] = Value::from(o.key.instrument.index());
            let cid = o.key.cid.0.as_str();
            if let Some(id) = cid.strip_prefix('r').and_then(|x| x.parse::<i64>().ok()) {
                l["k"] = Value::from("Resp");
                l["v"] = Value::from(id);
                l["kind"] = Value::from(match &o.state {
                    OrderState::Active(ActiveOrderState::Open(_)) => "resp",
                    OrderState::Inactive(InactiveOrderState::OpenFailed(OrderError::Connectivity(ConnectivityError::Timeout))) => "timeout",
                    _ => "other",
                });
            } else {
                l["k"] = Value::from("Update");
                l["kind"] = Value::from("ord");
                l["v"] = Value::from(whole(o.price));
            }
        }
        AccountEventKind::OrderCancelled(_) => {
            return stop("foreign", at, "an OrderCancelled event nobody scripted");
        }
    }
    l
}

// ------------------------------------------------------------------------------------------------
// the scripted exchange client
// ------------------------------------------------------------------------------------------------
trait Konst: Clone + Send + Sync + 'static {
    const ID: ExchangeId;
}
#[derive(Clone)]
struct KMock;
#[derive(Clone)]
struct KKraken;
#[derive(Clone)]
struct KBinance;
impl Konst for KMock {
    const ID: ExchangeId = ExchangeId::Mock;
}
impl Konst for KKraken {
    const ID: ExchangeId = XK;
}
impl Konst for KBinance {
    const ID: ExchangeId = XB;
}

#[derive(Default)]
struct Stats {
    scenarios: usize,
    attempts: usize,
    sfail: usize,
    nfail: usize,
    nbad: usize,
    connections: usize,
    snapshots: usize,
    updates: usize,
    early_scripted: usize,
    early_lost_with_failed_attempt: usize,
    unindexable_scripted: usize,
    notices: usize,
    waits: usize,
    nostream: usize,
    config_refused: usize,
    requests: usize,
    responses: usize,
    timeouts: usize,
    resp_while: BTreeMap<String, usize>,
    anomalies: usize,
    by_client: BTreeMap<String, usize>,
    by_exchange: BTreeMap<String, usize>,
    mock_scenarios: usize,
    mock_overruns: usize,
    mock_fit_bursts: usize,
    mock_lost_published: usize,
}

struct Shared {
    t0: Instant,
    script: Vec<Outcome>,
    reqs: Vec<Req>,
    own: ExchangeId,
    other: ExchangeId,
    /// number of the current attempt (0: none yet)
    att: usize,
    sub_done: bool,
    snap_done: bool,
    failed: bool,
    tx: Option<UnboundedSender<UnindexedAccountEvent>>,
    feeders: Vec<tokio::task::JoinHandle<()>>,
    /// what the link is doing, as the exchange sees it (evidence only)
    doing: &'static str,
    log: Vec<Value>,
    /// overrun family: per attempt (call latency of account_stream, of account_snapshot, instant the snapshot call returned)
    played: Vec<(u64, u64, u64)>,
}

impl Shared {
    fn now(&self) -> u64 {
        let us = (Instant::now() - self.t0).as_micros() as u64;
        if us % 1000 != 0 {
            // (never seen; kept visible rather than rounded away)
            return u64::MAX / 4;
        }
        us / 1000
    }
    fn line(&mut self, a: &str) -> usize {
        let at = self.now();
        self.log.push(blank(a, at));
        self.log.len() - 1
    }
    /// a call of `account_stream` (sub = true) or `account_snapshot`: which attempt does it belong to?
    fn begin(&mut self, sub: bool) -> Option<Outcome> {
        let again = if sub { self.sub_done } else { self.snap_done };
        if self.att == 0 || self.failed || again {
            if sub && self.failed && self.att >= 1 {
                self.line("Wait");
            }
            self.att += 1;
            self.sub_done = false;
            self.snap_done = false;
            self.failed = false;
            self.tx = None;
        }
        self.script.get(self.att - 1).cloned()
    }
    fn elem_event(&self, e: &Elem) -> UnindexedAccountEvent {
        let shown = if e.xok { self.own } else { self.other };
        let price = dec(e.v);
        match e.k.as_str() {
            "bal" => UnindexedAccountEvent {
                exchange: shown,
                kind: AccountEventKind::BalanceSnapshot(Snapshot(AssetBalance {
                    asset: AssetNameExchange::new(e.nm.as_str()),
                    balance: Balance { total: price, free: price },
                    time_exchange: time(e.v),
                })),
            },
            "trade" => UnindexedAccountEvent {
                exchange: shown,
                kind: AccountEventKind::Trade(Trade {
                    id: TradeId::new(format!("t{}", e.v)),
                    order_id: OrderId::new(format!("o{}", e.v)),
                    instrument: InstrumentNameExchange::new(e.nm.as_str()),
                    strategy: StrategyId::new("u"),
                    time_exchange: time(e.v),
                    side: Side::Buy,
                    price,
                    quantity: dec(1),
                    fees: AssetFees::<QuoteAsset>::default(),
                }),
            },
            // the event itself is stamped with this exchange, the order key inside bears the ExchangeId under test
            "ord" => UnindexedAccountEvent {
                exchange: self.own,
                kind: AccountEventKind::OrderSnapshot(Snapshot(Order {
                    key: OrderKey {
                        exchange: shown,
                        instrument: InstrumentNameExchange::new(e.nm.as_str()),
                        strategy: StrategyId::new("u"),
                        cid: ClientOrderId::new(format!("u{}", e.v)),
                    },
                    side: Side::Buy,
                    price,
                    quantity: dec(1),
                    kind: OrderKind::Limit,
                    time_in_force: TimeInForce::GoodUntilCancelled { post_only: false },
                    state: UnindexedOrderState::Active(ActiveOrderState::Open(Open {
                        id: OrderId::new(format!("o{}", e.v)),
                        time_exchange: time(e.v),
                        filled_quantity: dec(0),
                    })),
                })),
            },
            _ => usage("element kind: bal | ord | trade"),
        }
    }
}

type Sh = Arc<Mutex<Shared>>;

/// Once both calls of a successful attempt are done: the rest of the body arrives at its scripted instants, then
/// the connection ends.
fn maybe_start_feeder(sh: &Sh) {
    let mut g = sh.lock().unwrap();
    if !(g.sub_done && g.snap_done && !g.failed) {
        return;
    }
    let Some(o) = g.script.get(g.att - 1).cloned() else { return };
    if o.r != "ok" {
        return;
    }
    let Some(tx) = g.tx.take() else { return };
    g.doing = "up";
    let late: Vec<(u64, UnindexedAccountEvent)> = o.body.iter().filter(|e| !e.early).map(|e| (e.d, g.elem_event(e))).collect();
    let sh2 = sh.clone();
    let handle = tokio::spawn(async move {
        for (d, ev) in late {
            tokio::time::sleep(Duration::from_millis(d)).await;
            let _ = tx.send(ev);
        }
        tokio::time::sleep(Duration::from_millis(o.ed)).await;
        sh2.lock().unwrap().doing = "down";
        drop(tx);
    });
    g.feeders.push(handle);
}

#[derive(Clone)]
struct Client<K> {
    sh: Sh,
    k: PhantomData<K>,
}

impl<K: Konst> ExecutionClient for Client<K> {
    const EXCHANGE: ExchangeId = K::ID;
    type Config = ();
    type AccountStream = UnboundedReceiverStream<UnindexedAccountEvent>;

    fn new(_: Self::Config) -> Self {
        unimplemented!("built by the driver")
    }

    async fn account_stream(
        &self,
        _: &[AssetNameExchange],
        _: &[InstrumentNameExchange],
    ) -> Result<Self::AccountStream, UnindexedClientError> {
        let outcome = {
            let mut g = self.sh.lock().unwrap();
            let o = g.begin(true);
            g.line("Subscribe");
            g.sub_done = true;
            g.doing = if o.is_some() { "initialising" } else { "pending" };
            o
        };
        let Some(o) = outcome else {
            // the script is exhausted: the exchange never answers again
            return std::future::pending().await;
        };
        tokio::time::sleep(Duration::from_millis(o.ls)).await;
        if o.r == "sfail" {
            let mut g = self.sh.lock().unwrap();
            g.failed = true;
            g.doing = "waiting";
            return Err(UnindexedClientError::Connectivity(ConnectivityError::Socket("scripted: account_stream refused".into())));
        }
        let (tx, rx) = tokio::sync::mpsc::unbounded_channel();
        self.sh.lock().unwrap().tx = Some(tx);
        maybe_start_feeder(&self.sh);
        Ok(UnboundedReceiverStream::new(rx))
    }

    async fn account_snapshot(
        &self,
        assets: &[AssetNameExchange],
        instruments: &[InstrumentNameExchange],
    ) -> Result<UnindexedAccountSnapshot, UnindexedClientError> {
        let (outcome, att, own, foreign_asset) = {
            let mut g = self.sh.lock().unwrap();
            let o = g.begin(false);
            if let Some(o) = &o {
                // the exchange produces these now: after the subscription (if there is one), before the snapshot
                for e in o.body.iter().filter(|e| e.early) {
                    let n = g.line("Early");
                    g.log[n]["v"] = Value::from(e.v);
                    let ev = g.elem_event(e);
                    if let Some(tx) = &g.tx {
                        let _ = tx.send(ev);
                    }
                }
            }
            g.line("Snap");
            (o, g.att, g.own, if g.own == XK { "sol" } else { "eth" })
        };
        let Some(o) = outcome else {
            return std::future::pending().await;
        };
        tokio::time::sleep(Duration::from_millis(o.ln)).await;
        if o.r == "nfail" {
            let mut g = self.sh.lock().unwrap();
            g.failed = true;
            g.tx = None;
            g.doing = "waiting";
            return Err(UnindexedClientError::AccountSnapshot("scripted: snapshot refused".into()));
        }
        let stamp = Balance { total: dec(att as i64), free: dec(att as i64) };
        let mut balances: Vec<_> = assets.iter()
            .map(|a| AssetBalance { asset: a.clone(), balance: stamp, time_exchange: time(att as i64) }).collect();
        // (one open order per instrument, priced with the attempt number: the stamp does not depend on the balances)
        let instruments = instruments.iter().map(|i| InstrumentAccountSnapshot {
            instrument: i.clone(),
            orders: vec![Order {
                key: OrderKey { exchange: own, instrument: i.clone(), strategy: StrategyId::new("u"), cid: ClientOrderId::new(format!("s{att}")) },
                side: Side::Buy,
                price: dec(att as i64),
                quantity: dec(1),
                kind: OrderKind::Limit,
                time_in_force: TimeInForce::GoodUntilCancelled { post_only: false },
                state: UnindexedOrderState::Active(ActiveOrderState::Open(Open {
                    id: OrderId::new(format!("so{att}")),
                    time_exchange: time(att as i64),
                    filled_quantity: dec(0),
                })),
            }],
        }).collect();
        if o.r == "nbad" {
            balances.push(AssetBalance { asset: AssetNameExchange::new(foreign_asset), balance: stamp, time_exchange: time(att as i64) });
            let mut g = self.sh.lock().unwrap();
            g.failed = true;
            g.tx = None;
            g.doing = "waiting";
        } else {
            self.sh.lock().unwrap().snap_done = true;
            maybe_start_feeder(&self.sh);
        }
        Ok(UnindexedAccountSnapshot { exchange: own, balances, instruments })
    }

    async fn cancel_order(&self, request: OrderRequestCancel<ExchangeId, &InstrumentNameExchange>) -> UnindexedOrderResponseCancel {
        let _ = request;
        std::future::pending().await
    }

    async fn open_order(
        &self,
        request: OrderRequestOpen<ExchangeId, &InstrumentNameExchange>,
    ) -> Order<ExchangeId, InstrumentNameExchange, Result<Open, UnindexedOrderError>> {
        let key = OrderKey {
            exchange: request.key.exchange,
            instrument: request.key.instrument.clone(),
            strategy: request.key.strategy.clone(),
            cid: request.key.cid.clone(),
        };
        let RequestOpen { side, price, quantity, kind, time_in_force } = request.state;
        let script = {
            let g = self.sh.lock().unwrap();
            key.cid.0.as_str().strip_prefix('r').and_then(|x| x.parse::<usize>().ok()).and_then(|n| g.reqs.get(n - 1).cloned())
        };
        match script.and_then(|r| r.d) {
            Some(ms) => tokio::time::sleep(Duration::from_millis(ms)).await,
            None => std::future::pending::<()>().await,
        }
        Order {
            key,
            side,
            price,
            quantity,
            kind,
            time_in_force,
            state: Ok(Open { id: OrderId::new("o"), time_exchange: time(1), filled_quantity: dec(0) }),
        }
    }

    async fn fetch_balances(&self) -> Result<Vec<AssetBalance<AssetNameExchange>>, UnindexedClientError> {
        Ok(vec![])
    }

    async fn fetch_open_orders(&self) -> Result<Vec<Order<ExchangeId, InstrumentNameExchange, Open>>, UnindexedClientError> {
        Ok(vec![])
    }

    async fn fetch_trades(&self, _: DateTime<Utc>) -> Result<Vec<Trade<QuoteAsset, InstrumentNameExchange>>, UnindexedClientError> {
        Ok(vec![])
    }
}

// ------------------------------------------------------------------------------------------------
// one scenario against the real ExecutionManager::init + run
// ------------------------------------------------------------------------------------------------
async fn run_scenario(scn: &Scenario, out: &mut Out, st: &mut Stats) {
    if scn.mock.is_some() {
        return run_mock(scn, out, st).await;
    }
    match scn.cc.as_str() {
        "mock" => run_with::<KMock>(scn, out, st).await,
        "kraken" => run_with::<KKraken>(scn, out, st).await,
        "binance_spot" => run_with::<KBinance>(scn, out, st).await,
        _ => usage("cc: mock | kraken | binance_spot"),
    }
}

async fn run_with<K: Konst>(scn: &Scenario, out: &mut Out, st: &mut Stats) {
    st.scenarios += 1;
    *st.by_client.entry(scn.cc.clone()).or_default() += 1;
    *st.by_exchange.entry(scn.x.clone()).or_default() += 1;
    let w = world();
    let own = exchange_of(&scn.x);
    let other = if own == XK { XB } else { XK };
    let tab = table(&w, own);
    let rin = "BTCUSDT";
    let rinst = tab["insts"][rin].as_u64().expect("BTCUSDT is listed on both exchanges") as usize;
    let ex = tab["ex"].as_u64().unwrap() as usize;
    let map = generate_execution_instrument_map(&w, own).expect("the exchange is part of the world");

    let t0 = Instant::now();
    let sh: Sh = Arc::new(Mutex::new(Shared {
        t0,
        script: scn.script.clone(),
        reqs: scn.reqs.clone(),
        own,
        other,
        att: 0,
        sub_done: false,
        snap_done: false,
        failed: false,
        tx: None,
        feeders: vec![],
        doing: "initialising",
        log: vec![],
        played: vec![],
    }));
    {
        let mut reset = scenario_json(scn);
        let fields = blank("Reset", 0);
        for (k, v) in fields.as_object().unwrap() {
            reset[k] = v.clone();
        }
        reset["tab"] = tab.clone();
        reset["rin"] = Value::from(rin);
        sh.lock().unwrap().log.push(reset);
    }
    let line = |l: Value| sh.lock().unwrap().log.push(l);
    let now = || sh.lock().unwrap().now();

    let client = Client::<K> { sh: sh.clone(), k: PhantomData };
    let (req_tx, req_rx) = mpsc_unbounded::<ExecutionRequest>();
    let policy = ReconnectionBackoffPolicy { backoff_ms_initial: scn.pol.0, backoff_multiplier: scn.pol.1, backoff_ms_max: scn.pol.2 };
    let built = AssertUnwindSafe(ExecutionManager::init(
        req_rx.into_stream(),
        Duration::from_millis(scn.t),
        Arc::new(client),
        AccountEventIndexer::new(Arc::new(map)),
        policy,
    ))
    .catch_unwind()
    .await;
    match built {
        Err(_) => {
            st.anomalies += 1;
            line(stop("panic", now(), "ExecutionManager::init panicked"));
        }
        Ok(Err(e)) => {
            st.nostream += 1;
            if matches!(e, barter::execution::error::ExecutionError::Config(_)) {
                st.config_refused += 1;
            }
            line(stop("nostream", now(), &format!("{e:?}")));
        }
        Ok(Ok((manager, stream))) => {
            let born = now();
            let mut stream = Box::pin(stream);
            let mut handle = tokio::spawn(manager.run());
            let mut order: Vec<usize> = (0..scn.reqs.len()).collect();
            order.sort_by_key(|&j| scn.reqs[j].at);
            let mut next = 0usize;
            let mut shutdown = false;
            let mut items = 0usize;
            loop {
                let next_at = order.get(next).map(|&j| born + scn.reqs[j].at);
                tokio::select! {
                    biased;
                    item = AssertUnwindSafe(stream.next()).catch_unwind() => match item {
                        Err(_) => {
                            st.anomalies += 1;
                            line(stop("panic", now(), "the merged account stream panicked when polled"));
                            break;
                        }
                        Ok(None) => {
                            if shutdown {
                                line(blank("Ended", now()));
                            } else {
                                line(stop("ended", now(), ""));
                            }
                            break;
                        }
                        Ok(Some(event)) => {
                            let l = emit_line(now(), &event);
                            match l["k"].as_str().unwrap_or("") {
                                "Snapshot" => st.snapshots += 1,
                                "Update" => st.updates += 1,
                                "Notice" => st.notices += 1,
                                "Resp" => {
                                    if l["kind"] == "timeout" { st.timeouts += 1 } else { st.responses += 1 }
                                    let doing = sh.lock().unwrap().doing;
                                    *st.resp_while.entry(doing.to_string()).or_default() += 1;
                                }
                                _ => st.anomalies += 1,
                            }
                            line(l);
                            items += 1;
                            if items > RUNAWAY {
                                st.anomalies += 1;
                                line(stop("runaway", now(), "far more items than the script contains"));
                                break;
                            }
                        }
                    },
                    _ = tokio::time::sleep_until(t0 + Duration::from_millis(next_at.unwrap_or(0))), if next_at.is_some() && !shutdown => {
                        let j = order[next];
                        next += 1;
                        let request = ExecutionRequest::Open(OrderRequestOpen {
                            key: OrderKey { exchange: ExchangeIndex(ex), instrument: InstrumentIndex(rinst), strategy: StrategyId::new("s"), cid: rid(j + 1) },
                            state: RequestOpen { side: Side::Buy, price: dec(10), quantity: dec(1), kind: OrderKind::Limit,
                                                 time_in_force: TimeInForce::GoodUntilCancelled { post_only: false } },
                        });
                        let mut l = blank("Accept", now());
                        l["v"] = Value::from(j + 1);
                        if req_tx.tx.send(request).is_err() {
                            st.anomalies += 1;
                            line(stop("reqclosed", now(), "the request channel was closed before every request was handed over"));
                            break;
                        }
                        st.requests += 1;
                        line(l);
                    },
                    _ = tokio::time::sleep(Duration::from_millis(IDLE_MS)) => {
                        if shutdown {
                            line(stop("noend", now(), "the merged stream did not end after the manager was shut down"));
                            break;
                        }
                        line(stop("quiet", now(), ""));
                        shutdown = true;
                        line(blank("Shutdown", now()));
                        let _ = req_tx.tx.send(ExecutionRequest::Shutdown);
                    }
                }
            }
            // the manager task: a panic is data
            match tokio::time::timeout(Duration::from_millis(1000), &mut handle).await {
                Ok(Ok(())) => {}
                Ok(Err(e)) => {
                    st.anomalies += 1;
                    line(stop("mgrpanic", now(), &format!("ExecutionManager::run panicked: {e}")));
                }
                Err(_) => {
                    handle.abort();
                    if shutdown {
                        st.anomalies += 1;
                        line(stop("mgrhang", now(), "ExecutionManager::run did not return after Shutdown"));
                    }
                }
            }
        }
    }
    let mut g = sh.lock().unwrap();
    for f in g.feeders.drain(..) {
        f.abort();
    }
    for (j, o) in scn.script.iter().enumerate() {
        if j < g.att {
            st.attempts += 1;
            match o.r.as_str() {
                "sfail" => st.sfail += 1,
                "nfail" => st.nfail += 1,
                "nbad" => st.nbad += 1,
                _ => st.connections += 1,
            }
            st.early_scripted += o.body.iter().filter(|e| e.early).count();
            if o.r != "ok" {
                st.early_lost_with_failed_attempt += o.body.iter().filter(|e| e.early).count();
            }
            let known = |e: &Elem| e.xok && (if e.k == "bal" { tab["assets"].get(&e.nm).is_some() } else { tab["insts"].get(&e.nm).is_some() });
            if o.r == "ok" {
                st.unindexable_scripted += o.body.iter().filter(|e| !known(e)).count();
            }
        }
    }
    st.waits += g.log.iter().filter(|l| l["a"] == "Wait").count();
    for l in g.log.drain(..) {
        out.line(&l);
    }
}

// ------------------------------------------------------------------------------------------------
// the overrun family: the REAL MockExecution client + MockExchange task behind the real ExecutionManager::init
// ------------------------------------------------------------------------------------------------
type Clock = fn() -> DateTime<Utc>;

fn mock_clock() -> DateTime<Utc> {
    time(1)
}

/// virtual ms without an item after which the driver stops draining the merged stream
const DRAIN_MS: u64 = 1_000;

/// Delegates to the real `MockExecution`; logs the two calls, stamps the exchange's snapshot with the attempt number
/// and stops answering once the plan's connections are worked off.
#[derive(Clone)]
struct LoggedMock {
    sh: Sh,
    inner: MockExecution<Clock>,
}

impl ExecutionClient for LoggedMock {
    const EXCHANGE: ExchangeId = ExchangeId::Mock;
    type Config = ();
    type AccountStream = BoxStream<'static, UnindexedAccountEvent>;

    fn new(_: Self::Config) -> Self {
        unimplemented!("built by the driver")
    }

    async fn account_stream(
        &self,
        assets: &[AssetNameExchange],
        instruments: &[InstrumentNameExchange],
    ) -> Result<Self::AccountStream, UnindexedClientError> {
        let (planned, called) = {
            let mut g = self.sh.lock().unwrap();
            let o = g.begin(true);
            g.line("Subscribe");
            g.sub_done = true;
            g.doing = if o.is_some() { "initialising" } else { "pending" };
            (o.is_some(), g.now())
        };
        if !planned {
            return std::future::pending().await;
        }
        let stream = self.inner.account_stream(assets, instruments).await;
        let mut g = self.sh.lock().unwrap();
        let ls = g.now() - called;
        g.played.push((ls, 0, 0));
        stream
    }

    async fn account_snapshot(
        &self,
        assets: &[AssetNameExchange],
        instruments: &[InstrumentNameExchange],
    ) -> Result<UnindexedAccountSnapshot, UnindexedClientError> {
        let (planned, att, called) = {
            let mut g = self.sh.lock().unwrap();
            let o = g.begin(false);
            g.line("Snap");
            (o.is_some(), g.att, g.now())
        };
        if !planned {
            return std::future::pending().await;
        }
        let mut snapshot = self.inner.account_snapshot(assets, instruments).await?;
        // the attempt number, on every balance and every listed order (as the scripted exchange does)
        let stamp = dec(att as i64);
        for b in snapshot.balances.iter_mut() {
            b.balance = Balance { total: stamp, free: stamp };
        }
        for i in snapshot.instruments.iter_mut() {
            for o in i.orders.iter_mut() {
                o.price = stamp;
            }
        }
        let mut g = self.sh.lock().unwrap();
        g.snap_done = true;
        g.doing = "up";
        let now = g.now();
        if let Some(p) = g.played.last_mut() {
            p.1 = now - called;
            p.2 = now;
        }
        Ok(snapshot)
    }

    async fn cancel_order(&self, request: OrderRequestCancel<ExchangeId, &InstrumentNameExchange>) -> UnindexedOrderResponseCancel {
        self.inner.cancel_order(request).await
    }

    async fn open_order(
        &self,
        request: OrderRequestOpen<ExchangeId, &InstrumentNameExchange>,
    ) -> Order<ExchangeId, InstrumentNameExchange, Result<Open, UnindexedOrderError>> {
        self.inner.open_order(request).await
    }

    async fn fetch_balances(&self) -> Result<Vec<AssetBalance<AssetNameExchange>>, UnindexedClientError> {
        self.inner.fetch_balances().await
    }

    async fn fetch_open_orders(&self) -> Result<Vec<Order<ExchangeId, InstrumentNameExchange, Open>>, UnindexedClientError> {
        self.inner.fetch_open_orders().await
    }

    async fn fetch_trades(&self, t: DateTime<Utc>) -> Result<Vec<Trade<QuoteAsset, InstrumentNameExchange>>, UnindexedClientError> {
        self.inner.fetch_trades(t).await
    }
}

async fn run_mock(scn: &Scenario, out: &mut Out, st: &mut Stats) {
    let plan = scn.mock.clone().expect("mock scenario");
    st.scenarios += 1;
    st.mock_scenarios += 1;
    *st.by_client.entry("mock (real MockExecution)".into()).or_default() += 1;
    *st.by_exchange.entry(scn.x.clone()).or_default() += 1;
    let w = world();
    let own = exchange_of(&scn.x);
    let other = if own == XK { XB } else { XK };
    let tab = table(&w, own);
    let map = generate_execution_instrument_map(&w, own).expect("the exchange is part of the world");
    let t0 = Instant::now();
    // (the plan's connections as placeholders: `begin` only needs to know how many attempts are answered)
    let placeholder = Outcome { r: "ok".into(), ls: 0, ln: 0, ed: 0, body: vec![] };
    let sh: Sh = Arc::new(Mutex::new(Shared {
        t0,
        script: vec![placeholder; plan.conns.len()],
        reqs: vec![],
        own,
        other,
        att: 0,
        sub_done: false,
        snap_done: false,
        failed: false,
        tx: None,
        feeders: vec![],
        doing: "initialising",
        log: vec![],
        played: vec![],
    }));
    let line = |l: Value| sh.lock().unwrap().log.push(l);
    let now = || sh.lock().unwrap().now();

    // the mocked exchange, wired as ExecutionBuilder::add_mock / init_mock_exchange do - with a small capacity
    let (request_tx, request_rx) = tokio::sync::mpsc::unbounded_channel();
    let (event_tx, event_rx) = tokio::sync::broadcast::channel::<UnindexedAccountEvent>(plan.cap);
    let open_order = |name: &str| Order {
        key: OrderKey { exchange: own, instrument: InstrumentNameExchange::new(name), strategy: StrategyId::new("u"), cid: ClientOrderId::new(format!("s-{name}")) },
        side: Side::Buy,
        price: dec(1),
        quantity: dec(1),
        kind: OrderKind::Limit,
        time_in_force: TimeInForce::GoodUntilCancelled { post_only: false },
        state: UnindexedOrderState::Active(ActiveOrderState::Open(Open { id: OrderId::new(format!("so-{name}")), time_exchange: time(1), filled_quantity: dec(0) })),
    };
    let initial = UnindexedAccountSnapshot {
        exchange: own,
        balances: tab["assets"].as_object().unwrap().keys()
            .map(|a| AssetBalance { asset: AssetNameExchange::new(a.as_str()), balance: Balance { total: dec(1000), free: dec(1000) }, time_exchange: time(1) }).collect(),
        instruments: tab["insts"].as_object().unwrap().keys()
            .map(|n| InstrumentAccountSnapshot { instrument: InstrumentNameExchange::new(n.as_str()), orders: vec![open_order(n)] }).collect(),
    };
    let exchange = tokio::spawn(
        MockExchange::new(MockExecutionConfig::new(own, initial, plan.lat, rust_decimal::Decimal::ZERO), request_rx, event_tx.clone(), Default::default()).run(),
    );
    let inner = <MockExecution<Clock> as ExecutionClient>::new(MockExecutionClientConfig::new(own, mock_clock as Clock, request_tx, event_rx));
    let client = LoggedMock { sh: sh.clone(), inner };

    // what the exchange actually played, per connection: (body with gaps, silence before the overrun)
    let mut played: Vec<(Vec<Elem>, u64)> = plan.conns.iter().map(|_| (vec![], 0)).collect();
    let (req_tx, req_rx) = mpsc_unbounded::<ExecutionRequest>();
    let policy = ReconnectionBackoffPolicy { backoff_ms_initial: scn.pol.0, backoff_multiplier: scn.pol.1, backoff_ms_max: scn.pol.2 };
    let built = AssertUnwindSafe(ExecutionManager::init(
        req_rx.into_stream(),
        Duration::from_millis(scn.t),
        Arc::new(client),
        AccountEventIndexer::new(Arc::new(map)),
        policy,
    ))
    .catch_unwind()
    .await;
    match built {
        Err(_) => {
            st.anomalies += 1;
            line(stop("panic", now(), "ExecutionManager::init panicked"));
        }
        Ok(Err(e)) => {
            st.nostream += 1;
            line(stop("nostream", now(), &format!("{e:?}")));
        }
        Ok(Ok((manager, stream))) => {
            let mut stream = Box::pin(stream);
            let mut handle = tokio::spawn(manager.run());
            let mut over = false; // the observation is over (stream ended / panicked / runaway)
            let mut items = 0usize;
            // consume whatever the merged stream has to say, until it is silent for DRAIN_MS
            macro_rules! drain {
                () => {
                    while !over {
                        match tokio::time::timeout(Duration::from_millis(DRAIN_MS), AssertUnwindSafe(stream.next()).catch_unwind()).await {
                            Err(_) => break,
                            Ok(Err(_)) => {
                                st.anomalies += 1;
                                line(stop("panic", now(), "the merged account stream panicked when polled"));
                                over = true;
                            }
                            Ok(Ok(None)) => {
                                line(stop("ended", now(), ""));
                                over = true;
                            }
                            Ok(Ok(Some(event))) => {
                                let l = emit_line(now(), &event);
                                match l["k"].as_str().unwrap_or("") {
                                    "Snapshot" => st.snapshots += 1,
                                    "Update" => st.updates += 1,
                                    "Notice" => st.notices += 1,
                                    _ => st.anomalies += 1,
                                }
                                line(l);
                                items += 1;
                                if items > RUNAWAY {
                                    st.anomalies += 1;
                                    line(stop("runaway", now(), "far more items than the exchange published"));
                                    over = true;
                                }
                            }
                        }
                    }
                };
            }
            let publish = |e: &Elem| {
                let ev = sh.lock().unwrap().elem_event(e);
                let _ = event_tx.send(ev);
            };
            for (j, conn) in plan.conns.iter().enumerate() {
                drain!(); // the snapshot of this connection (after the notice of the previous one)
                let snapped = sh.lock().unwrap().played.get(j).map(|p| p.2);
                let mut last = snapped.unwrap_or(u64::MAX).min(now());
                let note = |e: &Elem, at: u64, last: &mut u64, body: &mut Vec<Elem>| {
                    let mut e = e.clone();
                    e.early = false;
                    e.d = at.saturating_sub(*last);
                    *last = at.max(*last);
                    body.push(e);
                };
                for (g, e) in &conn.pre {
                    tokio::time::sleep(Duration::from_millis(*g)).await;
                    publish(e);
                    note(e, now(), &mut last, &mut played[j].0);
                    drain!();
                }
                if !conn.fit.is_empty() {
                    // a burst that fits the capacity while the consumer is busy: delivered late, complete, in order
                    tokio::time::sleep(Duration::from_millis(conn.fit_gap)).await;
                    for e in &conn.fit {
                        publish(e);
                        note(e, now(), &mut last, &mut played[j].0);
                    }
                    st.mock_fit_bursts += 1;
                    tokio::time::sleep(Duration::from_millis(plan.busy)).await;
                    drain!();
                }
                // the overrun: more notifications than the capacity while the merged stream is not polled
                tokio::time::sleep(Duration::from_millis(conn.over_gap)).await;
                for n in 0..conn.over {
                    publish(&Elem { k: "bal".into(), nm: "usdt".into(), xok: true, early: false, d: 0, v: 1000 * (j as i64 + 1) + n as i64 });
                }
                played[j].1 = now().saturating_sub(last);
                st.mock_overruns += 1;
                st.mock_lost_published += conn.over;
                tokio::time::sleep(Duration::from_millis(plan.busy)).await;
            }
            drain!(); // the notice of the last connection; the next account_stream() pends
            if !over {
                line(stop("quiet", now(), ""));
                line(blank("Shutdown", now()));
                let _ = req_tx.tx.send(ExecutionRequest::Shutdown);
                match tokio::time::timeout(Duration::from_millis(IDLE_MS), AssertUnwindSafe(stream.next()).catch_unwind()).await {
                    Ok(Ok(None)) => line(blank("Ended", now())),
                    Ok(Ok(Some(event))) => line(emit_line(now(), &event)),
                    Ok(Err(_)) => line(stop("panic", now(), "the merged account stream panicked when polled")),
                    Err(_) => line(stop("noend", now(), "the merged stream did not end after the manager was shut down")),
                }
            }
            match tokio::time::timeout(Duration::from_millis(1000), &mut handle).await {
                Ok(Ok(())) => {}
                Ok(Err(e)) => {
                    st.anomalies += 1;
                    line(stop("mgrpanic", now(), &format!("ExecutionManager::run panicked: {e}")));
                }
                Err(_) => handle.abort(),
            }
        }
    }
    exchange.abort();
    // the scenario in AccountLink's terms, as the exchange actually played it
    let mut g = sh.lock().unwrap();
    let script: Vec<Outcome> = played.iter().enumerate().map(|(j, (body, ed))| {
        let (ls, ln, _) = g.played.get(j).copied().unwrap_or((0, plan.lat, 0));
        Outcome { r: "ok".into(), ls, ln, ed: *ed, body: body.clone() }
    }).collect();
    st.attempts += g.att.min(script.len());
    st.connections += g.att.min(script.len());
    let known = |e: &Elem| e.xok && (if e.k == "bal" { tab["assets"].get(&e.nm).is_some() } else { tab["insts"].get(&e.nm).is_some() });
    st.unindexable_scripted += script.iter().flat_map(|o| o.body.iter()).filter(|e| !known(e)).count();
    let mut reset = scenario_json_base(&Scenario { mock: None, script, cc: "mock".into(), reqs: vec![], ..scn.clone() });
    for (k, v) in blank("Reset", 0).as_object().unwrap() {
        reset[k] = v.clone();
    }
    reset["mock"] = mock_json(&plan);
    reset["tab"] = tab.clone();
    reset["rin"] = Value::from("BTCUSDT");
    out.line(&reset);
    for l in g.log.drain(..) {
        out.line(&l);
    }
}

fn random_mock_scenario(rng: &mut impl Rng) -> Scenario {
    let x = pick(rng, &["kraken", "binance_spot"]).to_string();
    let cap = pick(rng, &[4usize, 4, 8]);
    let mut v = 0i64;
    let mut elem = |rng: &mut dyn rand::RngCore| {
        v += 1;
        let k = ["bal", "bal", "ord", "trade"][(rng.next_u32() % 4) as usize];
        let nm = if k == "bal" { ["btc", "usdt", "usdt", "eth", "sol"][(rng.next_u32() % 5) as usize] } else { ["BTCUSDT", "BTCUSDT", "ETHUSDT", "SOLUSDT"][(rng.next_u32() % 4) as usize] };
        Elem { k: k.into(), nm: nm.into(), xok: rng.next_u32() % 100 < 90, early: false, d: 0, v }
    };
    let conns = (0..rng.random_range(1..=3usize)).map(|_| {
        let pre = (0..rng.random_range(0..=3usize)).map(|_| (pick(rng, &[0u64, 1, 5, 40]), elem(rng))).collect();
        let n_fit = pick(rng, &[0usize, 0, 1, cap - 1, cap]);
        let fit = (0..n_fit).map(|_| elem(rng)).collect();
        MockConn { pre, fit, fit_gap: pick(rng, &[0u64, 2, 9]), over: cap + 1 + rng.random_range(0..6usize), over_gap: pick(rng, &[0u64, 1, 7]) }
    }).collect();
    let pol = pick(rng, &[(100u64, 3u8, 500u64), (10, 2, 15), (125, 2, 60000)]);
    Scenario {
        mock: Some(MockPlan { cap, lat: pick(rng, &[0u64, 0, 3]), busy: pick(rng, &[0u64, 10, 50]), conns }),
        x, cc: "mock".into(), pol, t: 50, script: vec![], reqs: vec![],
    }
}

// ------------------------------------------------------------------------------------------------
// seeded random scenarios
// ------------------------------------------------------------------------------------------------
fn pick<T: Clone>(rng: &mut impl Rng, xs: &[T]) -> T {
    xs[rng.random_range(0..xs.len())].clone()
}

fn random_scenario(rng: &mut impl Rng) -> Scenario {
    let x = pick(rng, &["kraken", "binance_spot"]).to_string();
    let cc = match rng.random_range(0..100) {
        0..45 => "mock".to_string(),
        45..92 => x.clone(),
        _ => (if x == "kraken" { "binance_spot" } else { "kraken" }).to_string(),
    };
    let pol = pick(rng, &[(100u64, 3u8, 500u64), (10, 2, 15), (50, 1, 50), (125, 2, 60000), (20, 2, 1000), (1, 10, 1000)]);
    let t = 50;
    let n = rng.random_range(1..=6);
    let mut v = 0i64;
    let mut script = Vec::new();
    let mut fails_in_a_row = 0;
    for j in 0..n {
        let mut r = match rng.random_range(0..100) {
            0..55 => "ok",
            55..73 => "sfail",
            73..88 => "nfail",
            _ => "nbad",
        };
        if j == 0 && rng.random_bool(0.75) {
            r = "ok";
        }
        // (runs of failures stay short: the closed form must stay inside TLC's 32-bit integers)
        if r != "ok" { fails_in_a_row += 1 } else { fails_in_a_row = 0 }
        if fails_in_a_row > 6 {
            r = "ok";
            fails_in_a_row = 0;
        }
        let lat = |rng: &mut dyn rand::RngCore| *[0u64, 0, 3, 7, 20].get((rng.next_u32() % 5) as usize).unwrap();
        let mut elem = |rng: &mut dyn rand::RngCore, early: bool| {
            v += 1;
            let k = ["bal", "ord", "trade"][(rng.next_u32() % 3) as usize];
            let nm = if k == "bal" { ["btc", "usdt", "eth", "sol"][(rng.next_u32() % 4) as usize] } else { ["BTCUSDT", "ETHUSDT", "SOLUSDT"][(rng.next_u32() % 3) as usize] };
            Elem { k: k.into(), nm: nm.into(), xok: rng.next_u32() % 100 < 85, early,
                   d: if early { 0 } else { *[0u64, 0, 1, 5, 30].get((rng.next_u32() % 5) as usize).unwrap() }, v }
        };
        let n_early = *[0usize, 0, 1, 1, 2].get(rng.random_range(0..5)).unwrap();
        let mut body: Vec<Elem> = (0..n_early).map(|_| elem(rng, true)).collect();
        let (ls, ln, ed);
        match r {
            "sfail" => {
                body.clear();
                ls = lat(rng);
                ln = 0;
                ed = 0;
            }
            "nfail" | "nbad" => {
                ls = lat(rng);
                ln = lat(rng);
                ed = 0;
            }
            _ => {
                let n_late = rng.random_range(0..=4usize).saturating_sub(n_early.min(1));
                for _ in 0..n_late {
                    body.push(elem(rng, false));
                }
                ls = lat(rng);
                ln = lat(rng);
                ed = pick(rng, &[0u64, 0, 5, 40]);
            }
        }
        script.push(Outcome { r: r.into(), ls, ln, ed, body });
    }
    // requests spread over (roughly) the life of the script: while the link is up, down, waiting, pending
    let span: u64 = script.iter().map(|o| o.ls + o.ln + o.ed + o.body.iter().map(|e| e.d).sum::<u64>()).sum::<u64>()
        + pol.0.min(500) * script.iter().filter(|o| o.r != "ok").count() as u64;
    let reqs = (0..*[0usize, 1, 2, 3, 4].get(rng.random_range(0..5)).unwrap()).map(|_| Req {
        at: rng.random_range(0..=span + 20),
        d: match rng.random_range(0..100) { 0..20 => None, 20..35 => Some(0), _ => Some(rng.random_range(1..t)) },
    }).collect();
    Scenario { mock: None, x, cc, pol, t, script, reqs }
}

#[tokio::main(flavor = "current_thread", start_paused = true)]
async fn main() {
    let args = Args::parse();
    let mut out = Out::create(args.req("out"));
    let mut st = Stats::default();
    // a panic inside the code under test is data (reported through catch_unwind / the JoinHandle)
    std::panic::set_hook(Box::new(|_| {}));
    match args.cmd.as_str() {
        "run" => {
            for v in read_ndjson(args.req("scenarios")).iter() {
                run_scenario(&scenario_of(v), &mut out, &mut st).await;
            }
        }
        "random" => {
            let mut rng = rng(args.u64("seed", 1));
            let mut scn_out = Out::create(args.req("scn-out"));
            for _ in 0..args.usize("n", 100) {
                let scn = random_scenario(&mut rng);
                scn_out.line(&scenario_json(&scn));
                run_scenario(&scn, &mut out, &mut st).await;
            }
            // the overrun family over the real MockExecution client / MockExchange task
            for _ in 0..args.usize("mock", 0) {
                let scn = random_mock_scenario(&mut rng);
                scn_out.line(&scenario_json(&scn));
                run_scenario(&scn, &mut out, &mut st).await;
            }
            scn_out.finish();
        }
        _ => usage("commands: run | random"),
    }
    let lines = out.finish();
    println!(
        "{}",
        json!({"lines": lines, "scenarios": st.scenarios, "attempts": st.attempts,
               "attempts_account_stream_failed": st.sfail, "attempts_snapshot_failed": st.nfail,
               "attempts_snapshot_unindexable": st.nbad, "connections": st.connections,
               "snapshots_delivered": st.snapshots, "updates_delivered": st.updates, "notices": st.notices,
               "updates_between_subscribe_and_snapshot": st.early_scripted,
               "of_which_in_attempts_that_then_failed": st.early_lost_with_failed_attempt,
               "unindexable_updates_scripted": st.unindexable_scripted, "backoff_waits": st.waits,
               "init_returned_error": st.nostream, "of_which_config_refused": st.config_refused,
               "requests": st.requests, "responses": st.responses, "timeout_failures": st.timeouts,
               "responses_while_link": st.resp_while, "by_client_constant": st.by_client, "by_exchange": st.by_exchange,
               "overrun_scenarios_real_mock_client": st.mock_scenarios, "overruns": st.mock_overruns,
               "bursts_within_capacity": st.mock_fit_bursts, "notifications_published_into_overruns": st.mock_lost_published,
               "anomalies": st.anomalies})
    );
}
