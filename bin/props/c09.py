"""C09 - late or duplicate exchange messages never roll engine state back (spec/Freshness.tla)."""
import json

MODULE = "Freshness"
META = {"spec": ["Freshness"]}
ASSUMPTIONS = [
    "equal exchange timestamps: keep or replace are both allowed (the code replaces balances/orders and keeps market data)",
    "L1 events carry last_update_time == time_exchange (as every connector does); exchange times are after the Unix epoch and carry microseconds",
    "order reports in this driver are partial fills of a large order, so the order stays tracked (the lifecycle itself is C01's subject)",
    "a full account snapshot is applied balances first, then instruments, as EngineState::update_from_account does; the trace logs the applied order",
]


def anomaly(line):
    if line.get("anomaly"):
        return line["anomaly"]
    for k, v in (line.get("post") or {}).items():
        if not isinstance(v.get("v"), int):
            return "item %s holds %s: not a value that was delivered as one message" % (k, json.dumps(v))
        if not isinstance(v.get("t"), int):
            return "item %s holds the timestamp %s: no message carried it (timestamps of this driver have microseconds)" % (k, json.dumps(v.get("t")))
    return None


def scenario_of(seg):
    def step(l):
        if l.get("a") == "Deliver":
            return l["ms"]
        if l.get("a") == "Persist":
            return [{"item": "persist", "t": -2, "v": 0}]
        if l.get("a") == "Notice":
            return [{"item": l.get("item"), "t": -3, "v": 0}]
        return [{"item": l.get("item"), "t": -1, "v": 0}]
    # explicit: the store / restore points are part of the recorded scenario (the driver adds none of its own)
    return {"steps": [step(l) for l in seg[1:]], "explicit": True}


def validate(ctx, trace_path, via, label):
    lines = ctx.read_trace(trace_path)
    clean = ctx.path("clean_" + label + ".ndjson")
    found, keep = ctx.screen_anomalies(lines, clean, anomaly)
    for n, d, seg in found:
        ctx.violation("anomaly:" + d.split(":")[0][:50], "%s [%s line %d]" % (d, label, n), {"via": via, "scenario": scenario_of(seg)})
    n, bad, _ = ctx.tlc_trace("Trace_Freshness", "Trace_Freshness.cfg", clean)
    for b in bad:
        line, seg = keep[b - 1], ctx.segment(keep, b)
        tags = ctx.last_tags.get(b, ["unconsumed"])
        pre = seg[-2]["post"] if len(seg) > 1 else {}
        if line.get("a") == "Persist":
            ctx.violation("persist:" + "+".join(tags), "storing and restoring the instrument states (serde round trip) changed the exchange-reported data held: %s -> %s [%s line %d]" % (
                json.dumps(pre), json.dumps(line["post"]), label, b), {"via": via, "scenario": scenario_of(seg)})
            continue
        if line.get("a") == "Notice":
            ctx.violation("notice:" + "+".join(tags), "a disconnect notice of the link of %s changed the exchange-reported data held: %s -> %s [%s line %d]" % (
                line.get("item"), json.dumps(pre), json.dumps(line["post"]), label, b), {"via": via, "scenario": scenario_of(seg)})
            continue
        if line.get("a") == "Touch":
            ctx.violation("touch:" + "+".join(tags), "recording a cancel request for %s changed the exchange-reported data held: %s -> %s [%s line %d]" % (
                line.get("item"), json.dumps(pre.get(line.get("item"))), json.dumps(line["post"].get(line.get("item"))), label, b),
                {"via": via, "scenario": scenario_of(seg)})
            continue
        kinds = sorted({m["item"].split("_")[0].rstrip("0123456789") for m in line.get("ms", [])})
        rel = []
        for m in line.get("ms", []):
            h = pre.get(m["item"], {})
            rel.append("first" if not h.get("has") else ("newer" if m["t"] > h["t"] else ("tie" if m["t"] == h["t"] else "older")))
        sig = "%s:%s:%s" % ("+".join(kinds), "+".join(rel), "+".join(tags))
        desc = "messages %s delivered with held %s -> engine holds %s: not allowed by Freshness (%s) [%s line %d]" % (
            json.dumps(line.get("ms")), json.dumps({m["item"]: pre.get(m["item"]) for m in line.get("ms", [])}),
            json.dumps({m["item"]: line["post"].get(m["item"]) for m in line.get("ms", [])}), tags, label, b)
        ctx.violation(sig, desc, {"via": via, "scenario": scenario_of(seg)})
    ctx.cov["traces_validated_against_impl"] += sum(1 for l in keep if l.get("a") == "Reset")


def check(ctx):
    ctx.assumptions += ASSUMPTIONS
    ctx.build("c09")
    ctx.tlc_mc(MODULE, "MC_Freshness.cfg" if ctx.quick else "MC_Freshness_thorough.cfg", timeout=2400, ignore_uncovered=())
    p, scn = ctx.tlc_gen("Gen_Freshness", "Gen_Freshness.cfg", "behaviours.ndjson", simulate=(300 if ctx.quick else 4000, 30), timeout=900)
    ctx.sample({"kind": "TLC simulated delivery history", "scenario": scn[0]})
    for via in ("state", "engine"):
        out = ctx.path("trace_b_%s.ndjson" % via)
        ctx.harness("c09", "run", "--scenarios", p, "--out", out, "--via", via)
        validate(ctx, out, via, "behaviours_" + via)
        ctx.cov["scenarios_replayed"] += len(scn)
        out = ctx.path("trace_r_%s.ndjson" % via)
        ctx.harness("c09", "random", "--seed", ctx.seed, "--steps", 5000 if ctx.quick else 120000, "--out", out, "--via", via)
        validate(ctx, out, via, "random_" + via)
    # the real composition: balances seeded through SystemBuilder (stamped with the engine clock's start)
    # and every balance the mock exchange delivers afterwards, under real scheduling
    from props import composition
    composition.run(ctx, set(), runs=4 if ctx.quick else 30, fresh=True)
    return ctx.finish()


def replay(ctx, rp):
    if rp.get("kind") == "system":
        from props import composition
        composition.run(ctx, set(), runs=4, fresh=True)
        return ctx.finish(write_evidence=False)
    ctx.build("c09")
    scn = ctx.path("replay_scn.ndjson")
    with open(scn, "w") as f:
        f.write(json.dumps(rp["scenario"]) + "\n")
    out = ctx.path("replay_trace.ndjson")
    ctx.harness("c09", "run", "--scenarios", scn, "--out", out, "--via", rp.get("via", "state"))
    validate(ctx, out, rp.get("via", "state"), "replay")
    return ctx.finish(write_evidence=False)
