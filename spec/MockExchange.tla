---------------------------- MODULE MockExchange ----------------------------
(***************************************************************************)
(* The simulated exchange of barter-execution (C08).                       *)
(*                                                                         *)
(* Code transcribed: barter-execution/src/exchange/mock/mod.rs             *)
(*   MockExchange::run (request loop)        -> one action per request kind *)
(*     update_time_exchange                  -> Tick                        *)
(*     OpenOrder: open_order + ack_trade + send_notifications               *)
(*        validate_order_kind_supported      -> OpenRejectKind              *)
(*        find_instrument_data               -> OpenRejectInstr             *)
(*        match side { Buy / Sell } x { enough / not enough }               *)
(*                                           -> OpenAcceptBuy,  OpenRejectFundsBuy,   *)
(*                                              OpenAcceptSell, OpenRejectFundsSell   *)
(*     FetchAccountSnapshot / FetchBalances / FetchOrdersOpen / FetchTrades *)
(*                                           -> FetchSnapshot, FetchBalances, *)
(*                                              FetchOrdersOpen, FetchTrades  *)
(*     CancelOrder (unsupported: logged, the response sender is dropped)    *)
(*                                           -> CancelUnsupported           *)
(*   barter-execution/src/exchange/mock/account.rs (AccountState)          *)
(*                                           -> bal, orders, trades         *)
(*   barter-execution/src/client/mock/mod.rs (MockExecution): once the     *)
(*     exchange task has ended every call answers ExchangeOffline            *)
(*                                           -> Kill, Offline               *)
(*                                                                         *)
(* Units.  Prices and quantities are whole numbers (quantities may be       *)
(* negative or zero, see below); every *amount* (a                          *)
(* balance, the amount an order needs, a fee) is an integer count of        *)
(* 1/100 units ("centi-units") and the fee rate is an integer percentage,   *)
(* so   need(buy) = p*|q|*(100+fee)  need(sell) = |q|*(100+fee)  fee = p*|q|*fee *)
(* are exact.  `fee` = 100 x the configured `fees_percent` (the code uses   *)
(* the configured number as a plain factor: 0.05 is five percent).          *)
(*                                                                         *)
(* The amount of an order is the MAGNITUDE of its quantity, for both sides   *)
(* (the code takes `quantity.abs()` in both arms): a negative quantity needs *)
(* and debits what the positive one does and reports the same (positive)     *)
(* fee; the fill and the response carry the quantity as requested (signed).  *)
(* A zero quantity needs nothing: a listed market order of quantity 0 is     *)
(* accepted whatever the balance (0 >= 0), debits 0, consumes an id and      *)
(* leaves a fill of quantity 0 with fee 0 and its two notifications - that   *)
(* is what the unchanged code does, and what AcceptIff / ExactDebit say for  *)
(* an amount of 0.                                                           *)
(*                                                                         *)
(* The world is fixed: three assets, two known instruments that share an    *)
(* asset (btc is the base of one and the quote of the other) and one        *)
(* instrument the exchange does not list.                                   *)
(*                                                                         *)
(* Deliberately open (DESIGN 5.4 - only what the property leaves open):     *)
(*   * the value of a fresh id: any id not below `nextId` (IdSlack = 0      *)
(*     reproduces the code's counter);                                      *)
(*   * the reason given for a rejection (`why` is carried, never judged);   *)
(*   * the reading of the exchange clock while a request is served: any     *)
(*     instant between the client's request time and request time + latency *)
(*     (ClockSlack = FALSE reproduces the code: request time + latency/2);  *)
(*     a fill carries that reading;                                         *)
(*   * the order of the balance and the trade notification of one order     *)
(*     (the projection sorts the notifications of one request by kind);     *)
(*   * the bought asset is NOT credited (the statement does not ask it);    *)
(*   * the order in which a trade query lists the fills (judged as a bag);  *)
(*   * how a cancel request is answered while the exchange runs (the mock    *)
(*     does not support cancels: any answer, but nothing may change).        *)
(* The mock never rests an order itself: the orders of the account are those *)
(* of the initial snapshot (open and cancelled ones), for ever.              *)
(* A request is served the same way whether or not anybody still waits for  *)
(* its answer: the spec has no notion of a consumed response, so ledger,     *)
(* fills, ids and notifications of an abandoned OpenOrder are those of an    *)
(* answered one (the harness abandons requests; Trace_MockExchange judges).  *)
(* Requests that are QUEUED TOGETHER (a burst: several requests sit in the   *)
(* request channel when the exchange task is polled) are handled one after   *)
(* the other in queue order - `run` takes them from a FIFO mpsc channel, one  *)
(* `recv` per loop iteration - so a burst is nothing but several steps of     *)
(* Next in a row: the ledger semantics do not change, every intermediate      *)
(* ledger exists, and the notification history shows it (one balance and one  *)
(* trade notification PER accepted order, the balance notification carrying   *)
(* the balance after THAT order: Notif11, NotifTracksInv).  Only the          *)
(* OBSERVATION differs (responses and history are seen after the whole        *)
(* burst): Trace_MockExchange folds the spec's own actions over the burst.    *)
(* Open for a burst: how notifications of DIFFERENT kinds interleave (the     *)
(* balance notifications among themselves and the trade notifications among   *)
(* themselves are in queue order; the projection re-pairs them).              *)
(* What the requesters do AFTER their requests were taken is not a step of    *)
(* the exchange: a requester that stops waiting, and also the LAST request    *)
(* sender going away (the client is dropped, the exchange task ends) while    *)
(* accepted orders are still inside the latency window, change nothing - the  *)
(* balance and the trade notification of every accepted order are published   *)
(* to whoever still listens to the account stream (a hang-up is a stutter:    *)
(* Trace_MockExchange judges the history observed after it).                  *)
(* Environment assumptions: initial balances have total = free (the code    *)
(* asserts it: only market orders exist) and every asset of a listed        *)
(* instrument has a balance entry (the code expects it).                    *)
(***************************************************************************)
EXTENDS Integers, Sequences, FiniteSets, TLC

CONSTANTS Times,      \* client request times (ms offsets)
          Prices,     \* whole prices
          Qtys,       \* whole quantities >= 0 a request may carry
          NegQtys,    \* magnitudes that requests also carry negated (cfg files cannot write -n)
          BalInit,    \* initial balances (centi-units), total = free
          FeePcts,    \* fee rates in percent
          Lats,       \* configured round-trip latencies (ms)
          Sinces,     \* `time_since` arguments of FetchTrades
          OpenCids,   \* client ids of the orders (open / cancelled) configured initially
          MaxTrades,  \* bound on accepted orders (model checking only)
          IdSlack,    \* how far above nextId a fresh id may be
          ClockSlack  \* FALSE: the exchange clock reads request time + latency/2 (the code);
                      \* TRUE: anything from request time to request time + latency

VARIABLES fee,        \* configured fee percentage            (never changes)
          lat,        \* configured latency                   (never changes)
          bal,        \* [Assets -> [total, free]]            AccountState.balances
          orders,     \* initial orders, st = open | cancelled AccountState.orders_open / orders_cancelled
          up,         \* the exchange task is running
          nextId,     \* smallest id not yet handed out       MockExchange.order_sequence
          now,        \* exchange clock                       MockExchange.time_exchange_latest
          trades,     \* sequence of fills                    AccountState.trades
          notif,      \* every notification emitted so far    broadcast account stream
          last,       \* the request just served and its response
          res         \* the data returned by the request just served (queries)

world  == <<fee, lat>>
ledger == <<bal, orders, nextId, trades, notif>>
vars   == <<fee, lat, bal, orders, up, nextId, now, trades, notif, last, res>>

(***************************************************************************)
(* The fixed world                                                         *)
(***************************************************************************)
Assets  == {"btc", "eth", "usdt"}
Known   == {"btc_usdt", "eth_btc"}
Unknown == {"xrp_usdt"}
Instrs  == Known \cup Unknown
Base(i)  == IF i = "btc_usdt" THEN "btc"  ELSE "eth"
Quote(i) == IF i = "btc_usdt" THEN "usdt" ELSE "btc"
Sides == {"buy", "sell"}
Kinds == {"market", "limit"}

\* orders that may be configured in the initial account (never touched by market orders):
\* o1, o2 rest open, o3 (same instrument as o1) was cancelled
OpenOrder(c) ==
  IF c = "o1" THEN [cid |-> "o1", instr |-> "btc_usdt", side |-> "buy",  p |-> 1, q |-> 1, filled |-> 0, st |-> "open"]
  ELSE IF c = "o3" THEN [cid |-> "o3", instr |-> "btc_usdt", side |-> "sell", p |-> 2, q |-> 1, filled |-> 0, st |-> "cancelled"]
  ELSE [cid |-> c,    instr |-> "eth_btc",  side |-> "sell", p |-> 2, q |-> 2, filled |-> 0, st |-> "open"]

OpenOnly(S) == {o \in S : o.st = "open"}

(***************************************************************************)
(* Requests, responses                                                     *)
(***************************************************************************)
Req(op, t, side, p, q, instr, kind, since) ==
  [op |-> op, t |-> t, side |-> side, p |-> p, q |-> q, instr |-> instr, kind |-> kind, since |-> since]

QtyDomain == Qtys \cup {0 - n : n \in NegQtys}
OpenReqs  == {Req("open", t, s, p, q, i, k, 0) : t \in Times, s \in Sides, p \in Prices, q \in QtyDomain, i \in Instrs, k \in Kinds}
SnapReqs  == {Req("snapshot", t, "none", 0, 0, "none", "none", 0) : t \in Times}
BalReqs   == {Req("balances", t, "none", 0, 0, "none", "none", 0) : t \in Times}
OrdReqs   == {Req("orders", t, "none", 0, 0, "none", "none", 0) : t \in Times}
TradeReqs == {Req("trades", t, "none", 0, 0, "none", "none", s) : t \in Times, s \in Sinces}
CancelReqs == {Req("cancel", t, "none", 0, 0, i, "none", 0) : t \in Times, i \in Instrs}
Requests  == OpenReqs \cup SnapReqs \cup BalReqs \cup OrdReqs \cup TradeReqs \cup CancelReqs
KillReq   == Req("kill", 0, "none", 0, 0, "none", "none", 0)
NoReq     == Req("init", 0, "none", 0, 0, "none", "none", 0)

\* out: "ok" accepted, "rej" rejected, "query" a query was answered, "offline" the client reported
\* the exchange offline, "killed" the exchange task was ended
Resp(r, out, why, id, filled) == [req |-> r, out |-> out, why |-> why, id |-> id, filled |-> filled]

NoBal  == [a \in Assets |-> [total |-> 0, free |-> 0]]
NoRes  == [bal |-> NoBal, trades |-> <<>>, open |-> {}]
CancelOutcomes == {"offline", "rej"}

(***************************************************************************)
(* What an order needs, which asset pays, what the fill reports             *)
(***************************************************************************)
Market(r)   == r.kind = "market"
Listed(r)   == r.instr \in Known
Spent(r)    == IF r.side = "buy" THEN Quote(r.instr) ELSE Base(r.instr)
AbsQ(r)     == IF r.q < 0 THEN -r.q ELSE r.q         \* the amount of an order is |quantity|
Need(r)     == IF r.side = "buy" THEN r.p * AbsQ(r) * (100 + fee) ELSE AbsQ(r) * (100 + fee)
FeeQuote(r) == r.p * AbsQ(r) * fee                  \* reported in the quote asset for both sides
Funded(r)   == bal[Spent(r)].free >= Need(r)
Accepts(r)  == r.op = "open" /\ Market(r) /\ Listed(r) /\ Funded(r)

NowAfter(r) == r.t + (lat \div 2)                   \* MockExchange::update_time_exchange

Debit(b, a, n) == [b EXCEPT ![a] = [total |-> @.total - n, free |-> @.free - n]]

ClockChoices(r) == IF ClockSlack THEN r.t .. (r.t + lat) ELSE {NowAfter(r)}

Fill(id, r, tt) == [id |-> id, oid |-> id, instr |-> r.instr, side |-> r.side, p |-> r.p, q |-> r.q,
                    fee |-> FeeQuote(r), t |-> tt]
NoFill == [id |-> -1, oid |-> -1, instr |-> "none", side |-> "none", p |-> 0, q |-> 0, fee |-> 0, t |-> 0]

\* the two notifications of one accepted order (same record shape for both kinds)
BalNotif(a, b)  == [k |-> "balance", asset |-> a, total |-> b.total, free |-> b.free, trade |-> NoFill]
FillNotif(tr)   == [k |-> "trade", asset |-> "none", total |-> 0, free |-> 0, trade |-> tr]

FreshIds == nextId .. (nextId + IdSlack)

TradesSince(s) == SelectSeq(trades, LAMBDA x : x.t >= s)   \* AccountState::trades(time_since)

\* two lists of fills with the same content (fill ids are unique), in any order
SameFills(a, b) == Len(a) = Len(b) /\ {a[i] : i \in DOMAIN a} = {b[i] : i \in DOMAIN b}

(***************************************************************************)
(* Behaviour                                                               *)
(***************************************************************************)
Init == /\ fee \in FeePcts
        /\ lat \in Lats
        /\ bal \in {[a \in Assets |-> [total |-> f[a], free |-> f[a]]] : f \in [Assets -> BalInit]}
        /\ orders = {OpenOrder(c) : c \in OpenCids}
        /\ up = TRUE
        /\ nextId = 0
        /\ now = 0
        /\ trades = <<>>
        /\ notif = <<>>
        /\ last = Resp(NoReq, "init", "-", -1, 0)
        /\ res = NoRes

Tick(r, tt) == tt \in ClockChoices(r) /\ now' = tt

Reject(r, tt, why) == /\ up /\ Tick(r, tt)
                  /\ UNCHANGED <<world, ledger, up>>
                  /\ last' = Resp(r, "rej", why, -1, 0)
                  /\ res' = NoRes

\* the ledger an accepted order leaves (state functions, so that a trace checker can name what
\* differs; Accept below is the only action that uses them)
AfterBal(r)            == Debit(bal, Spent(r), Need(r))
AfterTrades(r, id, tt) == Append(trades, Fill(id, r, tt))                        \* ack_trade
AfterNotif(r, id, tt)  == notif \o <<BalNotif(Spent(r), AfterBal(r)[Spent(r)]), FillNotif(Fill(id, r, tt))>>

Accept(r, id, tt) == /\ up /\ id \in FreshIds
                 /\ Tick(r, tt)
                 /\ bal' = AfterBal(r)
                 /\ nextId' = id + 1
                 /\ trades' = AfterTrades(r, id, tt)
                 /\ notif' = AfterNotif(r, id, tt)
                 /\ last' = Resp(r, "ok", "-", id, r.q)
                 /\ res' = NoRes
                 /\ UNCHANGED <<world, orders, up>>

\* --- one action per arm of MockExchange::open_order ---
OpenRejectKind(r, tt)      == r.op = "open" /\ ~Market(r) /\ Reject(r, tt, "kind")
OpenRejectInstr(r, tt)     == r.op = "open" /\ Market(r) /\ ~Listed(r) /\ Reject(r, tt, "instr")
OpenAcceptBuy(r, id, tt)   == r.op = "open" /\ Market(r) /\ Listed(r) /\ r.side = "buy"  /\ Funded(r)  /\ Accept(r, id, tt)
OpenRejectFundsBuy(r, tt)  == r.op = "open" /\ Market(r) /\ Listed(r) /\ r.side = "buy"  /\ ~Funded(r) /\ Reject(r, tt, "funds")
OpenAcceptSell(r, id, tt)  == r.op = "open" /\ Market(r) /\ Listed(r) /\ r.side = "sell" /\ Funded(r)  /\ Accept(r, id, tt)
OpenRejectFundsSell(r, tt) == r.op = "open" /\ Market(r) /\ Listed(r) /\ r.side = "sell" /\ ~Funded(r) /\ Reject(r, tt, "funds")

\* --- queries: answer from the ledger, change nothing but the clock ---
Query(r, tt, answer) == /\ up /\ Tick(r, tt)
                    /\ UNCHANGED <<world, ledger, up>>
                    /\ last' = Resp(r, "query", "-", -1, 0)
                    /\ res' = answer

\* account_snapshot lists the open and the cancelled orders; fetch_open_orders the open ones
FetchSnapshot(r, tt) == r.op = "snapshot" /\ Query(r, tt, [NoRes EXCEPT !.bal = bal, !.open = orders])
FetchBalances(r, tt) == r.op = "balances" /\ Query(r, tt, [NoRes EXCEPT !.bal = bal])
FetchOrdersOpen(r, tt) == r.op = "orders" /\ Query(r, tt, [NoRes EXCEPT !.open = OpenOnly(orders)])
FetchTrades(r, tt)   == r.op = "trades"   /\ Query(r, tt, [NoRes EXCEPT !.trades = TradesSince(r.since)])

\* --- cancels are not supported: whatever the answer (o), nothing changes ---
CancelUnsupported(r, tt, o) == /\ r.op = "cancel" /\ up /\ o \in CancelOutcomes
                               /\ Tick(r, tt)
                               /\ UNCHANGED <<world, ledger, up>>
                               /\ last' = Resp(r, o, "-", -1, 0)
                               /\ res' = NoRes

\* --- the exchange task ends; from then on every client call reports the exchange offline and
\*     nothing changes any more ---
Kill == /\ up' = FALSE                               \* (ending an ended task is a no-op)
        /\ UNCHANGED <<world, ledger, now>>
        /\ last' = Resp(KillReq, "killed", "-", -1, 0)
        /\ res' = NoRes

Offline(r) == /\ ~up /\ r.op # "kill"
              /\ UNCHANGED <<world, ledger, up, now>>
              /\ last' = Resp(r, "offline", "-", -1, 0)
              /\ res' = NoRes

\* the step taken for request r with the exchange's clock reading tt (id matters for the
\* accepting arms only, o for cancels only)
Serve(r, id, tt, o) == \/ OpenRejectKind(r, tt)  \/ OpenRejectInstr(r, tt)
                       \/ OpenAcceptBuy(r, id, tt)  \/ OpenRejectFundsBuy(r, tt)
                       \/ OpenAcceptSell(r, id, tt) \/ OpenRejectFundsSell(r, tt)
                       \/ FetchSnapshot(r, tt) \/ FetchBalances(r, tt) \/ FetchOrdersOpen(r, tt)
                       \/ FetchTrades(r, tt) \/ CancelUnsupported(r, tt, o)
                       \/ Offline(r)
                       \/ (r.op = "kill" /\ Kill)

Bounded == Len(trades) < MaxTrades

OpenRejectKindA      == \E r \in OpenReqs : \E tt \in ClockChoices(r) : OpenRejectKind(r, tt)
OpenRejectInstrA     == \E r \in OpenReqs : \E tt \in ClockChoices(r) : OpenRejectInstr(r, tt)
OpenAcceptBuyA       == Bounded /\ \E r \in OpenReqs : \E id \in FreshIds : \E tt \in ClockChoices(r) : OpenAcceptBuy(r, id, tt)
OpenRejectFundsBuyA  == \E r \in OpenReqs : \E tt \in ClockChoices(r) : OpenRejectFundsBuy(r, tt)
OpenAcceptSellA      == Bounded /\ \E r \in OpenReqs : \E id \in FreshIds : \E tt \in ClockChoices(r) : OpenAcceptSell(r, id, tt)
OpenRejectFundsSellA == \E r \in OpenReqs : \E tt \in ClockChoices(r) : OpenRejectFundsSell(r, tt)
FetchSnapshotA       == \E r \in SnapReqs : \E tt \in ClockChoices(r) : FetchSnapshot(r, tt)
FetchBalancesA       == \E r \in BalReqs : \E tt \in ClockChoices(r) : FetchBalances(r, tt)
FetchOrdersOpenA     == \E r \in OrdReqs : \E tt \in ClockChoices(r) : FetchOrdersOpen(r, tt)
FetchTradesA         == \E r \in TradeReqs : \E tt \in ClockChoices(r) : FetchTrades(r, tt)
CancelUnsupportedA   == \E r \in CancelReqs : \E tt \in ClockChoices(r) : \E o \in CancelOutcomes : CancelUnsupported(r, tt, o)
KillA                == Kill
\* (the answer does not depend on what is asked: one request of every kind stands for all)
OneOf(S)             == IF S = {} THEN {} ELSE {CHOOSE r \in S : TRUE}
OfflineReqs          == OneOf(OpenReqs) \cup OneOf(SnapReqs) \cup OneOf(BalReqs) \cup OneOf(OrdReqs)
                          \cup OneOf(TradeReqs) \cup OneOf(CancelReqs)
OfflineA             == ~up /\ \E r \in OfflineReqs : Offline(r)

Next == \/ OpenRejectKindA \/ OpenRejectInstrA
        \/ OpenAcceptBuyA \/ OpenRejectFundsBuyA
        \/ OpenAcceptSellA \/ OpenRejectFundsSellA
        \/ FetchSnapshotA \/ FetchBalancesA \/ FetchOrdersOpenA \/ FetchTradesA
        \/ CancelUnsupportedA \/ KillA \/ OfflineA

Spec == Init /\ [][Next]_vars

(***************************************************************************)
(* The property C08                                                        *)
(***************************************************************************)
Ids(s) == {s[i].id : i \in DOMAIN s}

TypeOK == /\ bal \in [Assets -> [total : Int, free : Int]]
          /\ nextId \in Nat
          /\ \A i \in DOMAIN trades : trades[i].instr \in Known /\ trades[i].side \in Sides

\* never lets a balance go negative (and total = free: nothing is ever locked)
NonNegative == \A a \in Assets : bal[a].free >= 0 /\ bal[a].total >= 0 /\ bal[a].total = bal[a].free

\* ids are strictly increasing along the ledger, all below nextId: never reused
FreshIdsInv == /\ \A i \in DOMAIN trades : trades[i].id < nextId /\ trades[i].oid = trades[i].id
               /\ \A i, j \in DOMAIN trades : i < j => trades[i].id < trades[j].id

\* one balance and one trade notification per fill, in fill order
Notif11Inv == /\ Len(notif) = 2 * Len(trades)
              /\ \A i \in DOMAIN trades : /\ notif[2 * i - 1].k = "balance"
                                          /\ notif[2 * i] = FillNotif(trades[i])

\* the balance notifications follow the ledger, order by order: the one of fill i names the asset
\* that fill spent; the latest one of an asset carries that asset's present balance, and the
\* earlier ones of that asset the balance before the next order that spent it (nothing is ever
\* credited: each differs from its successor by exactly what that order needed)
SpentOf(f)  == IF f.side = "buy" THEN Quote(f.instr) ELSE Base(f.instr)
NeedOf(f)   == LET m == IF f.q < 0 THEN -f.q ELSE f.q IN
               IF f.side = "buy" THEN f.p * m * (100 + fee) ELSE m * (100 + fee)
NotifTracksInv ==
  (Len(notif) = 2 * Len(trades)) =>
    \A i \in DOMAIN trades :
      LET nb    == notif[2 * i - 1]
          later == {j \in DOMAIN trades : j > i /\ SpentOf(trades[j]) = SpentOf(trades[i])}
      IN /\ nb.asset = SpentOf(trades[i]) /\ nb.total = nb.free
         /\ IF later = {} THEN nb.free = bal[nb.asset].free
            ELSE LET j == CHOOSE j \in later : \A k \in later : j <= k
                 IN nb.free = notif[2 * j - 1].free + NeedOf(trades[j])

Inv == TypeOK /\ NonNegative /\ FreshIdsInv /\ Notif11Inv /\ NotifTracksInv

\* ---- step formulas over (ledger, ledger', last', res') ----
Served   == last'.req
Accepted == last'.out = "ok"
Rejected == last'.out = "rej"

\* accepted iff a listed market order whose spent asset covers price x quantity plus fees (buy,
\* quote asset) / quantity plus fees (sell, base asset)
AcceptIffA == (Served.op = "open" /\ up) =>
                 /\ Accepted \/ Rejected
                 /\ Accepted <=> ( /\ Served.kind = "market" /\ Served.instr \in Known
                                   /\ bal[Spent(Served)].free >= Need(Served) )

\* debits exactly that asset by exactly that amount, every other balance untouched
ExactDebitA == Accepted =>
                 LET a == Spent(Served) IN
                 /\ bal'[a].total = bal[a].total - Need(Served)
                 /\ bal'[a].free  = bal[a].free  - Need(Served)
                 /\ \A b \in Assets \ {a} : bal'[b] = bal[b]

\* a rejection (and a query) leaves the whole ledger untouched
RejectPureA == ~Accepted => UNCHANGED ledger

\* the id handed out was never used before and exceeds every earlier one
FreshIdsA == Accepted => /\ last'.id \notin Ids(trades)
                         /\ \A i \in DOMAIN trades : trades[i].id < last'.id
                         /\ last'.id >= nextId /\ nextId' > last'.id

\* exactly one fill per accepted order: whole quantity, the order's own id, fees = fee% of value
OneFillA == /\ Accepted =>
                 /\ Len(trades') = Len(trades) + 1
                 /\ SubSeq(trades', 1, Len(trades)) = trades
                 /\ LET f == trades'[Len(trades')] IN
                      /\ f.id = last'.id /\ f.oid = last'.id
                      /\ f.instr = Served.instr /\ f.side = Served.side
                      /\ f.p = Served.p /\ f.q = Served.q /\ last'.filled = Served.q
                      /\ f.fee = f.p * (IF f.q < 0 THEN -f.q ELSE f.q) * fee /\ f.fee >= 0
                      /\ f.t = now'                                  \* stamped with the exchange clock
            /\ ~Accepted => trades' = trades

\* announced by one balance and one trade notification; nothing is announced otherwise
Notif11A == /\ Accepted =>
                 /\ Len(notif') = Len(notif) + 2
                 /\ SubSeq(notif', 1, Len(notif)) = notif
                 /\ LET nb == notif'[Len(notif) + 1]  nt == notif'[Len(notif) + 2] IN
                      /\ nb.k = "balance" /\ nb.asset = Spent(Served)
                      /\ nb.total = bal'[nb.asset].total /\ nb.free = bal'[nb.asset].free
                      /\ nt.k = "trade" /\ nt.trade = trades'[Len(trades')]
            /\ ~Accepted => notif' = notif

\* snapshots and queries show the ledger; market orders never touch the resting orders
QueriesReflectA == /\ (Served.op = "snapshot" /\ up) => res'.bal = bal /\ res'.open = orders
                   /\ (Served.op = "balances" /\ up) => res'.bal = bal
                   /\ (Served.op = "orders" /\ up) => res'.open = {o \in orders : o.st = "open"}
                   /\ (Served.op = "trades" /\ up) =>
                        SameFills(res'.trades, SelectSeq(trades, LAMBDA x : x.t >= Served.since))
                   /\ orders' = orders

\* once the exchange task has ended it stays ended, every call is answered "offline", and only then
OfflineA_ == /\ (~up => ~up')
             /\ (~up => last'.out \in {"offline", "killed"})
             /\ (last'.out = "offline" => (~up \/ Served.op = "cancel"))
             /\ (last'.out \in {"offline", "killed"} => UNCHANGED ledger)

ConfigFixedA == fee' = fee /\ lat' = lat

\* the exchange clock reads an instant between the request and the arrival of its answer
ClockA == (up /\ Served.op # "kill") => (now' >= Served.t /\ now' <= Served.t + lat)

StepProps == AcceptIffA /\ ExactDebitA /\ RejectPureA /\ FreshIdsA /\ OneFillA /\ Notif11A
             /\ QueriesReflectA /\ ConfigFixedA /\ ClockA /\ OfflineA_

AcceptIff      == [][AcceptIffA]_vars
ExactDebit     == [][ExactDebitA]_vars
RejectPure     == [][RejectPureA]_vars
FreshIdsStep   == [][FreshIdsA]_vars
OneFill        == [][OneFillA]_vars
Notif11        == [][Notif11A]_vars
QueriesReflect == [][QueriesReflectA]_vars
ConfigFixed    == [][ConfigFixedA]_vars
Clock          == [][ClockA]_vars
OfflineStep    == [][OfflineA_]_vars

\* `now` is written before it is read in every step and `last`/`res` only record the step: none of
\* them influences what can happen next, so states are identified up to them.
View == <<fee, lat, bal, orders, up, nextId, trades, notif>>
=============================================================================
