------------------------------- MODULE Stats -------------------------------
(* C16 - tear-sheet PnL, win rate and profit factor match the closed       *)
(*       positions; every instrument / asset key carries the sheet of ITS  *)
(*       history.                                                          *)
(* C17 - running dataset statistics equal the statistics of the whole      *)
(*       dataset.                                                          *)
(*                                                                         *)
(* Reference ("batch") semantics: the state is the HISTORY (what was fed   *)
(* in), every reported figure is DEFINED from the whole history as sets    *)
(* and sums over it (TearSheet, AssetSheet, DataSet).  Beside it the       *)
(* module carries the running accumulators the code keeps                  *)
(*   acc  ~ PnLReturns{pnl_raw,total{count,sum},losses{count,sum}}         *)
(*          barter/src/statistic/summary/pnl.rs  PnLReturns::update         *)
(*   wf   ~ DataSetSummary{count,sum,mean,dispersion.recurrence_relation_m}*)
(*          summary/dataset/mod.rs DataSetSummary::update,                  *)
(*          algorithm.rs welford_online::{calculate_mean,                   *)
(*          calculate_recurrence_relation_m,calculate_population_variance} *)
(* and the two pure calculators WinRate::calculate / ProfitFactor::        *)
(* calculate (metric/win_rate.rs, metric/profit_factor.rs), so that TLC    *)
(* decides on every bounded history that accumulators + calculators, fed   *)
(* with the arguments the property requires (wins = total - losses, gross  *)
(* profit = total sum - loss sum), give exactly the batch figures          *)
(* (AccSheet, WelfordExact).  The implementation is bound to the BATCH     *)
(* definitions only (Pattern B replay): its accumulators are free to be    *)
(* organised differently as long as every reported figure agrees.          *)
(*                                                                         *)
(* Actions: AddClosed(i,pnl,cost)  InstrumentState::update_from_trade ->   *)
(*                                 TearSheetGenerator::update_from_position*)
(*          AddBalance(a,total)    AssetState::update_from_balance ->      *)
(*                                 TearSheetAssetGenerator::update_from_balance *)
(*          Generate               TradingSummaryGenerator::generate /     *)
(*                                 TearSheetGenerator::generate             *)
(*          AddValue(x)            DataSetSummary::update (directly, or as  *)
(*                                 PnLReturns::update does: every return    *)
(*                                 into `total`, the negative ones also     *)
(*                                 into `losses` = DataSet(NegOf(vals)))    *)
(*          Persist                the running generators are serialisable: *)
(*                                 storing and restoring them (serde) is a  *)
(*                                 STUTTER of the abstract state - a        *)
(*                                 restored summary is the same summary,    *)
(*                                 every later figure is still the figure   *)
(*                                 of the whole history (PersistIsStutter)  *)
(*                                                                         *)
(* A closed position is (pnl, cost) with cost = price_entry_average *      *)
(* quantity_abs_max > 0; its return is pnl / cost                          *)
(* (engine/state/position.rs calculate_pnl_return).                        *)
(*                                                                         *)
(* Nothing is left nondeterministic: the figures of C16 / C17 are          *)
(* functions of the history.  Out of scope (not constrained): Sharpe /     *)
(* Sortino / Calmar / rate of return, the drawdown fields (C18,            *)
(* Drawdown.tla), recurrence_relation_m itself.                            *)
EXTENDS Integers, Sequences, FiniteSets, TLC, Rational

CONSTANTS
  Instr,      \* instrument keys (strings)
  Asset,      \* asset keys (strings)
  PnLs,       \* realised PnL of a closed position (integers)
  Costs,      \* entry cost price*quantity of a closed position (integers > 0)
  Bals,       \* balance totals (integers)
  Vals,       \* dataset values (integers; the harness concretises k * 10^e)
  MaxClosed,  \* bound on closed positions (all instruments together)
  MaxBal,     \* bound on balance updates (all assets together)
  MaxVals     \* bound on dataset length

VARIABLES
  closed,     \* [Instr -> Seq([pnl, cost])]   history of closed positions
  acc,        \* [Instr -> accumulator]        running PnLReturns
  bal,        \* [Asset -> Seq(Int)]           history of balance totals
  out,        \* <<>> or <<summary>>           what the last call returned, if it was Generate
  vals,       \* Seq(Int)                      dataset history
  wf,         \* running Welford accumulator
  last        \* the last event

vars == <<closed, acc, bal, out, vals, wf, last>>
View == <<closed, acc, bal, out, vals, wf>>       \* `last` is observation only

-----------------------------------------------------------------------------
(* generic sums over index sets                                             *)
RECURSIVE RSumOver(_, _), ISumOver(_, _)
RSumOver(f, I) == IF I = {} THEN Zero
                  ELSE LET k == CHOOSE k \in I : TRUE IN Add(f[k], RSumOver(f, I \ {k}))
ISumOver(f, I) == IF I = {} THEN 0
                  ELSE LET k == CHOOSE k \in I : TRUE IN f[k] + ISumOver(f, I \ {k})

Idx(s)  == 1..Len(s)
Perm(s) == {[k \in Idx(s) |-> s[p[k]]] : p \in Permutations(Idx(s))}

\* optional rational
NoneR    == [has |-> FALSE, v |-> Zero]
SomeR(r) == [has |-> TRUE, v |-> r]

-----------------------------------------------------------------------------
(* C16 - the tear sheet of a history h of closed positions                  *)
Pos(pnl, cost) == [pnl |-> pnl, cost |-> cost]
Ret(c)         == Frac(c.pnl, c.cost)

WinIdx(h)  == {k \in Idx(h) : ~IsNeg(Ret(h[k]))}     \* return not negative
GainIdx(h) == {k \in Idx(h) : IsPos(Ret(h[k]))}
LossIdx(h) == {k \in Idx(h) : IsNeg(Ret(h[k]))}

PnL(h)         == ISumOver([k \in Idx(h) |-> h[k].pnl], Idx(h))
GrossProfit(h) == RSumOver([k \in Idx(h) |-> Ret(h[k])], GainIdx(h))
GrossLoss(h)   == Abs(RSumOver([k \in Idx(h) |-> Ret(h[k])], LossIdx(h)))

WinRate(h) == IF Len(h) = 0 THEN NoneR ELSE SomeR(Frac(Cardinality(WinIdx(h)), Len(h)))

\* profit factor: "none" | "max" (profits, no losses) | "min" (losses, no profits) | "num"
PF(k, v) == [k |-> k, v |-> v]
ProfitFactor(h) ==
  LET p == GrossProfit(h)
      l == GrossLoss(h)
  IN IF IsZero(p) /\ IsZero(l) THEN PF("none", Zero)
     ELSE IF IsZero(l) THEN PF("max", Zero)
     ELSE IF IsZero(p) THEN PF("min", Zero)
     ELSE PF("num", Div(p, l))

TearSheet(h) == [pnl |-> R(PnL(h)), win_rate |-> WinRate(h), profit_factor |-> ProfitFactor(h)]

\* the asset sheet of a balance history (drawdown fields: Drawdown.tla / C18)
AssetSheet(b) == IF b = <<>> THEN [has |-> FALSE, total |-> 0] ELSE [has |-> TRUE, total |-> b[Len(b)]]

SummaryOf(cl, bl) == [instruments |-> [i \in Instr |-> TearSheet(cl[i])],
                      assets      |-> [a \in Asset |-> AssetSheet(bl[a])]]
Summary == SummaryOf(closed, bal)

(* the running accumulators and the calculators, as the code has them       *)
Acc0 == [pnl |-> 0, n |-> 0, sum |-> Zero, ln |-> 0, lsum |-> Zero]
AccUpd(a, c) ==                                   \* PnLReturns::update
  LET r == Ret(c)
  IN [pnl  |-> a.pnl + c.pnl,
      n    |-> a.n + 1,
      sum  |-> Add(a.sum, r),
      ln   |-> IF IsNeg(r) THEN a.ln + 1 ELSE a.ln,
      lsum |-> IF IsNeg(r) THEN Add(a.lsum, r) ELSE a.lsum]

WinRateCalc(wins, total) ==                       \* WinRate::calculate
  IF total = 0 THEN NoneR ELSE SomeR(Frac(AbsI(wins), AbsI(total)))
PFCalc(p, l) ==                                   \* ProfitFactor::calculate
  IF IsZero(p) /\ IsZero(l) THEN PF("none", Zero)
  ELSE IF IsZero(l) THEN PF("max", Zero)
  ELSE IF IsZero(p) THEN PF("min", Zero)
  ELSE PF("num", Div(Abs(p), Abs(l)))

\* the arguments the property requires generate() to pass
SheetOfAcc(a) == [pnl           |-> R(a.pnl),
                  win_rate      |-> WinRateCalc(a.n - a.ln, a.n),
                  profit_factor |-> PFCalc(Sub(a.sum, a.lsum), a.lsum)]

-----------------------------------------------------------------------------
(* C17 - the statistics of a dataset v (integers), batch definitions        *)
ISum(v)   == ISumOver(v, Idx(v))
MeanOf(v) == IF Len(v) = 0 THEN Zero ELSE Frac(ISum(v), Len(v))
\* two-pass population variance  (1/n) SUM (x - mean)^2  over the common denominator:
\* x - mean = (n x - S)/n
SqDev(v)  == LET n == Len(v) S == ISum(v)
             IN ISumOver([k \in Idx(v) |-> (n * v[k] - S) * (n * v[k] - S)], Idx(v))
VarOf(v)  == IF Len(v) = 0 THEN Zero ELSE Frac(SqDev(v), Len(v) * Len(v) * Len(v))
Elems(v)  == {v[k] : k \in Idx(v)}
Lo(v)     == CHOOSE x \in Elems(v) : \A y \in Elems(v) : x <= y
Hi(v)     == CHOOSE x \in Elems(v) : \A y \in Elems(v) : x >= y
RangeOf(v) == IF Len(v) = 0 THEN [has |-> FALSE, lo |-> 0, hi |-> 0]
              ELSE [has |-> TRUE, lo |-> Lo(v), hi |-> Hi(v)]

DataSet(v) == [count |-> Len(v), sum |-> ISum(v), mean |-> MeanOf(v), var |-> VarOf(v),
               range |-> RangeOf(v)]

(* Welford's recurrences in exact arithmetic                                *)
Wf0 == [n |-> 0, sum |-> 0, mean |-> Zero, m |-> Zero]
WfUpd(w, x) ==
  LET n     == w.n + 1
      mean2 == Add(w.mean, Div(Sub(R(x), w.mean), R(n)))             \* calculate_mean
      m2    == Add(w.m, Mul(Sub(R(x), w.mean), Sub(R(x), mean2)))    \* calculate_recurrence_relation_m
  IN [n |-> n, sum |-> w.sum + x, mean |-> mean2, m |-> m2]
WfVar(w) == IF w.n < 1 THEN Zero ELSE Div(w.m, R(w.n))               \* calculate_population_variance

-----------------------------------------------------------------------------
Ev(a, k, x, y) == [a |-> a, k |-> k, x |-> x, y |-> y]

Init == /\ closed = [i \in Instr |-> <<>>]
        /\ acc    = [i \in Instr |-> Acc0]
        /\ bal    = [a \in Asset |-> <<>>]
        /\ out    = <<>>
        /\ vals   = <<>>
        /\ wf     = Wf0
        /\ last   = Ev("Init", "", 0, 0)

NClosed == ISumOver([i \in Instr |-> Len(closed[i])], Instr)
NBal    == ISumOver([a \in Asset |-> Len(bal[a])], Asset)

AddClosed(i, pnl, cost) ==
  /\ closed' = [closed EXCEPT ![i] = Append(@, Pos(pnl, cost))]
  /\ acc'    = [acc EXCEPT ![i] = AccUpd(@, Pos(pnl, cost))]
  /\ out'    = <<>>
  /\ last'   = Ev("AddClosed", i, pnl, cost)
  /\ UNCHANGED <<bal, vals, wf>>

AddBalance(a, total) ==
  /\ bal'  = [bal EXCEPT ![a] = Append(@, total)]
  /\ out'  = <<>>
  /\ last' = Ev("AddBalance", a, total, 0)
  /\ UNCHANGED <<closed, acc, vals, wf>>

Generate ==
  /\ out'  = <<Summary>>
  /\ last' = Ev("Generate", "", 0, 0)
  /\ UNCHANGED <<closed, acc, bal, vals, wf>>

AddValue(x) ==
  /\ vals' = Append(vals, x)
  /\ wf'   = WfUpd(wf, x)
  /\ last' = Ev("AddValue", "", x, 0)
  /\ UNCHANGED <<closed, acc, bal, out>>

\* store + restore of the running generators: nothing the figures depend on changes
Persist ==
  /\ last' = Ev("Persist", "", 0, 0)
  /\ UNCHANGED <<closed, acc, bal, out, vals, wf>>

\* the losing returns: what PnLReturns keeps in `losses`
NegOf(v) == SelectSeq(v, LAMBDA x : x < 0)

AddClosedAny  == \E i \in Instr, p \in PnLs, c \in Costs : NClosed < MaxClosed /\ AddClosed(i, p, c)
AddBalanceAny == \E a \in Asset, b \in Bals : NBal < MaxBal /\ AddBalance(a, b)
GenerateAny   == out = <<>> /\ Generate
AddValueAny   == \E x \in Vals : Len(vals) < MaxVals /\ AddValue(x)

PersistAny    == last.a # "Persist" /\ last.a # "Init" /\ Persist

NextC16 == AddClosedAny \/ AddBalanceAny \/ GenerateAny \/ PersistAny
NextC17 == AddValueAny \/ PersistAny
SpecC16 == Init /\ [][NextC16]_vars
SpecC17 == Init /\ [][NextC17]_vars

-----------------------------------------------------------------------------
(* C16 formulas                                                             *)
TypeC16 ==
  /\ \A i \in Instr : \A k \in Idx(closed[i]) : closed[i][k].pnl \in PnLs /\ closed[i][k].cost \in Costs
  /\ \A a \in Asset : \A k \in Idx(bal[a]) : bal[a][k] \in Bals
  /\ Len(out) <= 1

\* a store / restore changes no figure, now or later (the figures are functions of the histories)
PersistIsStutter == [][last'.a = "Persist" =>
                         /\ SummaryOf(closed', bal') = SummaryOf(closed, bal) /\ acc' = acc /\ out' = out
                         /\ DataSet(vals') = DataSet(vals) /\ DataSet(NegOf(vals')) = DataSet(NegOf(vals)) /\ wf' = wf]_vars

\* a generated summary is the summary of the histories, key by key
GenerateIsBatch == out # <<>> =>
  /\ \A i \in Instr : out[1].instruments[i] = TearSheet(closed[i])
  /\ \A a \in Asset : out[1].assets[a] = AssetSheet(bal[a])

\* the running accumulators with the required arguments give the batch sheet
AccSheet == \A i \in Instr : SheetOfAcc(acc[i]) = TearSheet(closed[i])

WinRateSane == \A i \in Instr :
  LET h == closed[i] w == WinRate(h)
  IN /\ w.has <=> Len(h) > 0
     /\ w.has => /\ Geq(w.v, Zero) /\ Leq(w.v, One)
                 /\ (w.v = One  <=> LossIdx(h) = {})
                 /\ (w.v = Zero <=> WinIdx(h) = {})
                 \* wins and losses partition the history
                 /\ Add(w.v, Frac(Cardinality(LossIdx(h)), Len(h))) = One

ProfitFactorSane == \A i \in Instr :
  LET h == closed[i] f == ProfitFactor(h)
      total == RSumOver([k \in Idx(h) |-> Ret(h[k])], Idx(h))
  IN /\ (f.k = "none" <=> GainIdx(h) = {} /\ LossIdx(h) = {})
     /\ (f.k = "max"  <=> GainIdx(h) # {} /\ LossIdx(h) = {})
     /\ (f.k = "min"  <=> GainIdx(h) = {} /\ LossIdx(h) # {})
     /\ (f.k = "num"  => /\ IsPos(f.v)
                         /\ (Gt(f.v, One) <=> IsPos(total))     \* > 1 iff profitable
                         /\ (f.v = One <=> IsZero(total)))
     \* gross profit - gross loss = sum of all returns
     /\ Sub(GrossProfit(h), GrossLoss(h)) = total

\* the figures do not depend on the order in which positions were closed
OrderFreeC16 == \A i \in Instr : \A g \in Perm(closed[i]) : TearSheet(g) = TearSheet(closed[i])

\* an event for key k leaves the sheet of every other key unchanged
Keyed == [][/\ \A i \in Instr : i # last'.k => TearSheet(closed'[i]) = TearSheet(closed[i])
            /\ \A a \in Asset : a # last'.k => AssetSheet(bal'[a]) = AssetSheet(bal[a])]_vars
Additive == [][last'.a = "AddClosed" =>
               PnL(closed'[last'.k]) = PnL(closed[last'.k]) + last'.x]_vars
LatestBalance == [][last'.a = "AddBalance" =>
               AssetSheet(bal'[last'.k]) = [has |-> TRUE, total |-> last'.x]]_vars

-----------------------------------------------------------------------------
(* C17 formulas                                                             *)
TypeC17 == \A k \in Idx(vals) : vals[k] \in Vals

VarNonNeg   == Geq(VarOf(vals), Zero)
MeanInRange == Len(vals) > 0 => Leq(R(Lo(vals)), MeanOf(vals)) /\ Leq(MeanOf(vals), R(Hi(vals)))
OrderFreeC17 == \A g \in Perm(vals) : DataSet(g) = DataSet(vals)
\* textbook identities of the batch definitions
VarAlt == Len(vals) > 0 =>
  LET n == Len(vals) S == ISum(vals)
      Q == ISumOver([k \in Idx(vals) |-> vals[k] * vals[k]], Idx(vals))
  IN VarOf(vals) = Frac(n * Q - S * S, n * n)
VarZeroIffConstant == Len(vals) > 0 => (IsZero(VarOf(vals)) <=> Cardinality(Elems(vals)) = 1)
ShiftScale ==
  LET sh == [k \in Idx(vals) |-> vals[k] + 7]
      sc == [k \in Idx(vals) |-> -2 * vals[k]]
  IN /\ VarOf(sh) = VarOf(vals)
     /\ Len(vals) > 0 => MeanOf(sh) = Add(MeanOf(vals), R(7))
     /\ VarOf(sc) = Mul(R(4), VarOf(vals))
     /\ MeanOf(sc) = Mul(R(-2), MeanOf(vals))
\* the losing returns are a sub-dataset: never more, never larger than the whole
LossesAreSubset == LET n == NegOf(vals)
                   IN /\ Len(n) <= Len(vals) /\ (Len(n) = Len(vals) <=> \A k \in Idx(vals) : vals[k] < 0)
                      /\ Len(n) > 0 => Hi(n) < 0 /\ Lo(n) = Lo(vals) /\ Lt(MeanOf(n), Zero) /\ Leq(MeanOf(n), MeanOf(vals))
\* the one-pass recurrences equal the batch definitions in exact arithmetic
WelfordExact == /\ wf.n = Len(vals) /\ wf.sum = ISum(vals)
                /\ wf.mean = MeanOf(vals)
                /\ WfVar(wf) = VarOf(vals)
=============================================================================
