SPECIFICATION Spec
CONSTANTS
  Scripts <- ScriptsT2
  Policies <- PolT
  Tabs <- TabsK
  Clients <- ClientsT
  ReqLists <- ReqsT2
  RIns <- RInsAll
  Slack = {0, 2}
  T = 6
INVARIANTS InputOK TypeOK SnapshotFirst Ordered UpdatesInOrderOnce IndexedRight OnlyOwn NoUpdateLostAcrossSnapshot OneNoticePerDrop NoticeNames
  FailedInitSilent Causal TimeOrdered BackoffClosedForm BackoffTimes WaitsClosedForm FirstFailure NoStreamSilent
  ResponsesOnce ResponsesExact NothingOverdue NeverEnds Exhausted
PROPERTIES Quiescent Progress
CHECK_DEADLOCK FALSE
