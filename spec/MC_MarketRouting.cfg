SPECIFICATION Spec
CONSTANTS
  NMarkets = 5
  Conns <- QuickConns
  KeyOffs = {2}
  PRICE = {6}
  AMOUNT = {5}
  TIME = {1}
  DupKinds = {0, 2}
  MaxBatch = 1
INVARIANTS TypeOK KeysDistinct
PROPERTIES Attribution RejectUnsubscribed FieldsPreserved Quiet
CHECK_DEADLOCK FALSE
