SPECIFICATION G16R
CONSTANTS
  Instr = {"i0", "i1", "i2", "i3"}
  Asset = {"a0", "a1", "a2", "a3", "a4", "a5"}
  PnLs <- PnLsWide
  Costs = {3, 4, 5, 10, 25}
  Bals = {1, 5, 7, 12}
  Vals = {}
  MaxClosed = 14
  MaxBal = 0
  MaxVals = 0
  Gaps <- GapsGen
  RFs <- RFsGen
  Ivs = {"Daily", "Annual252", "Annual365", "Hours2", "Days500"}
INVARIANT Emit16
CHECK_DEADLOCK FALSE
