SPECIFICATION TSpec
CONSTANTS
  Runs = {1}
  Params <- TraceParams
  OrderKinds = {"order", "balance", "trade"}
VIEW TView
INVARIANT Done
PROPERTIES TProps
POSTCONDITION Post
CHECK_DEADLOCK FALSE
