------------------------------ MODULE WireStream ------------------------------
(***************************************************************************)
(* One websocket connection, operationally (C12, wire level): how the      *)
(* frames of the exchange become the items of the connection.              *)
(*                                                                         *)
(* Code transcribed:                                                       *)
(*   barter-data/src/subscriber/validator.rs  WebSocketSubValidator::      *)
(*     validate: loop until success_responses = expected_responses;        *)
(*     a confirmation counts; any other text is buffered if at least one   *)
(*     confirmation was seen, else skipped                                 *)
(*                         -> ValidatorConfirm, ValidatorBuffer,           *)
(*                            ValidatorSkip, Validated                     *)
(*   barter-data/src/lib.rs  ExchangeWsStream::init: process_buffered_     *)
(*     events (parse + transform every buffered message, in order) becomes *)
(*     the initial buffer of the ExchangeStream        -> Validated        *)
(*   barter-integration/src/stream/mod.rs  ExchangeStream::poll_next:      *)
(*     pop_front of the buffer; else read a message: parse error -> Err    *)
(*     item, else transform and push_back every output                     *)
(*                         -> PopFront, RecvData, RecvGarbage, Close       *)
(* The property: what is delivered is always a prefix of Wire!WireBody     *)
(* (Conserve / Ordered at the wire level), and all of it once the socket   *)
(* closed.  Nothing is left nondeterministic.                              *)
(***************************************************************************)
EXTENDS Wire, FiniteSets, TLC

CONSTANTS MaxFrames,    \* frames per connection (confirmations included)
          MaxTrades,    \* trades per data frame: 1..MaxTrades
          Needs         \* possible numbers of subscriptions (= confirmations expected)

VARIABLES frames, need,   \* input
          i,              \* frames read from the socket
          confs,          \* success_responses
          validated,      \* init has returned the stream
          vbuf,           \* buff_active_subscription_events (raw frames)
          q,              \* ExchangeStream.buffer
          delivered,      \* items handed to the consumer
          closed

vars == <<frames, need, i, confs, validated, vbuf, q, delivered, closed>>

Shapes == {[t |-> "conf", n |-> 0], [t |-> "garbage", n |-> 1]} \cup {[t |-> "data", n |-> n] : n \in 1..MaxTrades}

RECURSIVE ShapeSeqs(_)
ShapeSeqs(n) == IF n = 0 THEN {<<>>}
                ELSE LET P == ShapeSeqs(n - 1) IN P \cup {Append(s, x) : s \in {p \in P : Len(p) = n - 1}, x \in Shapes}

Confs(s) == Cardinality({j \in 1..Len(s) : s[j].t = "conf"})
RECURSIVE Before(_, _)
Before(s, j) == IF j = 0 THEN 0 ELSE Before(s, j - 1) + s[j].n
\* every trade / garbage gets a value of its own, 1, 2, 3 ... in wire order
Numbered(s) == [j \in 1..Len(s) |-> [t |-> s[j].t, vs |-> [h \in 1..s[j].n |-> Before(s, j - 1) + h]]]

Init == /\ need \in Needs
        /\ frames \in {Numbered(s) : s \in {x \in ShapeSeqs(MaxFrames) : Confs(x) = need}}
        /\ i = 0 /\ confs = 0 /\ validated = FALSE /\ vbuf = <<>> /\ q = <<>> /\ delivered = <<>> /\ closed = FALSE

F == frames[i + 1]

ValidatorConfirm == /\ ~validated /\ confs < need /\ i < Len(frames) /\ F.t = "conf"
                    /\ confs' = confs + 1 /\ i' = i + 1
                    /\ UNCHANGED <<frames, need, validated, vbuf, q, delivered, closed>>
\* `_ => continue`: nothing is confirmed yet, the message cannot belong to an active subscription
ValidatorSkip == /\ ~validated /\ confs < need /\ i < Len(frames) /\ F.t # "conf" /\ confs = 0
                 /\ i' = i + 1
                 /\ UNCHANGED <<frames, need, confs, validated, vbuf, q, delivered, closed>>
\* `Deserialise {payload} if success_responses >= 1 => push`
ValidatorBuffer == /\ ~validated /\ confs < need /\ i < Len(frames) /\ F.t # "conf" /\ confs >= 1
                   /\ vbuf' = Append(vbuf, F) /\ i' = i + 1
                   /\ UNCHANGED <<frames, need, confs, validated, q, delivered, closed>>
\* process_buffered_events: parse + transform in order; what does not parse is logged and dropped
RECURSIVE Flatten(_)
Flatten(fs) == IF fs = <<>> THEN <<>>
               ELSE (IF Head(fs).t = "data" THEN WireElems(Head(fs)) ELSE <<>>) \o Flatten(Tail(fs))
\* all confirmations in: init returns, the buffered messages become the stream's initial buffer
Validated == /\ ~validated /\ confs = need
             /\ validated' = TRUE /\ q' = Flatten(vbuf) /\ vbuf' = <<>>
             /\ UNCHANGED <<frames, need, i, confs, delivered, closed>>
PopFront == /\ validated /\ q # <<>>
            /\ delivered' = Append(delivered, Head(q)) /\ q' = Tail(q)
            /\ UNCHANGED <<frames, need, i, confs, validated, vbuf, closed>>
RecvData == /\ validated /\ q = <<>> /\ i < Len(frames) /\ F.t = "data"
            /\ q' = WireElems(F) /\ i' = i + 1
            /\ UNCHANGED <<frames, need, confs, validated, vbuf, delivered, closed>>
RecvGarbage == /\ validated /\ q = <<>> /\ i < Len(frames) /\ F.t = "garbage"
               /\ delivered' = delivered \o WireElems(F) /\ i' = i + 1
               /\ UNCHANGED <<frames, need, confs, validated, vbuf, q, closed>>
Close == /\ validated /\ q = <<>> /\ i = Len(frames) /\ ~closed
         /\ closed' = TRUE
         /\ UNCHANGED <<frames, need, i, confs, validated, vbuf, q, delivered>>

Next == ValidatorConfirm \/ ValidatorSkip \/ ValidatorBuffer \/ Validated \/ PopFront \/ RecvData \/ RecvGarbage \/ Close
Spec == Init /\ [][Next]_vars /\ WF_vars(Next)

IsPrefix(a, b) == Len(a) <= Len(b) /\ a = SubSeq(b, 1, Len(a))
\* every item once, in order: what the consumer has is a prefix of the connection's body ...
WireConserve == IsPrefix(delivered, WireBody(frames, need))
\* ... what is delivered, queued and buffered is exactly the body of the frames read so far ...
WireNothingLost == delivered \o q \o Flatten(vbuf) = WireBody(SubSeq(frames, 1, i), need)
\* ... and all of it before the connection ends (the notice follows)
WireComplete == closed => delivered = WireBody(frames, need)
WireEnds == <>closed
=============================================================================
