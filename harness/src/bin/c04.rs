//! C04 - engine indices and exchange names translate both ways without mix-ups
//! (spec/Indexing.tla; driver shared with C11 in ../idx_shared.rs, FOCUS = C04).
#[path = "../idx_shared.rs"]
mod shared;

fn main() {
    shared::main("C04")
}
