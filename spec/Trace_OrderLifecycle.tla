------------------------ MODULE Trace_OrderLifecycle ------------------------
(* Trace validation (impl -> spec): every line recorded from the            *)
(* implementation must be a step OrderLifecycle allows.                     *)
(*   {"a":"Reset","post":state}              state forced by the harness    *)
(*   {<fields of Ev>, "post":state}          one call and the projected     *)
(*                                           implementation state after it  *)
(*   {"a":"Batch","evs":[ev..],"post":state} one full account snapshot      *)
(*                                           carrying several reports: the  *)
(*                                           reports applied in sequence    *)
(*   {"a":"Persist","post":state}            the table was serialised and    *)
(*                                           restored: the spec's stutter    *)
(* A line that is not a step of the spec is recorded in `bad` (so that one  *)
(* pass reports every rejected line) and the logged state is adopted.       *)
EXTENDS OrderLifecycle, Sequences, Json, IOUtils

Rec == ndJsonDeserialize(IOEnv.TRACE)

VARIABLES l, bad
tvars == <<orders, last, l, bad>>

ResetEvent == Ev("Reset", "", "", 0, 0, NoMeta, FALSE)
EvOf(r) == Ev(r.a, r.c, r.k, r.q, r.s, r.m, r.ok)
BatchEvent == Ev("Batch", "", "", 0, 0, NoMeta, FALSE)
PersistEvent == Ev("Persist", "", "", 0, 0, NoMeta, FALSE)
Single(r) == r.a # "Reset" /\ r.a # "Batch" /\ r.a # "Persist"
EvsOf(r) == [n \in 1..Len(r.evs) |-> EvOf(r.evs[n])]

StateOf(p) == [c \in CID |-> p[c]]

TInit == /\ l = 1
         /\ bad = <<>>
         /\ orders = [c \in CID |-> U]
         /\ last = NoEvent

TReset == /\ Rec[l].a = "Reset"
          /\ orders' = StateOf(Rec[l].post)
          /\ last' = ResetEvent
          /\ UNCHANGED bad

\* the same predicate as  Apply(e) /\ orders' = post
StepOK(e, post) == /\ post[e.c] \in Allowed(orders[e.c], e)
                   /\ \A c \in CID \ {e.c} : post[c] = orders[c]

TStepOK == /\ Single(Rec[l])
           /\ Apply(EvOf(Rec[l]))                       \* the spec's own action
           /\ orders' = StateOf(Rec[l].post)
           /\ UNCHANGED bad

TStepBad == /\ Single(Rec[l])
            /\ ~StepOK(EvOf(Rec[l]), StateOf(Rec[l].post))
            /\ orders' = StateOf(Rec[l].post)
            /\ last' = EvOf(Rec[l])
            /\ bad' = Append(bad, l)

\* one account snapshot = its reports in the delivered sequence (OrderLifecycle!Reach)
TBatch == /\ Rec[l].a = "Batch"
          /\ orders' = StateOf(Rec[l].post)
          /\ last' = BatchEvent
          /\ bad' = IF StateOf(Rec[l].post) \in Reach(orders, EvsOf(Rec[l]), 1) THEN bad ELSE Append(bad, l)

TPersist == /\ Rec[l].a = "Persist"
            /\ orders' = StateOf(Rec[l].post)
            /\ last' = PersistEvent
            /\ bad' = IF StateOf(Rec[l].post) = orders THEN bad ELSE Append(bad, l)

TNext == /\ l <= Len(Rec)
         /\ l' = l + 1
         /\ (TReset \/ TStepOK \/ TStepBad \/ TBatch \/ TPersist)

TSpec == TInit /\ [][TNext]_tvars

\* the C01 formulas, evaluated on every accepted step of the implementation
TProps == [][last'.a = "Reset" \/ last'.a = "Batch" \/ last'.a = "Persist" \/ bad' # bad \/ StepProps]_tvars

Done == l = Len(Rec) + 1 => PrintT(<<"TRACE_END", ToJson(bad)>>)
Post == PrintT(<<"TRACE_DONE", TLCGet("stats").diameter, Len(Rec)>>)
=============================================================================
