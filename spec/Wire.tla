--------------------------------- MODULE Wire ---------------------------------
(***************************************************************************)
(* What one websocket connection of a stateless, multi-output connector    *)
(* delivers (C12 at the wire level) - definitions only, no state.          *)
(*                                                                         *)
(* A connection is the sequence of frames the exchange sends after the     *)
(* subscribe request:                                                      *)
(*   [t |-> "conf",    vs |-> <<>>]          one subscription confirmation *)
(*   [t |-> "data",    vs |-> <<v1,..,vn>>]  one message carrying n trades *)
(*   [t |-> "garbage", vs |-> <<v>>]         a message that does not parse *)
(*                                           (a non-terminal error)        *)
(* followed by the close of the socket.  The connection's body - the       *)
(* `body` of Reconnect's InitOk outcome - is the concatenation, in frame   *)
(* order and within a frame in message order, of every frame received      *)
(* after the FIRST confirmation (the subscription validator discards what  *)
(* arrives before any subscription is confirmed - by design - and buffers  *)
(* what arrives while the remaining confirmations are outstanding).        *)
(* A message that does not parse is a non-terminal error ITEM only once    *)
(* the stream exists: while confirmations are outstanding the validator    *)
(* cannot tell it from any other non-confirmation message, and             *)
(* process_buffered_events logs and drops what it cannot parse (by design: *)
(* `inspect_err(warn!).ok()`), so such a frame is not part of the body.    *)
(***************************************************************************)
EXTENDS Naturals, Sequences

WireElems(f) == IF f.t = "garbage" THEN <<[k |-> "Err", v |-> f.vs[1], d |-> 0]>>
                ELSE IF f.t = "data" THEN [j \in 1..Len(f.vs) |-> [k |-> "Item", v |-> f.vs[j], d |-> 0]]
                ELSE <<>>

RECURSIVE WireBodyFrom(_, _, _, _)
WireBodyFrom(frames, need, i, confs) ==
    IF i > Len(frames) THEN <<>>
    ELSE IF frames[i].t = "conf" THEN WireBodyFrom(frames, need, i + 1, confs + 1)
    ELSE IF confs = 0 THEN WireBodyFrom(frames, need, i + 1, confs)
    ELSE IF frames[i].t = "garbage" /\ confs < need THEN WireBodyFrom(frames, need, i + 1, confs)
    ELSE WireElems(frames[i]) \o WireBodyFrom(frames, need, i + 1, confs)

\* need = the number of confirmations the validator waits for (one per subscription)
WireBody(frames, need) == WireBodyFrom(frames, need, 1, 0)

\* the script of Reconnect for a list of wire connections (each initialises, then closes)
WireScript(wire) == [j \in 1..Len(wire) |-> [ok |-> TRUE, lat |-> 0, ed |-> 0, body |-> WireBody(wire[j].frames, wire[j].need)]]
=============================================================================
