SPECIFICATION GSpecD
CONSTANTS
  NMarkets = 5
  Conns <- GenConns
  KeyOffs = {2}
  PRICE = {6}
  AMOUNT = {5}
  TIME = {1}
  DupKinds = {1, 2}
  MaxBatch = 1
  MaxLen = 6
INVARIANT Emit
CHECK_DEADLOCK FALSE
