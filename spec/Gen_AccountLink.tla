--------------------------- MODULE Gen_AccountLink ---------------------------
(* Scenario generation for the account-link harness (spec -> impl): random inputs of AccountLink,   *)
(* printed as JSON, one line per behaviour                                                           *)
(*   {"x": exchange under test, "cc": client constant, "pol": {b0,mult,max}, "T", "script": [...],   *)
(*    "reqs": [...]}                                                                                 *)
(* drawn with RandomElement from the bounded alphabets of MC_AccountLink (every draw bound once      *)
(* through a singleton set): up to MaxG connection attempts, bodies of up to two updates over own /  *)
(* shared / foreign names of both exchanges, latencies, silences, up to two requests.  Every printed *)
(* scenario is an input Init may choose (WellFormed = InputOK).  The harness executes the scenario   *)
(* on the real ExecutionManager::init + run; Trace_AccountLink validates what it records - TLC       *)
(* evaluating AccountLink is the oracle in both directions.                                          *)
EXTENDS MC_AccountLink, Json
CONSTANTS MaxG
VARIABLES gdone
gvars == <<vars, gdone>>

GShapes   == {OwnEarly, OwnLate, OwnLate3, ForLate, ForEarly, XidLate, ForLate3, BOwnEarly, BForLate, BForEarly}
GOutcomes == OutcomeShapes(GShapes, {<<0, 0>>, <<7, 0>>, <<0, 7>>, <<3, 4>>}, 7, {0, 3}, 2)
GPolicies == {[b0 |-> 100, mult |-> 3, max |-> 500], [b0 |-> 10, mult |-> 2, max |-> 15],
              [b0 |-> 50, mult |-> 1, max |-> 50], [b0 |-> 125, mult |-> 2, max |-> 60000]}
GReqs     == ReqListsOf({0, 8, 60, 150}, {0, 4, 49, -1}, 2)
\* the outcome of an attempt: half of them succeed (drawn by kind first - most outcome shapes are successful ones)
GKind(c) == IF c <= 5 THEN "ok" ELSE IF c <= 7 THEN "sfail" ELSE IF c <= 9 THEN "nfail" ELSE "nbad"
\* (the first attempt mostly succeeds: its failure is an error of ExecutionManager::init, no stream)
GKindAt(n, c) == IF n = 0 THEN (IF c <= 8 THEN "ok" ELSE IF c = 9 THEN "sfail" ELSE "nbad") ELSE GKind(c)
GOutcomesOf(r) == {o \in GOutcomes : o.r = r}
\* the client constant: mostly one that goes with the map
GClient(t, c) == IF c <= 4 THEN "mock" ELSE IF c <= 8 THEN t.xid ELSE IF t.xid = "kraken" THEN "binance_spot" ELSE "kraken"

GInit == /\ script = <<>> /\ policy = [b0 |-> 0, mult |-> 1, max |-> 0] /\ tab = TabK /\ cc = "none"
         /\ reqs = <<>> /\ rin = "BTCUSDT"
         /\ phase = "Init" /\ pos = 0 /\ k = 0 /\ early = 0 /\ cur = 0 /\ fails = 0
         /\ lt = 0 /\ live = 0 /\ wake = 0 /\ now = 0 /\ born = 0 /\ mgr = "none" /\ ended = FALSE
         /\ acc = {} /\ done = {} /\ out = <<>> /\ calls = <<>> /\ waits = <<>>
         /\ gdone = FALSE

\* one step: with probability 1/4 (and at MaxG attempts) the scenario is finished, else one more attempt is
\* appended; every draw is bound once
GStep == /\ ~gdone
         /\ \E stop \in {RandomElement(1..4)}, o \in {RandomElement(GOutcomesOf(GKindAt(Len(script), RandomElement(1..10))))},
               p \in {RandomElement(GPolicies)}, t \in {RandomElement(TabsBoth)}, c \in {RandomElement(1..9)},
               q \in {RandomElement(GReqs)} :
               IF Len(script) = MaxG \/ (stop = 1 /\ Len(script) >= 1)
               THEN /\ policy' = p /\ tab' = t /\ cc' = GClient(t, c) /\ reqs' = q
                    /\ script' = Numbered(script)
                    /\ gdone' = TRUE
               ELSE /\ script' = Append(script, o)
                    /\ UNCHANGED <<policy, tab, cc, reqs, gdone>>
         /\ UNCHANGED <<rin, linkv, reqv, lifev, now, out>>

GSpec == GInit /\ [][GStep]_gvars

WellFormed == gdone => InputOK
PrintScn == gdone => PrintT(<<"SCN", ToJson([x |-> tab.xid, cc |-> cc, pol |-> policy, T |-> T,
                                               script |-> script, reqs |-> reqs])>>)
=============================================================================
