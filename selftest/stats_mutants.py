#!/usr/bin/env python3
"""Binding self-test of the statistics checks C16 / C17 / C18: source mutants.

    selftest/stats_mutants.py                 all mutants, every one must give VIOLATION (exit 1)
    selftest/stats_mutants.py M4 M8           selected mutants
    selftest/stats_mutants.py --baseline      the scratch tree with only the F6 repair: all three must HOLD
    selftest/stats_mutants.py --clean         remove the scratch copies
    (VERIF_SEED is honoured)

Never touches /repo or /verif/harness: /repo is copied to /var/tmp/stats-repo, the harness to
/var/tmp/stats-harness (path dependencies rewritten), and the *unchanged* orchestration of
bin/props/cNN.py is run with vlib pointed at the scratch harness; evidence and replay files of
these runs go to /verif/work/stats-selftest (git-ignored).

C16 mutants are judged against a tree on which C16 holds: if /repo predates the repair of finding
F6 (TearSheetGenerator::generate: wins = total - losses, gross profit = total sum - loss sum), the
repair is applied to the scratch copy first.
"""
import importlib
import json
import os
import shutil
import subprocess
import sys

VERIF = os.path.dirname(os.path.dirname(os.path.abspath(__file__)))
REPO, HARN, OUT = "/var/tmp/stats-repo", "/var/tmp/stats-harness", os.path.join(VERIF, "work", "stats-selftest")
SRC = "barter/src/"

F6_FIX = (SRC + "statistic/summary/instrument.rs", [
    ("WinRate::calculate(self.pnl_returns.losses.count, self.pnl_returns.total.count);",
     "WinRate::calculate(self.pnl_returns.total.count - self.pnl_returns.losses.count, self.pnl_returns.total.count);"),
    ("ProfitFactor::calculate(self.pnl_returns.total.sum, self.pnl_returns.losses.sum);",
     "ProfitFactor::calculate(self.pnl_returns.total.sum - self.pnl_returns.losses.sum, self.pnl_returns.losses.sum);"),
])

# (id, property, file, old, new, what it breaks)
MUTANTS = [
    ("M1", "C17", SRC + "statistic/algorithm.rs", "false => recurrence_relation_m / count,",
     "false => recurrence_relation_m / (count - Decimal::ONE + Decimal::new(1, 9)),", "population variance divided by n-1"),
    ("M2", "C17", SRC + "statistic/algorithm.rs", "prev_m + ((new_value - prev_mean) * (new_value - new_mean))",
     "prev_m + ((new_value - new_mean) * (new_value - new_mean))", "Welford M uses the new mean twice"),
    ("M3", "C17", SRC + "statistic/summary/dataset/dispersion.rs", "if new_value < self.low {",
     "if new_value < self.low && new_value < self.high - self.high.abs() {", "range low misses some new minima (order dependent)"),
    ("M4", "C18", SRC + "statistic/metric/drawdown/mod.rs", "if point.value > peak {", "if point.value >= peak {",
     "a return exactly to the peak ends the drawdown"),
    ("M5", "C18", SRC + "statistic/metric/drawdown/max.rs", "if next_drawdown.value.abs() > current.0.value.abs() {",
     "if next_drawdown.value.abs() < current.0.value.abs() {", "max keeps the smallest drawdown"),
    ("M6", "C18", SRC + "statistic/metric/drawdown/mean.rs", "self.count as i64,", "self.count as i64 + 1,",
     "mean duration divides by count+1"),
    ("M7", "C18", SRC + "statistic/metric/drawdown/mod.rs", "self.drawdown_max = Decimal::ZERO;",
     "self.drawdown_max = self.drawdown_max * Decimal::ONE;", "depth not reset at a new peak"),
    ("M8", "C16", SRC + "statistic/summary/pnl.rs", "if pnl_return.is_sign_negative() {", "if pnl_return <= Decimal::ZERO {",
     "break-even positions counted as losses"),
    ("M9", "C16", SRC + "statistic/summary/pnl.rs", "self.pnl_raw += position.pnl_realised;",
     "self.pnl_raw += position.pnl_realised * position.quantity_abs_max;", "PnL scaled by quantity"),
    ("M10", "C16", SRC + "statistic/summary/mod.rs", ".get_index_mut(key.index())", ".get_index_mut(key.index() ^ 1)",
     "summary generator resolves an instrument index to the neighbouring key (first occurrence only)"),
    ("M11", "C16", SRC + "statistic/metric/profit_factor.rs", "} else if profits_gross_abs.is_zero() {",
     "} else if profits_gross_abs <= losses_gross_abs.abs() / Decimal::from(100) {", "profit factor MIN for small but non-zero profits"),
    ("M12", "C16", SRC + "engine/state/asset/mod.rs", "balance.value = snapshot.value().balance;\n            self.statistics.update_from_balance(snapshot);",
     "balance.value = snapshot.value().balance;", "asset tear sheet not fed after the first balance"),
]


def sh(cmd, **kw):
    return subprocess.run(cmd, shell=True, text=True, stdout=subprocess.PIPE, stderr=subprocess.STDOUT, **kw)


def prepare():
    os.makedirs(OUT, exist_ok=True)
    r = sh("rsync -a --delete --exclude target --exclude .git /repo/ %s/ && rsync -a --exclude target %s/harness/ %s/ && "
           "sed -i 's#\\.\\./\\.\\./repo/#%s/#' %s/Cargo.toml && find %s/src -name '*.rs' | xargs touch"
           % (REPO, VERIF, HARN, REPO, HARN, HARN))
    if r.returncode:
        sys.exit("cannot prepare scratch copies:\n" + r.stdout)
    # (finding F6 is repaired in /repo since 6e47554; on an older tree the repair is applied to the copy)
    present = open(os.path.join(REPO, F6_FIX[0])).read()
    edit(F6_FIX[0], [pr for pr in F6_FIX[1] if pr[0] in present])


def edit(rel, pairs):
    p = os.path.join(REPO, rel)
    s = open(p).read()
    for old, new in pairs:
        if old not in s:
            sys.exit("mutation site not found in %s: %s" % (rel, old))
        s = s.replace(old, new, 1)
    open(p, "w").write(s)


def run_check(pid):
    """the unchanged props/<pid>.check against the scratch harness, in a child process"""
    code = (
        "import sys, importlib; sys.path.insert(0, %r); import vlib\n"
        "vlib.HARNESS=%r; vlib.EVIDENCE=%r; vlib.VERIF=%r; vlib.KNOWN=%r\n"
        "mod = importlib.import_module('props.%s'); ctx = vlib.Ctx(%r, 'quick', %d)\n"
        "try:\n    sys.exit(mod.check(ctx))\nexcept vlib.ToolError as e:\n    print('TOOL-ERROR', e); sys.exit(2)\n"
    ) % (os.path.join(VERIF, "bin"), HARN, os.path.join(OUT, "evidence"), OUT, os.path.join(OUT, "none.txt"), pid.lower(), pid, int(os.environ.get("VERIF_SEED", "1")))
    r = subprocess.run([sys.executable, "-c", code], text=True, stdout=subprocess.PIPE, stderr=subprocess.STDOUT)
    lines = [l for l in r.stdout.splitlines() if l.startswith(("VIOLATION", "  ", "TOOL-ERROR", "[check] C"))]
    return r.returncode, lines


def main():
    a = sys.argv[1:]
    if "--clean" in a:
        shutil.rmtree(REPO, ignore_errors=True)
        shutil.rmtree(HARN, ignore_errors=True)
        shutil.rmtree(OUT, ignore_errors=True)
        return 0
    prepare()
    failed = []
    if "--baseline" in a:
        for pid in ("C16", "C17", "C18"):
            rc, lines = run_check(pid)
            print("baseline %s on the scratch tree: exit %d  %s" % (pid, rc, lines[-1] if lines else ""), flush=True)
            if rc != 0:
                failed.append(pid)
                print("\n".join(lines[:6]))
        return 1 if failed else 0
    chosen = [m for m in MUTANTS if not a or m[0] in a]
    for mid, pid, rel, old, new, what in chosen:
        backup = open(os.path.join(REPO, rel)).read()
        edit(rel, [(old, new)])
        try:
            rc, lines = run_check(pid)
        finally:
            open(os.path.join(REPO, rel), "w").write(backup)
        verdict = "caught" if rc == 1 else ("NOT CAUGHT" if rc == 0 else "tool error")
        print("%s %s [%s] %s: %s" % (mid, pid, rel.split("/")[-1], what, verdict), flush=True)
        for l in lines[:3]:
            print("     " + l[:260])
        if rc != 1:
            failed.append(mid)
    print("mutants not caught: %s" % (failed or "none"))
    return 1 if failed else 0


if __name__ == "__main__":
    sys.exit(main())
