"""C14 for ANY number of exchanges: spec/Connectivity.tla (the connectivity state machine of the engine state on its
own, one disjunct per code path of barter/src/engine/state/connectivity/mod.rs) and what ties it to the code.

  1. TLC, exhaustive, |EXCH| = 3 (quick) / 1..4 (thorough): TypeOK, ConnIff, ExactlyThatLink, DownMarks, HealedByNext,
     OnlyOwnEvents from Init, and the same from EVERY state of the invariant (the induction at fixed size); all eight
     code paths taken.  A deliberately wrong healing path (global from the item's exchange only) must be caught.
  2. TLAPS: spec/Connectivity_proofs.tla - Spec => [](TypeOK /\\ ConnIff) and the step properties for an ARBITRARY
     non-empty set EXCH.  Every obligation must be proved (tlapm --strict, fresh fingerprints).
  3. Apalache (thorough): the same induction with an SMT-based engine, all sizes 1..4 at once.
  4. Refinement (TLC): spec/EngineCore.tla - the specification the real Engine is bound to by recorded traces - implements
     Connectivity under  EXCH <- 0..2, global <- st.conn.global, link <- st.conn.ex : Conn!Spec, and per event the
     labelled step (a market item of exchange e IS Conn!MarketItem(e), ...), on the complete reachable connectivity
     graph ("deep"), on one step of every event from every connectivity state ("wide") and (thorough) on the existing
     bounded model.  The "deep" state graph must show every one of the eight Connectivity code paths on its edges.

Nothing here touches the implementation: a failure can only mean that a proof does not go through, or that the two
specifications disagree - both are TOOL ERRORS (exit 2) with a message that says which.  The C14 verdict about the code
comes from the trace stages (props/enginecore.py, composition.py, acctlink.py), which this stage connects to the proof."""
import os
import re
import shutil
import vlib

ARMS = ["MarketItemGlobalHealthy", "MarketItemLinkHealthy", "MarketItemHeals",
        "AccountItemGlobalHealthy", "AccountItemLinkHealthy", "AccountItemHeals", "MarketDown", "AccountDown"]
THEOREMS = ["THEOREM Invariance == Spec => []Inv", "THEOREM StepProps ==", "THEOREM StepPropsAlways ==",
            "LEMMA InitInv == Init => Inv", "LEMMA NextInv == Inv /\\ [Next]_vars => Inv'"]
ASSUMPTIONS = [
    "connectivity for any number of exchanges: at least one exchange (with none, the code starts and stays with global "
    "health Reconnecting although all - zero - links are healthy; such an engine has no instrument and receives no event); "
    "items / notices name an exchange of the engine state (another one panics by design)",
]


def _wrap(what, f, *a, **kw):
    try:
        return f(*a, **kw)
    except vlib.ToolError as e:
        raise vlib.ToolError("connectivity stage, %s\n%s" % (what, e))


def tlc_connectivity(ctx, sizes):
    for n in sizes:
        for cfg, what in (("MC_Connectivity_%d.cfg" % n, "from Init"), ("MC_Connectivity_ind_%d.cfg" % n, "from every state of the invariant")):
            res = _wrap("spec/Connectivity.tla does not satisfy its own properties at |EXCH| = %d (%s): a SPECIFICATION problem, "
                        "not a verdict about the code" % (n, what), ctx.tlc_mc, "Connectivity", cfg, timeout=300, workers=2)
            missing = [a for a in ARMS if res["actions"].get(a, 0) == 0]
            if missing:
                raise vlib.ToolError("connectivity stage: code path(s) %s of Connectivity never taken with %s (vacuous run)" % (missing, cfg))
    ctx.tlc_expect_violation("MC_Connectivity_neg", "MC_Connectivity_neg.cfg", "Invariant ConnIff is violated", timeout=300)


def tlaps(ctx):
    d = ctx.path("tlaps")
    shutil.rmtree(d, ignore_errors=True)
    os.makedirs(d)
    for f in ("Connectivity.tla", "Connectivity_proofs.tla"):
        shutil.copy(os.path.join(vlib.SPEC, f), d)
    with open(os.path.join(d, "Connectivity_proofs.tla")) as f:
        src = f.read()
    for t in THEOREMS:
        if t not in src:
            raise vlib.ToolError("connectivity stage: spec/Connectivity_proofs.tla no longer states `%s`" % t)
    if re.search(r"\b(OMITTED|ADMITTED)\b", src):
        raise vlib.ToolError("connectivity stage: spec/Connectivity_proofs.tla contains an OMITTED / ADMITTED proof")
    rc, out, dt = vlib.run(["timeout", "300", "tlapm", "--threads", "8", "--strict", "--cleanfp", "Connectivity_proofs.tla"], cwd=d, timeout=330)
    m = re.search(r"All (\d+) obligations? proved", out)
    if rc == 124:
        raise vlib.ToolError("connectivity stage: tlapm timed out after 300 s on Connectivity_proofs.tla (proof NOT established)")
    if rc != 0 or not m or "obligations failed" in out:
        with open(os.path.join(vlib.WORKROOT, "tlapm_failed_%d.log" % os.getpid()), "w") as f:
            f.write(out)
        tail = "\n".join(l for l in out.splitlines() if "ERROR" in l or "obligations" in l or l.startswith("File "))[-3000:]
        raise vlib.ToolError("connectivity stage: the TLAPS proof of Spec => [](TypeOK /\\ ConnIff) for an arbitrary set of exchanges "
                             "does NOT go through (rc=%d): spec/Connectivity.tla and spec/Connectivity_proofs.tla disagree, or a prover "
                             "problem - not a verdict about the code\n%s" % (rc, tail or out[-3000:]))
    rcv, ver, _ = vlib.run(["tlapm", "--version"], timeout=60)
    shutil.rmtree(d, ignore_errors=True)
    vlib.log("tlapm: all %s obligations of Connectivity_proofs proved in %.0fs" % (m.group(1), dt))
    return {"tool": "tlapm " + ver.strip().splitlines()[-1], "backends": "zenon / Z3 / Isabelle, PTL (ls4)", "module": "Connectivity_proofs",
            "theorems": ["Invariance: Spec => [](TypeOK /\\ ConnIff)", "StepProps: Inv /\\ [Next]_vars => ExactlyThatLinkA /\\ DownMarksA /\\ HealedByNextA /\\ OnlyOwnEventsA",
                         "StepPropsAlways: Spec => [][the four step properties]_vars"],
            "exchanges": "arbitrary non-empty set", "obligations_proved": int(m.group(1)), "obligations_failed": 0, "wall_s": round(dt, 2)}


APALACHE_RUNS = [("Init", "Inv", 0, "Init => Inv"), ("IndInit", "Inv", 1, "Inv /\\ Next => Inv'"),
                 ("IndInit", "StepInv", 1, "Inv /\\ Next => the four step properties")]


def apalache(ctx):
    d = ctx.path("apalache")
    shutil.rmtree(d, ignore_errors=True)
    os.makedirs(d)
    for f in ("Connectivity.tla", "MC_Connectivity_apa.tla"):
        shutil.copy(os.path.join(vlib.SPEC, f), d)
    runs = []
    for init, inv, length, what in APALACHE_RUNS:
        cmd = ["timeout", "600", "apalache-mc", "check", "--cinit=ConstInit", "--init=" + init, "--inv=" + inv, "--length=%d" % length,
               "--out-dir=" + os.path.join(d, "out"), "--run-dir=" + os.path.join(d, "run"), "MC_Connectivity_apa.tla"]
        rc, out, dt = vlib.run(cmd, cwd=d, timeout=660, env={"JVM_ARGS": "-Xmx4g"})
        if rc == 124:
            raise vlib.ToolError("connectivity stage: Apalache timed out after 600 s on `%s`" % what)
        if rc != 0 or "The outcome is: NoError" not in out or "EXITCODE: OK" not in out:
            with open(os.path.join(vlib.WORKROOT, "apalache_failed_%d.log" % os.getpid()), "w") as f:
                f.write(out)
            tail = "\n".join(l for l in out.splitlines() if re.search(r"violated|outcome|EXITCODE|rror", l))[-2500:]
            raise vlib.ToolError("connectivity stage: Apalache does not establish `%s` for |EXCH| <= 4 (rc=%d): a SPECIFICATION / tool problem, "
                                 "not a verdict about the code\n%s" % (what, rc, tail or out[-2500:]))
        ntr = re.findall(r"picking a transition out of (\d+) transition", out)
        runs.append({"obligation": what, "init": init, "inv": inv, "length": length, "symbolic_transitions": int(ntr[-1]) if ntr else None, "wall_s": round(dt, 2)})
        vlib.log("Apalache: %s holds for every 1 <= |EXCH| <= 4, %.0fs" % (what, dt))
    if runs[1]["symbolic_transitions"] != len(ARMS):
        raise vlib.ToolError("connectivity stage: Apalache found %s symbolic transitions, expected the %d code paths" % (runs[1]["symbolic_transitions"], len(ARMS)))
    rcv, ver, _ = vlib.run(["apalache-mc", "version"], timeout=120)
    shutil.rmtree(d, ignore_errors=True)
    return {"tool": "apalache-mc " + ver.strip().splitlines()[-1], "module": "MC_Connectivity_apa", "exchanges": "every non-empty subset of 4 exchanges (ConstInit)", "runs": runs}


def refinement(ctx):
    msg = ("spec/EngineCore.tla (st.conn, 3 exchanges) does NOT implement spec/Connectivity.tla on the %s model: the two SPECIFICATIONS "
           "disagree (the code is not involved) - the proof for any number of exchanges is then not about the transitions the engine is bound to")
    labels = ["R_" + a for a in ARMS] + ["R_OtherEvent"]
    counts = _wrap(msg % "deep (complete reachable connectivity graph)", ctx.tlc_actions, "MC_EngineCore_refines", "MC_EngineCore_refines_deep.cfg", labels, timeout=300)
    if counts.get("R_Broken", 0):
        raise vlib.ToolError("connectivity stage: " + msg % "deep" + " (%d R_Broken edges)" % counts["R_Broken"])
    wide = _wrap(msg % "wide (every event from every connectivity state)", ctx.tlc_mc, "MC_EngineCore_refines", "MC_EngineCore_refines_wide.cfg",
                 timeout=600, workers=6, coverage=False)
    out = {"mapping": "EXCH <- 0..2, global <- st.conn.global, link <- [e \\in 0..2 |-> st.conn.ex[e + 1]]",
           "properties": ["Conn!Spec (wide: Conn!IndSpec)", "Labelled (per event: the Connectivity action of that exchange)", "Conn!Inv", "Conn step properties"],
           "deep_edges_by_connectivity_code_path": {k: v for k, v in counts.items() if k.startswith("R_")},
           "wide_transitions": wide["states_generated"]}
    if not ctx.quick:
        b = _wrap(msg % "bounded (MC_EngineCore: MCEvents x MCEnvs, two steps)", ctx.tlc_mc, "MC_EngineCore_refines", "MC_EngineCore_refines_bounded.cfg",
                  timeout=1500, coverage=False)
        out["bounded_transitions"] = b["states_generated"]
    return out


def run(ctx):
    import time
    t0 = time.time()
    ctx.assumptions += ASSUMPTIONS
    cov = ctx.cov.setdefault("connectivity_any_number_of_exchanges", {})
    tlc_connectivity(ctx, [3] if ctx.quick else [1, 2, 3, 4])
    cov["tlc_sizes"] = [3] if ctx.quick else [1, 2, 3, 4]
    cov["refinement_EngineCore_implements_Connectivity"] = refinement(ctx)
    cov["tlaps"] = tlaps(ctx)
    if not ctx.quick:
        cov["apalache"] = apalache(ctx)
    cov["stage_wall_s"] = round(time.time() - t0, 1)
