-------------------------------- MODULE Clock --------------------------------
(***************************************************************************)
(* The engine clock (attached to C20: "the summary a back-test returns is   *)
(* computed from that engine alone" - every time the engine reports comes   *)
(* from its clock, and clones of one HistoricalClock SHARE their state).    *)
(*                                                                         *)
(* Code transcribed:                                                        *)
(*   barter/src/engine/clock.rs                                             *)
(*     HistoricalClock::new(seed)       -> New(h, seed)                     *)
(*     #[derive(Clone)] over Arc<..>    -> Clone(h, g): g aliases h's object*)
(*     Processor::process(&event)       -> Process(h, ev)                   *)
(*     EngineClock::time()              -> the read Time(h)                 *)
(*     impl TimeExchange for EngineEvent-> EventTime(ev), one disjunct per   *)
(*                                         arm, incl. the arms without time *)
(*   barter-execution/src/lib.rs   AccountSnapshot::time_most_recent        *)
(*                                      -> SnapshotTime(items)              *)
(*   barter-execution/src/order/state.rs OrderState::time_exchange          *)
(*                                      -> OrderStateTime(kind, t)          *)
(*                                                                         *)
(* A clock OBJECT is (ex, live): the greatest exchange time seen (or the    *)
(* seed) and the wall-clock instant at which that time was (last) adopted.  *)
(* HANDLES are the values a program holds; `obj` says which object a handle *)
(* refers to.  `wall` is the machine's wall clock (Utc::now()); it advances *)
(* by WallAdvance(d) and - an NTP step, the "edge case" of time() - may go  *)
(* back by WallBack(d).  The three severity bands of a late event (debug /  *)
(* warn / error) differ only in what is logged: one arm "ignored" here.     *)
(*                                                                         *)
(* Ghost components (not implementation state): gen = number of times the   *)
(* elapsed part of an object was (re)started (the binding uses it to know   *)
(* from which of its wall-clock measurements the elapsed part counts);      *)
(* seen = the seed and the times of all timed events processed through ANY  *)
(* handle of the object; origin[h] = the handle whose New began h's lineage.*)
(*                                                                         *)
(* time(): the code tests `delta.num_milliseconds() >= 0`, which truncates   *)
(* towards zero - a delta in (-1 ms, 0) is still added; in whole units (the  *)
(* specification's, and the millisecond of the recorded traces) that is the  *)
(* `Max(0, ..)` below.                                                       *)
(*                                                                         *)
(* Nondeterminism: none in the clock itself - given the wall-clock readings *)
(* the clock is a function of its inputs.  What is open is the environment: *)
(* which handle does what, when the wall clock moves and by how much (the   *)
(* binding measures the wall clock around every call and so only knows      *)
(* readings up to an interval - see Trace_Clock).                           *)
(***************************************************************************)
EXTENDS Integers, Sequences, FiniteSets, TLC

CONSTANTS HANDLES,     \* handle ids, 1..N
          TIMES,       \* exchange timestamps (naturals)
          MAXWALL,     \* wall clock readings 0..MAXWALL
          ITEMLISTS    \* the item lists full account snapshots may carry (sequences of [kind, t])

VARIABLES obj,      \* handle -> object id, 0 = handle not in use
          clk,      \* object id -> [ex, live, gen]   (ids 1..nobj)
          seen,     \* ghost: object id -> set of times
          origin,   \* ghost: handle -> handle whose New began its lineage (0 = not in use)
          nobj,     \* number of objects created
          wall,
          last      \* observation only: the step just taken (hidden from the state fingerprint by VIEW)
vars == <<obj, clk, seen, origin, nobj, wall, last>>

NoTime == -1
Max(a, b) == IF a >= b THEN a ELSE b
SetMax(S) == CHOOSE x \in S : \A y \in S : y <= x

(***************************************************************************)
(* The decision table: which exchange time does an event carry?             *)
(* An event is [kind, t, items]; t is the timestamp of the one timestamped  *)
(* payload the kind has (0 where the payload has none), items the item list *)
(* of a full account snapshot (<<>> otherwise).                             *)
(***************************************************************************)
OrderKinds == {"OrderOpenInFlight", "OrderOpen", "OrderCancelInFlightOpen", "OrderCancelInFlightNone",
               "OrderCancelled", "OrderFullyFilled", "OrderOpenFailed", "OrderExpired"}

\* OrderState::time_exchange
OrderStateTime(kind, t) ==
  CASE kind = "OrderOpenInFlight"       -> NoTime        \* Active(OpenInFlight)
    [] kind = "OrderOpen"               -> t             \* Active(Open)
    [] kind = "OrderCancelInFlightOpen" -> t             \* Active(CancelInFlight{order: Some(open)})
    [] kind = "OrderCancelInFlightNone" -> NoTime        \* Active(CancelInFlight{order: None})
    [] kind = "OrderCancelled"          -> t             \* Inactive(Cancelled)
    [] kind = "OrderFullyFilled"        -> NoTime        \* Inactive(FullyFilled)
    [] kind = "OrderOpenFailed"         -> NoTime        \* Inactive(OpenFailed)
    [] kind = "OrderExpired"            -> NoTime        \* Inactive(Expired)

ItemTime(it) == IF it.kind = "Balance" THEN it.t ELSE OrderStateTime(it.kind, it.t)

\* AccountSnapshot::time_most_recent: the greatest time among the orders that have one and the balances
SnapshotTime(items) ==
  LET ts == {ItemTime(items[k]) : k \in DOMAIN items} \ {NoTime}
  IN IF ts = {} THEN NoTime ELSE SetMax(ts)

TimedKinds   == {"MarketItem", "Balance", "OrderOpen", "OrderCancelInFlightOpen", "OrderCancelled", "CancelOk", "Trade"}
UntimedKinds == {"MarketReconnecting", "AccountReconnecting", "OrderOpenInFlight", "OrderCancelInFlightNone",
                 "OrderFullyFilled", "OrderOpenFailed", "OrderExpired", "CancelErr", "Shutdown", "Command", "TradingState"}
EventKinds   == TimedKinds \cup UntimedKinds \cup {"Snapshot"}

\* impl TimeExchange for EngineEvent
EventTime(ev) ==
  CASE ev.kind = "MarketItem"          -> ev.t                              \* Market(Item(e)) -> e.time_exchange
    [] ev.kind = "MarketReconnecting"  -> NoTime                            \* Market(Reconnecting) (the `_` arm)
    [] ev.kind = "AccountReconnecting" -> NoTime                            \* Account(Reconnecting) (the `_` arm)
    [] ev.kind = "Snapshot"            -> SnapshotTime(ev.items)            \* Snapshot -> time_most_recent()
    [] ev.kind = "Balance"             -> ev.t                              \* BalanceSnapshot
    [] ev.kind \in OrderKinds          -> OrderStateTime(ev.kind, ev.t)     \* OrderSnapshot -> state.time_exchange()
    [] ev.kind = "CancelOk"            -> ev.t                              \* OrderCancelled, state Ok(cancelled)
    [] ev.kind = "CancelErr"           -> NoTime                            \* OrderCancelled, state Err(_)
    [] ev.kind = "Trade"               -> ev.t                              \* Trade
    [] ev.kind = "Shutdown"            -> NoTime                            \* the `_` arm
    [] ev.kind = "Command"             -> NoTime                            \* the `_` arm
    [] ev.kind = "TradingState"        -> NoTime                            \* the `_` arm

Ev(kind, t)   == [kind |-> kind, t |-> t, items |-> <<>>]
SnapEv(items) == [kind |-> "Snapshot", t |-> 0, items |-> items]
Events == {Ev(k, t) : k \in TimedKinds, t \in TIMES} \cup {Ev(k, 0) : k \in UntimedKinds}
          \cup {SnapEv(items) : items \in ITEMLISTS}

(***************************************************************************)
(* The clock object as a function of its inputs                             *)
(***************************************************************************)
\* HistoricalClock::new at wall reading `now`
Fresh(seed, now) == [ex |-> seed, live |-> now, gen |-> 0]

\* Processor::process for an event whose table entry is `t`, at wall reading `now`
Processed(c, t, now) ==
  IF t = NoTime THEN c                                                   \* no timestamp: return
  ELSE IF t >= c.ex THEN [ex |-> t, live |-> now, gen |-> c.gen + 1]      \* `>=`: adopt, restart the elapsed part
  ELSE c                                                                 \* older: logged (debug/warn/error), ignored

\* how an event whose table entry is `t` relates to the time object c holds
Relation(c, t) == IF t = NoTime THEN "untimed" ELSE IF t > c.ex THEN "newer" ELSE IF t = c.ex THEN "equal" ELSE "late"

\* EngineClock::time of object c read at wall reading `now`: the delta is added only if it is not negative
TimeOf(c, now) == c.ex + Max(0, now - c.live)

InUse(h) == obj[h] # 0
Time(h)  == TimeOf(clk[obj[h]], wall)

(***************************************************************************)
(* Actions.  The *At forms take the wall reading as a parameter (the trace  *)
(* specification supplies measured readings); the plain forms read `wall`.  *)
(***************************************************************************)
NoEvent == Ev("-", 0)
\* a step: a = the action, h = the handle it goes through, g = the new handle of Clone, ev = the event of Process,
\* n = the seed of New / the d of WallAdvance, WallBack
Step(a, h, g, ev, n) == [a |-> a, h |-> h, g |-> g, ev |-> ev, n |-> n]

Init == /\ obj = [h \in HANDLES |-> 0]
        /\ clk = <<>>
        /\ seen = <<>>
        /\ origin = [h \in HANDLES |-> 0]
        /\ nobj = 0
        /\ wall = 0
        /\ last = Step("Init", 0, 0, NoEvent, 0)

NewAt(h, seed, now) ==
  /\ ~InUse(h)
  /\ nobj' = nobj + 1
  /\ obj' = [obj EXCEPT ![h] = nobj + 1]
  /\ clk' = Append(clk, Fresh(seed, now))
  /\ seen' = Append(seen, {seed})
  /\ origin' = [origin EXCEPT ![h] = h]

CloneAt(h, g) ==
  /\ InUse(h) /\ ~InUse(g)
  /\ obj' = [obj EXCEPT ![g] = obj[h]]                   \* the Arc is shared: no new object
  /\ origin' = [origin EXCEPT ![g] = origin[h]]
  /\ UNCHANGED <<clk, seen, nobj>>

ProcessAt(h, ev, now) ==
  /\ InUse(h)
  /\ LET o == obj[h] t == EventTime(ev) IN
       /\ clk' = [clk EXCEPT ![o] = Processed(@, t, now)]
       /\ seen' = [seen EXCEPT ![o] = IF t = NoTime THEN @ ELSE @ \cup {t}]
  /\ UNCHANGED <<obj, origin, nobj>>

New(h, seed)   == NewAt(h, seed, wall) /\ UNCHANGED wall /\ last' = Step("New", h, 0, NoEvent, seed)
Clone(h, g)    == CloneAt(h, g) /\ UNCHANGED wall /\ last' = Step("Clone", h, g, NoEvent, 0)
Process(h, ev) == ProcessAt(h, ev, wall) /\ UNCHANGED wall /\ last' = Step("Process", h, 0, ev, 0)
WallAdvance(d) == /\ wall + d <= MAXWALL /\ wall' = wall + d /\ UNCHANGED <<obj, clk, seen, origin, nobj>>
                  /\ last' = Step("WallAdvance", 0, 0, NoEvent, d)
WallBack(d)    == /\ wall - d >= 0 /\ wall' = wall - d /\ UNCHANGED <<obj, clk, seen, origin, nobj>>
                  /\ last' = Step("WallBack", 0, 0, NoEvent, d)

DoNew     == \E h \in HANDLES, s \in TIMES : New(h, s)
DoClone   == \E h, g \in HANDLES : Clone(h, g)
DoProcess == \E h \in HANDLES, ev \in Events : Process(h, ev)
DoAdvance == \E d \in 1..MAXWALL : WallAdvance(d)
DoBack    == \E d \in 1..MAXWALL : WallBack(d)

Next == DoNew \/ DoClone \/ DoProcess \/ DoAdvance \/ DoBack
Spec == Init /\ [][Next]_vars

(***************************************************************************)
(* The properties                                                           *)
(***************************************************************************)
Objects == 1..nobj
Used == {h \in HANDLES : InUse(h)}

TypeOK == /\ \A h \in HANDLES : obj[h] \in 0..nobj /\ (obj[h] = 0 <=> origin[h] = 0)
          /\ Len(clk) = nobj /\ Len(seen) = nobj
          /\ \A o \in Objects : clk[o].ex \in TIMES /\ seen[o] \subseteq TIMES /\ seen[o] # {}

\* the exchange time held is the greatest of the seed and of the times of all timed events processed
\* through ANY handle of the object
ExLastIsMax == \A o \in Objects : clk[o].ex = SetMax(seen[o])

\* a reading is never below the exchange time held (whatever the wall clock does) ...
TimeNotBelowEx == \A h \in Used : Time(h) >= clk[obj[h]].ex
\* ... and adds exactly the wall time elapsed since the last (re)start when that is positive
TimeAddsElapsed == \A h \in Used : LET c == clk[obj[h]] IN wall >= c.live => Time(h) = c.ex + (wall - c.live)

\* the exchange time held never decreases; objects are never lost
MonotoneA == /\ nobj' >= nobj
             /\ \A o \in Objects : clk'[o].ex >= clk[o].ex /\ clk'[o].gen >= clk[o].gen
Monotone == [][MonotoneA]_vars

\* (the step properties read the step just taken from last')
Proc == last'.a = "Process"
PH == last'.h                      \* the handle the step went through
PT == EventTime(last'.ev)          \* the table's answer for the processed event
TimeNext(h) == TimeOf(clk'[obj'[h]], wall')      \* the reading of handle h after the step

\* an event older than the time held changes nothing (no band of lateness does)
LateIgnoredA == (Proc /\ PT # NoTime /\ PT < clk[obj[PH]].ex) => clk' = clk
LateIgnored == [][LateIgnoredA]_vars

\* an event without a timestamp changes nothing
UntimedIgnoredA == (Proc /\ PT = NoTime) => (clk' = clk /\ seen' = seen)
UntimedIgnored == [][UntimedIgnoredA]_vars

\* an event newer than the time held is adopted and the elapsed part restarts: the reading IS the event's time
NewerAdoptedA == (Proc /\ PT > clk[obj[PH]].ex) => TimeNext(PH) = PT
NewerAdopted == [][NewerAdoptedA]_vars

\* `>=`: an event whose time EQUALS the time held restarts the elapsed part (the reading falls back to that time)
EqualTimeRestartsElapsedA ==
  (Proc /\ PT = clk[obj[PH]].ex) =>
      /\ clk'[obj[PH]].ex = clk[obj[PH]].ex
      /\ clk'[obj[PH]].live = wall
      /\ clk'[obj[PH]].gen = clk[obj[PH]].gen + 1
      /\ TimeNext(PH) = PT
EqualTimeRestartsElapsed == [][EqualTimeRestartsElapsedA]_vars

\* two handles refer to one object iff they descend from the same New (one was cloned - directly or through
\* clones - from the other or both from a third); handles of separate New are independent ...
SharedIffCloned == \A h, g \in Used : (obj[h] = obj[g]) <=> (origin[h] = origin[g])
\* ... observably: processing through h moves exactly the readings of h's lineage, all of them alike
ObservedSharingA ==
  Proc => \A g \in Used : IF origin[g] = origin[PH] THEN TimeNext(g) = TimeNext(PH)
                          ELSE TimeNext(g) = Time(g)
ObservedSharing == [][ObservedSharingA]_vars
\* a clone starts as an exact alias, a new clock reads its seed; neither touches any other reading
CloneNewA == /\ last'.a = "Clone" => (TimeNext(last'.g) = Time(last'.h) /\ \A k \in Used : TimeNext(k) = Time(k))
             /\ last'.a = "New" => (TimeNext(last'.h) = last'.n /\ \A k \in Used : TimeNext(k) = Time(k))
CloneNew == [][CloneNewA]_vars

\* model-checking aids: gen is a ghost counter (unbounded), hidden from the state fingerprint
View == <<obj, [o \in 1..nobj |-> <<clk[o].ex, clk[o].live>>], seen, origin, nobj, wall>>
=============================================================================
