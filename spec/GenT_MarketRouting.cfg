SPECIFICATION GSpec
CONSTANTS
  NMarkets = 5
  Conns <- GenConns
  KeyOffs = {0, 2}
  PRICE = {6}
  AMOUNT = {5}
  TIME = {1}
  MaxBatch = 1
  MaxLen = 2
INVARIANT Emit
CHECK_DEADLOCK FALSE
