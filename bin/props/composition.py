"""The REAL composition (SystemBuilder: engine + TWO traded exchanges, each with its own request channel, ExecutionManager and
MockExchange behind a MockExecution client + merged account feed + market stream, HistoricalClock, balances seeded through the
builder; in three runs out of four a THIRD, DATA-ONLY exchange - instruments indexed, market items and disconnect notices, no
execution link - that sorts first / in the middle / last in ExchangeId order) driven by
harness/src/bin/system.rs and validated against spec/BarterSystem.tla (requests answered exactly once,
in flight => resolved at quiescence, the disconnect notice of a killed execution link, market notices of every tracked
exchange, the connectivity view) and
spec/Freshness.tla (seeded and exchange-delivered balances). One set of runs, several verdicts:
each property reports only its own tags."""
import json

import vlib

# manager_down: an execution manager that stopped serving its request channel on its own (nothing handed to it can be answered)
C07_TAGS = {"request_never_answered", "answer_without_request", "in_flight_never_resolved", "manager_down"}
# disconnect notices (account and market stream, traded and data-only exchanges): noticed once, counted, on-disconnect invoked
# exactly once for the right exchange; the connectivity view per tracked exchange and globally
C14_TAGS = {"link_down_notice", "link_down_count", "conn_view", "on_disconnect_calls", "market_notice_count", "market_unknown_exchange"}
# an account event that comes back in the name of another exchange than the one the request was addressed to; a request or an
# account item in the name of an exchange without execution link; a manager that was handed a request for a key that is not its own
# wrong_instrument_name: an exchange was addressed by a name that is not the run's universe's name of the instrument (the first run
# of a check builds TWO systems in one process: same shape, other market names - a map kept from the first shows in the second)
C04_TAGS = {"wrong_exchange", "wrong_instrument_name"}
# the System API hands exactly the commands it was given to the engine, in order (cancel-orders / close-positions with their filter);
# request_not_sent: a command was handed over and processed, but a request it had to produce for a TRADED exchange was not handed to
# that exchange's link (BarterSystem has no such step); request_for_data_only: a command made a request for an instrument of the
# data-only exchange (the driver only sends FILTER commands that match those instruments, which hold no order and no position)
C19_TAGS = {"command_fidelity", "request_not_sent", "request_for_data_only"}


def corruptions(keep):
    """Self-test of the binding, on every run: copies of recorded run segments with ONE field changed by hand - TLC must reject
    exactly that line with the stated tag.  Returns [(segment lines, index of the corrupted line, expected tag, what)]."""
    segs = []
    for l in keep:
        if l.get("a") == "Reset":
            segs.append([])
        if segs:
            segs[-1].append(l)
    specs = [
        ("on_disconnect_calls", "a market disconnect notice without its on-disconnect invocation",
         lambda l: l.get("a") == "MktDown", lambda l: dict(l, calls=[])),
        ("conn_view", "global health negated in one engine view",
         lambda l: l.get("a") == "State", lambda l: dict(l, **{"global": not l["global"]})),
        ("request_not_sent", "a request for a traded exchange reported as not handed to its link",
         lambda l: l.get("a") == "SendOpen", lambda l: {"a": "SendFail", "c": l["c"], "x": l["x"], "k": "open", "why": "no_link", "foreign": []}),
        ("wrong_exchange", "an execution manager that was handed a request for a key that is not its own",
         lambda l: l.get("a") == "Quiescent", lambda l: dict(l, down=["kraken"], foreign=["kraken"])),
        ("wrong_instrument_name", "an open rejected by the exchange for an instrument name it does not know",
         lambda l: l.get("a") == "Process" and l.get("kind") == "open_filled", lambda l: dict(l, kind="open_failed", why="instrument_invalid")),
        ("market_notice_count", "one market notice more put into the stream than the engine processed",
         lambda l: l.get("a") == "LinkDownCount",
         lambda l: dict(l, mnotices=dict(l.get("mnotices", {}), kraken=l.get("mnotices", {}).get("kraken", 0) + 1))),
    ]
    out = []
    for tag, what, pred, change in specs:
        for seg in segs:
            i = next((i for i, l in enumerate(seg) if pred(l)), None)
            if i is not None:
                c = list(seg[:i + 2])     # (up to the corrupted line and the engine view that follows it)
                c[i] = change(seg[i])
                out.append((c, i, tag, what))
                break
    return out


def run(ctx, own_tags, runs=None, fresh=False):
    ctx.build("system")
    runs = runs or (6 if ctx.quick else 60)
    merged, merged_f = ctx.path("trace_system.ndjson"), ctx.path("trace_system_fresh.ndjson")
    n_lines = 0
    stats = {}
    if own_tags & C14_TAGS:
        # C14 on the specification with a data-only exchange and the market stream of every tracked exchange (SpecMkt):
        # ConnMatchesLinks, DataOnlyAccountDown, NeverGloballyHealthy, Noticed / Synced for both kinds of link, OnDisconnectExact
        ctx.tlc_mc("BarterSystem", "MC_BarterSystem_dataonly.cfg" if ctx.quick else "MC_BarterSystem_dataonly_thorough.cfg", timeout=900)
    with open(merged, "w") as f, open(merged_f, "w") as ff:
        for k in range(runs):
            out, outf = ctx.path("trace_system_%d.ndjson" % k), ctx.path("trace_system_fresh_%d.ndjson" % k)
            # (run 0: the same process then builds a second, small system over a universe of the same shape under other names)
            out2 = ctx.path("trace_system_%d_second.ndjson" % k)
            info = ctx.harness("system", "record", "--seed", ctx.seed * 100 + k, "--rounds", 80 if ctx.quick else 120,
                               "--latency", k % 4, "--out", out, "--fresh-out", outf, *(["--out2", out2] if k == 0 else []), timeout=300)
            stats["runs_data_only_" + str(info.get("data_only_position"))] = stats.get("runs_data_only_" + str(info.get("data_only_position")), 0) + 1
            for c in ("market_notices", "market_notices_data_only", "market_items_data_only", "filter_commands_matching_data_only",
                      "on_disconnect_calls", "commands_spanning_both_exchanges", "links_killed"):
                stats[c] = stats.get(c, 0) + int(info.get(c, 0))
            # (the exchanges the run's engine tracks, in index order: the traded ones and the data-only one)
            f.write(json.dumps({"a": "Reset", "run": k, "universe": 1, "exch": info.get("exchanges", []), "names": info.get("names", [])}) + "\n")
            for l in ctx.read_trace(out):
                f.write(json.dumps(l) + "\n")
                n_lines += 1
            for l in ctx.read_trace(outf):
                l["run"] = k
                ff.write(json.dumps(l) + "\n")
            if "second" in info:
                sec = info["second"]
                stats["second_systems_in_one_process"] = stats.get("second_systems_in_one_process", 0) + 1
                stats["second_system_opens_filled"] = stats.get("second_system_opens_filled", 0) + int(sec.get("opens_filled", 0))
                f.write(json.dumps({"a": "Reset", "run": k, "universe": 2, "exch": sec.get("exchanges", []), "names": sec.get("names", [])}) + "\n")
                for l in ctx.read_trace(out2):
                    f.write(json.dumps(l) + "\n")
                    n_lines += 1
    rp = {"kind": "system", "seed": ctx.seed}
    if own_tags:
        # (an anomaly that belongs to another property's verdict is not this check's business)
        lines = [l for l in ctx.read_trace(merged) if not (l.get("a") == "Anomaly" and l.get("tag") and l["tag"] not in own_tags)]
        clean = ctx.path("clean_system.ndjson")
        found, keep = ctx.screen_anomalies(lines, clean, lambda l: l.get("anomaly"))
        for n, d, seg in found:
            tag = lines[n - 1].get("tag")
            ctx.violation("composition:anomaly" + (":" + tag if tag else ""), "real system run: %s [line %d]" % (d, n), dict(rp, run=seg[0].get("run")))
        # ... followed by hand-corrupted copies of recorded segments, which TLC must reject (same TLC run)
        n_real, expected = len(keep), []
        with open(clean, "a") as f:
            at = n_real
            for seg, i, tag, what in corruptions(keep):
                for l in seg:
                    f.write(json.dumps(l) + "\n")
                expected.append((at + i + 1, tag, what))
                at += len(seg)
        n, bad, _ = ctx.tlc_trace("Trace_BarterSystem", "Trace_BarterSystem.cfg", clean)
        for line, tag, what in expected:
            if tag not in ctx.last_tags.get(line, []):
                raise vlib.ToolError("composition self-test: a corrupted trace (%s) was not rejected with '%s' at line %d (got %s)" % (
                    what, tag, line, ctx.last_tags.get(line)))
        bad = [b for b in bad if b <= n_real]
        foreign = 0
        for b in bad:
            tags = set(ctx.last_tags.get(b, ["unconsumed"]))
            own = tags & (set(own_tags) | {"unconsumed"})
            if not own:
                foreign += 1      # e.g. engine_view: the engine's own order bookkeeping (C01 / C03)
                continue
            seg = ctx.segment(keep, b)
            ctx.violation("composition:" + "+".join(sorted(own)),
                          "real system (SystemBuilder + MockExchange): %s at %s - not a behaviour of BarterSystem.tla [run %s, line %d]" % (
                              sorted(own), json.dumps(keep[b - 1]), seg[0].get("run"), b), dict(rp, run=seg[0].get("run")))
        ctx.cov["composition"] = dict(stats, runs=runs, lines=n_lines, rejected_lines_owned_by_other_properties=foreign,
                                      corrupted_segments_rejected=[t for _, t, _ in expected])
    if fresh:
        lines = ctx.read_trace(merged_f)
        clean = ctx.path("clean_system_fresh.ndjson")
        found, keep = ctx.screen_anomalies(lines, clean, lambda l: l.get("anomaly"))
        for n, d, seg in found:
            ctx.violation("composition:seeded-balance", "real system run: %s [line %d]" % (d, n), dict(rp, run=seg[0].get("run")))
        n, bad, _ = ctx.tlc_trace("Trace_Freshness", "Trace_Freshness_sys.cfg", clean)
        for b in bad:
            line = keep[b - 1]
            ctx.violation("composition:balance:" + "+".join(ctx.last_tags.get(b, ["unconsumed"])),
                          "real system: balance messages %s -> engine holds %s: not allowed by Freshness [run %s, line %d]" % (
                              json.dumps(line.get("ms")), json.dumps(line.get("post")), line.get("run"), b), dict(rp, run=line.get("run")))
        ctx.cov["composition_freshness"] = {"runs": runs, "lines": len(keep)}
    ctx.cov["traces_validated_against_impl"] += runs
