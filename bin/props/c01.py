"""C01 - active-order tracking follows the documented lifecycle (spec/OrderLifecycle.tla)."""
import json
import vlib

MODULE = "OrderLifecycle"
ASSUMPTIONS = [
    "reports about a tracked order carry the quantity of the request (the execution manager copies it)",
    "equal exchange timestamps: the spec allows keeping or replacing (DESIGN 5.4)",
    "a stale 'open' report with nothing left to fill may be ignored or may untrack the order",
    "client order ids are unique across instruments (engine mode places c1 on instrument 0, c2 on instrument 1 (one exchange) and c3 on instrument 2 (another exchange))",
]


def anomaly(line):
    post = line.get("post")
    if not isinstance(post, dict) or "panic" in post:
        return "the call panicked: %s" % (post.get("panic") if isinstance(post, dict) else post)
    for c, v in post.items():
        if not isinstance(v, dict):
            return "order %s is %s in the implementation state (foreign key / wrong instrument)" % (c, v)
        if not isinstance(v["m"].get("t"), int):
            return "order %s holds the exchange timestamp %s: no report carried it (timestamps of this driver have microseconds)" % (c, json.dumps(v["m"].get("t")))
        if v.get("s") == 99 or not isinstance(v.get("q"), int) or not isinstance(v["m"].get("f"), int):
            return "order %s holds a mixture of fields no request or report carried: %s" % (c, v)
    return None


def signature(pre, line):
    c = line["c"]
    cur, post = pre[c], line["post"][c]
    rel = "-"
    if line["m"]["has"]:
        if not cur["m"]["has"]:
            rel = "first"
        else:
            rel = "newer" if cur["m"]["t"] < line["m"]["t"] else ("tie" if cur["m"]["t"] == line["m"]["t"] else "older")
    full = "full" if line["a"] == "Snap" and line["k"] == "Open" and line["m"]["f"] == line["q"] else "part"
    others = "" if all(pre[o] == line["post"][o] for o in pre if o != c) else "+other-order-changed"
    return "%s:%s%s:%s:%s:%s->%s%s" % (cur["k"], line["a"], "/" + line["k"] if line["k"] else "",
                                     rel, full if line["a"] == "Snap" and line["k"] == "Open" else "-",
                                     "ok" if line.get("ok") else "-", post["k"], others)


def validate(ctx, trace_path, mode, label):
    lines = ctx.read_trace(trace_path)
    clean = ctx.path("clean_" + label.replace("/", "_") + ".ndjson")
    found, keep = ctx.screen_anomalies(lines, clean, anomaly)
    for n, d, seg in found:
        ctx.violation("anomaly:" + d.split(":")[0], "%s [%s, line %d]" % (d, label, n),
                      {"mode": mode, "scenario": scenario_of(seg)})
    n, bad, truncated = ctx.tlc_trace("Trace_" + MODULE, "Trace_" + MODULE + ".cfg", clean)
    for b in bad:
        seg = ctx.segment(keep, b)
        line = keep[b - 1]
        pre = seg[-2]["post"] if len(seg) >= 2 else None
        if line.get("a") == "Persist":
            ctx.violation("persist:changed", "storing and restoring the order table (serde round trip) changed it: %s -> %s [%s, line %d]" % (
                json.dumps(pre), json.dumps(line["post"]), label, b), {"mode": mode, "scenario": scenario_of(seg)})
            continue
        if line.get("a") == "Batch":
            evs = line["evs"]
            changed = sorted(c for c in line["post"] if not pre or pre.get(c) != line["post"][c])
            sig = "batch:" + ",".join("%s/%s" % (e["c"], e["k"]) for e in evs) + "->" + ",".join(
                "%s=%s" % (c, line["post"][c]["k"] if isinstance(line["post"][c], dict) else "?") for c in sorted(line["post"]))
            ctx.violation(sig, "one account snapshot carrying the reports %s from %s left %s: not the result of applying them "
                          "in the delivered sequence (OrderLifecycle!Reach) [%s, line %d; changed: %s]" % (
                              json.dumps(evs), json.dumps(pre), json.dumps(line["post"]), label, b, changed),
                          {"mode": mode, "scenario": scenario_of(seg)})
            continue
        sig = signature(pre, line) if pre and line.get("a") != "Reset" else "unconsumed"
        desc = "order %s in state %s, event %s -> implementation state %s is not allowed by OrderLifecycle [%s, line %d]" % (
            line.get("c"), json.dumps(pre[line["c"]]) if pre else "?", json.dumps({k: line[k] for k in ("a", "k", "q", "s", "m", "ok") if k in line}),
            json.dumps(line["post"].get(line.get("c"))), label, b)
        ctx.violation(sig, desc, {"mode": mode, "scenario": scenario_of(seg)})
    ctx.cov["traces_validated_against_impl"] += sum(1 for l in keep if l.get("a") == "Reset")
    return n


def scenario_of(seg):
    return {"init": seg[0]["post"], "evs": [{k: v for k, v in l.items() if k != "post"} for l in seg[1:]]}


def check(ctx):
    ctx.assumptions += ASSUMPTIONS
    ctx.build("c01")
    ctx.tlc_mc(MODULE, "MC_OrderLifecycle.cfg" if ctx.quick else "MC_OrderLifecycle_thorough.cfg", timeout=1500)
    # (i) every single-id transition of the decision tables
    p_t, scn_t = ctx.tlc_gen("Gen_" + MODULE, "GenT_OrderLifecycle.cfg", "transitions.ndjson")
    # (ii) simulated behaviours over three ids
    nb = 400 if ctx.quick else 6000
    p_b, scn_b = ctx.tlc_gen("Gen_" + MODULE, "GenB_OrderLifecycle.cfg", "behaviours.ndjson", simulate=(nb, 30), timeout=900)
    ctx.sample({"kind": "TLC transition scenario", "scenario": scn_t[len(scn_t) // 2]})
    ctx.sample({"kind": "TLC simulated behaviour", "scenario": scn_b[0]})
    steps = 6000 if ctx.quick else 150000
    for mode in ("orders", "engine"):
        for label, scn in (("transitions", p_t), ("behaviours", p_b)):
            out = ctx.path("trace_%s_%s.ndjson" % (label, mode))
            ctx.harness("c01", "run", "--scenarios", scn, "--out", out, "--mode", mode)
            validate(ctx, out, mode, label + "/" + mode)
            ctx.cov["scenarios_replayed"] += len(scn_t) if label == "transitions" else len(scn_b)
        out = ctx.path("trace_random_%s.ndjson" % mode)
        ctx.harness("c01", "random", "--seed", ctx.seed, "--steps", steps, "--out", out, "--mode", mode,
                    "--tmax", 4 if mode == "orders" else 7)
        validate(ctx, out, mode, "random/" + mode)
    return ctx.finish()


def replay(ctx, rp):
    ctx.build("c01")
    scn = ctx.path("replay_scn.ndjson")
    with open(scn, "w") as f:
        f.write(json.dumps(rp["scenario"]) + "\n")
    out = ctx.path("replay_trace.ndjson")
    ctx.harness("c01", "run", "--scenarios", scn, "--out", out, "--mode", rp["mode"])
    validate(ctx, out, rp["mode"], "replay")
    return ctx.finish(write_evidence=False)
