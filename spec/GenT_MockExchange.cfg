SPECIFICATION GSpec
CONSTANTS
  Times = {1}
  Prices = {1, 2}
  Qtys = {1, 2, 3}
  BalInit = {0, 300, 600}
  FeePcts = {0, 50}
  Lats = {2}
  Sinces = {0, 2}
  OpenCids = {}
  MaxTrades = 1
  ClockSlack = FALSE
  IdSlack = 0
  MaxLen = 1
INVARIANT Emit
CHECK_DEADLOCK FALSE
