---------------------------- MODULE Gen_Drawdown ----------------------------
(* Behaviour generation for the C18 conformance harness (Pattern B): every  *)
(* behaviour of Drawdown is printed as one JSON line; each point carries    *)
(* the figures the REFERENCE decomposition of the curve so far defines.     *)
(*  GSpec  exhaustive: every curve of exactly MaxLen points (its prefixes   *)
(*         are the shorter curves; every step carries its own expectation)  *)
(*  GSpecR simulation: RandomElement draws gap and value, one successor.    *)
(* exp = [peak, emitted, cur,  max, mean   - reported so far (completed)    *)
(*        fin_max, fin_mean                - after ONE generate() fold of   *)
(*                                           the current drawdown]          *)
EXTENDS Drawdown, Json, TLC
VARIABLES hist, done
gvars == <<curve, gen, emitted, seen, sess, last, hist, done>>

DDJ(d)  == [value |-> RJ(d.value), start |-> d.start, end |-> d.end]
OptJ(o) == IF o.has THEN DDJ(o.d) ELSE "none"
MaxJ(S) == IF S = {} THEN "none"
           ELSE LET M == ByPeak(MaxSet(S)) IN [anyOf |-> [k \in 1..Len(M) |-> DDJ(M[k])]]
MeanJ(S) == IF S = {} THEN "none"
            ELSE LET m == MeanOf(S) IN [count |-> m.count, value |-> RJ(m.value), dur |-> RJ(m.dur)]
ExpJ(c) == [peak     |-> [v |-> Peak(c).v, t |-> Peak(c).t],
            emitted  |-> OptJ(EmittedBy(c)),
            cur      |-> OptJ(Current(c)),
            max      |-> MaxJ(Reported(c)),
            mean     |-> MeanJ(Reported(c)),
            fin_max  |-> MaxJ(ReportedFin(c)),
            fin_mean |-> MeanJ(ReportedFin(c))]
\* read: the harness READS the current drawdown on the live generator after this point (ReadCurrent);
\* by ReadingIsPure no later expectation depends on it
\* persist: the harness stores and restores the generators after this point (Persist, a stutter);
\* reset: a Reset preceded this point - it is the first of a new session and exp is the decomposition
\* of the points since then
StepJ(c, rd, ps, fed) == [t |-> c[Len(c)].t, v |-> c[Len(c)].v, read |-> rd, persist |-> ps,
                          reset |-> (Len(c) = 1 /\ fed > 1), exp |-> ExpJ(c)]

GInit == Init /\ hist = <<>> /\ done = FALSE

GStep == /\ ~done /\ sess.fed < MaxLen
         /\ \E g \in Gaps, v \in AllValues : (Len(curve) = 0 => v > 0) /\ AddPoint(Now + g, v)
         /\ hist' = Append(hist, StepJ(curve', FALSE, FALSE, sess'.fed))
         /\ UNCHANGED done

\* simulation: now and then a session ends (Reset) before the next point
GResetR == /\ ~done /\ sess.fed < MaxLen /\ ResetAny
           /\ RandomElement(1..3) = 1
           /\ UNCHANGED <<hist, done>>

GStepR == /\ ~done /\ sess.fed < MaxLen
          \* draws bound through singleton sets (notes/HOWTO.md "TLC pitfalls")
          /\ \E g \in {RandomElement(Gaps)}, rd \in {RandomElement(BOOLEAN)}, ps \in {RandomElement(BOOLEAN)},
                v \in {RandomElement(IF Len(curve) = 0 THEN {x \in AllValues : x > 0} ELSE AllValues)} :
                /\ AddPoint(Now + g, v)
                /\ hist' = Append(hist, StepJ(curve', rd, ps, sess'.fed))
          /\ UNCHANGED done

GFinish == /\ ~done /\ sess.fed = MaxLen
           /\ done' = TRUE
           /\ UNCHANGED <<curve, gen, emitted, seen, sess, last, hist>>

GSpec  == GInit /\ [][GStep \/ GFinish]_gvars
GSpecR == GInit /\ [][GStepR \/ GResetR \/ GFinish]_gvars

Emit == done => PrintT(<<"SCN", ToJson([pts |-> hist])>>)
=============================================================================
