//! C12 — reconnecting streams and `merge` (spec/Reconnect.tla, spec/Merge.tla).
//!
//! `c12 run    --scenarios f.ndjson --out trace.ndjson --results r.ndjson`
//!     every scenario `{mode, pol, script[, exp]}` (TLC generated) becomes the `init` of a scripted
//!     exchange and is consumed through the REAL `barter_data::streams::consumer::init_market_stream`
//!     (init_reconnecting_stream -> with_reconnect_backoff -> with_termination_on_error(DataError::
//!     is_terminal) -> with_reconnection_events) on a paused-clock current-thread runtime.
//!       direct run : the stream is consumed in place (mode "handler": + with_error_handler); one
//!                    trace line per spec action, stamped in virtual ms -> Trace_Reconnect.tla
//!       forward run: `tokio::spawn(stream.forward_to(tx))` -> UnboundedRx (-> with_error_handler),
//!                    as streams/builder does; must show the same observations as the direct run
//!       and, when the scenario carries `exp`, the direct run must show what the spec expects.
//! `c12 random --seed S --n N --out trace.ndjson --results r.ndjson`
//!     the same with seeded random long scripts (latencies, silences, long failure runs).
//! `c12 wire --scenarios f.ndjson --out trace.ndjson` / `c12 wire-random --seed S --n N --out ..`
//!     WIRE LEVEL: `{mode, pol, wire:[{need, frames}]}` - the real OKX public-trades connector (only its
//!     url replaced) runs `init_market_stream` against a loopback websocket exchange that plays the
//!     scripted frames of every connection (data before / between / after the per-subscription
//!     confirmations, multi-trade frames, garbage) and closes -> Trace_Reconnect.tla (ResetWire)
//! `c12 merge-run --scenarios f.ndjson --out trace.ndjson` / `c12 merge-random --seed S --n N --out ..`
//!     drives the REAL `barter_integration::stream::merge::merge` over two mpsc_unbounded channels with
//!     the given schedule of sends / closes / polls (manual polls) -> Trace_Merge.tla
use async_trait::async_trait;
use barter_data::{
    Identifier, MarketStream, NoInitialSnapshots,
    error::DataError,
    event::MarketEvent,
    exchange::{Connector, StreamSelector},
    streams::{
        consumer::{MarketStreamResult, init_market_stream},
        reconnect::{
            Event,
            stream::{ReconnectingStream, ReconnectionBackoffPolicy},
        },
    },
    subscriber::{WebSocketSubscriber, validator::WebSocketSubValidator},
    subscription::{Subscription, SubscriptionKind},
};
use barter_instrument::{
    exchange::ExchangeId,
    instrument::market_data::{MarketDataInstrument, kind::MarketDataInstrumentKind},
};
use barter_integration::{
    Validator,
    channel::{Tx, UnboundedRx, UnboundedTx, mpsc_unbounded},
    error::SocketError,
    protocol::websocket::WsMessage,
    stream::merge::merge,
};
use futures::{Stream, StreamExt};
use rand::Rng;
use serde::{Deserialize, Serialize};
use serde_json::{Value, json};
use std::{
    pin::Pin,
    sync::{Arc, Mutex},
    task::{Context, Poll},
    time::Duration,
};
use vh::util::*;

// ---------------------------------------------------------------------------------------------
// the scripted exchange: a Connector whose MarketStream::init is the scenario's script
// ---------------------------------------------------------------------------------------------
#[derive(Clone, Default, Debug, PartialEq, Eq, PartialOrd, Ord, Deserialize, Serialize)]
struct Scripted;

struct Name(String);
impl AsRef<str> for Name {
    fn as_ref(&self) -> &str {
        &self.0
    }
}
struct Chan(Name);
impl AsRef<str> for Chan {
    fn as_ref(&self) -> &str {
        self.0.as_ref()
    }
}
struct Mkt(Name);
impl AsRef<str> for Mkt {
    fn as_ref(&self) -> &str {
        self.0.as_ref()
    }
}

#[derive(Debug, Deserialize)]
struct Resp;
impl Validator for Resp {
    fn validate(self) -> Result<Self, SocketError> {
        Ok(self)
    }
}

impl Connector for Scripted {
    const ID: ExchangeId = ExchangeId::Mock;
    type Channel = Chan;
    type Market = Mkt;
    type Subscriber = WebSocketSubscriber;
    type SubValidator = WebSocketSubValidator;
    type SubResponse = Resp;
    fn url() -> Result<url::Url, SocketError> {
        Ok(url::Url::parse("ws://127.0.0.1:1/").expect("url"))
    }
    fn requests(_: Vec<barter_data::exchange::subscription::ExchangeSub<Self::Channel, Self::Market>>) -> Vec<WsMessage> {
        vec![]
    }
}

#[derive(Debug, Clone, PartialEq, Eq, PartialOrd, Ord)]
struct ScriptKind;
impl SubscriptionKind for ScriptKind {
    type Event = i64;
    fn as_str(&self) -> &'static str {
        "scripted"
    }
}
impl std::fmt::Display for ScriptKind {
    fn fmt(&self, f: &mut std::fmt::Formatter<'_>) -> std::fmt::Result {
        write!(f, "scripted")
    }
}

type Sub = Subscription<Scripted, MarketDataInstrument, ScriptKind>;
impl Identifier<Chan> for Sub {
    fn id(&self) -> Chan {
        Chan(Name("scripted".into()))
    }
}
impl Identifier<Mkt> for Sub {
    fn id(&self) -> Mkt {
        Mkt(Name("btc_usdt".into()))
    }
}

impl StreamSelector<MarketDataInstrument, ScriptKind> for Scripted {
    type SnapFetcher = NoInitialSnapshots;
    type Stream = Body;
}

type Ev = MarketEvent<MarketDataInstrument, i64>;
type OutEv = MarketStreamResult<MarketDataInstrument, i64>;

fn instrument() -> MarketDataInstrument {
    MarketDataInstrument::from(("btc", "usdt", MarketDataInstrumentKind::Spot))
}

/// One connection: delivers its scripted body, then ends.
struct Body(Pin<Box<dyn Stream<Item = Result<Ev, DataError>> + Send>>);

impl Stream for Body {
    type Item = Result<Ev, DataError>;
    fn poll_next(mut self: Pin<&mut Self>, cx: &mut Context<'_>) -> Poll<Option<Self::Item>> {
        self.0.as_mut().poll_next(cx)
    }
}

#[derive(Clone, Debug)]
struct El {
    k: String,
    v: i64,
    d: u64,
}
#[derive(Clone, Debug)]
struct Outcome {
    ok: bool,
    lat: u64,
    ed: u64,
    body: Vec<El>,
}

fn element(e: &El) -> Result<Ev, DataError> {
    match e.k.as_str() {
        "Item" => Ok(MarketEvent {
            time_exchange: time(0),
            time_received: time(0),
            exchange: ExchangeId::Mock,
            instrument: instrument(),
            kind: e.v,
        }),
        // non-terminal and terminal as the production classifier `DataError::is_terminal` sees them
        "Err" => Err(DataError::Socket(format!("e{}", e.v))),
        "Term" => Err(DataError::InvalidSequence { prev_last_update_id: e.v as u64, first_update_id: 0 }),
        k => usage(&format!("bad element kind {k}")),
    }
}

impl Body {
    fn new(o: Outcome) -> Self {
        let s = futures::stream::unfold((o, 0usize), |(o, i)| async move {
            if i < o.body.len() {
                let e = o.body[i].clone();
                if e.d > 0 {
                    tokio::time::sleep(Duration::from_millis(e.d)).await;
                }
                Some((element(&e), (o, i + 1)))
            } else {
                if o.ed > 0 {
                    tokio::time::sleep(Duration::from_millis(o.ed)).await;
                }
                None
            }
        })
        .fuse();
        Body(Box::pin(s))
    }
}

/// What the init closure and the consumer share for the scenario being run.
struct Run {
    script: Vec<Outcome>,
    next: usize,
    prev_failed: bool,
    last_ret: u64,
    start: Option<tokio::time::Instant>,
    log: Vec<Value>, // trace lines, in the order things happened
    calls: Vec<u64>,
    waits: Vec<u64>,
}

impl Run {
    fn ms(&self) -> u64 {
        (tokio::time::Instant::now() - self.start.expect("clock started")).as_millis() as u64
    }
}

static RUN: Mutex<Option<Run>> = Mutex::new(None);

fn with_run<T>(f: impl FnOnce(&mut Run) -> T) -> T {
    let mut g = RUN.lock().unwrap_or_else(|p| p.into_inner());
    f(g.as_mut().expect("a scenario is running"))
}

/// One trace line = one action of spec/Reconnect.tla (`Reset` lines additionally carry the input:
/// mode, pol, script).
fn line(a: &str, k: &str, v: i64, at: u64, via: &str) -> Value {
    json!({"a": a, "k": k, "v": v, "at": at, "via": via})
}

#[async_trait]
impl MarketStream<Scripted, MarketDataInstrument, ScriptKind> for Body {
    /// The scripted `init`: logs the instant of its own call (and, when the previous call failed,
    /// that the back-off sleep is over), then takes as long as scripted and succeeds, fails, or -
    /// once the script is exhausted - pends for ever.
    async fn init<SnapFetcher>(_: &[Sub]) -> Result<Self, DataError>
    where
        SnapFetcher: barter_data::SnapshotFetcher<Scripted, ScriptKind>,
        Sub: Identifier<Chan> + Identifier<Mkt>,
    {
        let (idx, outcome) = with_run(|r| {
            let t = r.ms();
            if r.prev_failed {
                r.log.push(line("Wait", "", 0, t, ""));
                r.waits.push(t - r.last_ret);
            }
            r.log.push(line("InitCall", "", 0, t, ""));
            r.calls.push(t);
            let idx = r.next;
            r.next += 1;
            (idx, r.script.get(idx).cloned())
        });
        let Some(o) = outcome else {
            futures::future::pending::<()>().await;
            unreachable!()
        };
        if o.lat > 0 {
            tokio::time::sleep(Duration::from_millis(o.lat)).await;
        }
        with_run(|r| {
            r.prev_failed = !o.ok;
            r.last_ret = r.ms();
        });
        if o.ok { Ok(Body::new(o)) } else { Err(DataError::Socket(format!("init-fail-{idx}"))) }
    }
}

// ---------------------------------------------------------------------------------------------
// projection: an output of the composed stream -> the spec's observation (kind, value)
// ---------------------------------------------------------------------------------------------
fn project_err(e: &DataError) -> (&'static str, i64) {
    match e {
        DataError::Socket(s) if s.starts_with('e') => ("Err", s[1..].parse().unwrap_or(-1)),
        DataError::InvalidSequence { prev_last_update_id, .. } => ("Term", *prev_last_update_id as i64),
        _ => ("Foreign", -1),
    }
}

fn project(ev: &OutEv) -> (&'static str, i64) {
    match ev {
        Event::Reconnecting(origin) => ("Notice", if *origin == ExchangeId::Mock { 0 } else { -1 }),
        Event::Item(Ok(me)) => ("Item", me.kind),
        Event::Item(Err(e)) => project_err(e),
    }
}

fn project_handled(ev: &Event<ExchangeId, Ev>) -> (&'static str, i64) {
    match ev {
        Event::Reconnecting(origin) => ("Notice", if *origin == ExchangeId::Mock { 0 } else { -1 }),
        Event::Item(me) => ("Item", me.kind),
    }
}

#[derive(Default, Debug, Clone, PartialEq)]
struct Obs {
    status: String, // quiet | nostream | ended | runaway | panic
    out: Vec<(String, i64, String, u64)>,
    calls: Vec<u64>,
    waits: Vec<u64>,
}

impl Obs {
    fn untimed(&self) -> Vec<(String, i64, String)> {
        self.out.iter().map(|(k, v, via, _)| (k.clone(), *v, via.clone())).collect()
    }
    fn json(&self) -> Value {
        json!({"status": self.status,
               "out": self.out.iter().map(|(k, v, via, at)| json!({"k": k, "v": v, "via": via, "at": at})).collect::<Vec<_>>(),
               "calls": self.calls, "waits": self.waits})
    }
}

struct Scenario {
    mode: String,
    pol: (u64, u64, u64),
    script: Vec<Outcome>,
    raw: Value,
}

fn parse_scenario(v: &Value) -> Scenario {
    let script = v["script"]
        .as_array()
        .expect("script")
        .iter()
        .map(|o| Outcome {
            ok: b(o, "ok"),
            lat: i(o, "lat") as u64,
            ed: i(o, "ed") as u64,
            body: o["body"].as_array().expect("body").iter().map(|e| El { k: s(e, "k").to_string(), v: i(e, "v"), d: i(e, "d") as u64 }).collect(),
        })
        .collect();
    let p = &v["pol"];
    Scenario {
        mode: s(v, "mode").to_string(),
        pol: (i(p, "b0") as u64, i(p, "mult") as u64, i(p, "max") as u64),
        script,
        raw: json!({"mode": v["mode"], "pol": v["pol"], "script": v["script"]}),
    }
}

fn quiet_after(scn: &Scenario) -> Duration {
    // longer than any silence the script or the policy can legitimately produce
    let longest = scn.script.iter().map(|o| o.lat + o.ed + o.body.iter().map(|e| e.d).sum::<u64>()).max().unwrap_or(0);
    // ... including a whole run of failed re-initialisations, during which the stream delivers nothing
    let (mut fail_run, mut fail_longest) = (0u64, 0u64);
    for o in &scn.script {
        fail_run = if o.ok { 0 } else { fail_run + o.lat + scn.pol.2.max(scn.pol.0) };
        fail_longest = fail_longest.max(fail_run);
    }
    Duration::from_millis(10 * (scn.pol.2.max(scn.pol.0) + longest + 1000) + 2 * fail_longest)
}

fn event_cap(scn: &Scenario) -> usize {
    2 * scn.script.iter().map(|o| o.body.len() + 2).sum::<usize>() + 16
}

fn start_run(scn: &Scenario) {
    *RUN.lock().unwrap_or_else(|p| p.into_inner()) = Some(Run {
        script: scn.script.clone(),
        next: 0,
        prev_failed: false,
        last_ret: 0,
        start: None,
        log: vec![],
        calls: vec![],
        waits: vec![],
    });
}

fn runtime() -> tokio::runtime::Runtime {
    // what `#[tokio::main(flavor = "current_thread", start_paused = true)]` builds
    tokio::runtime::Builder::new_current_thread().enable_all().start_paused(true).build().expect("runtime")
}

fn subs() -> Vec<Sub> {
    vec![Subscription::new(Scripted, instrument(), ScriptKind)]
}

fn policy(scn: &Scenario) -> ReconnectionBackoffPolicy {
    ReconnectionBackoffPolicy { backoff_ms_initial: scn.pol.0, backoff_multiplier: scn.pol.1 as u8, backoff_ms_max: scn.pol.2 }
}

type Handled = Pin<Box<dyn Stream<Item = (&'static str, i64)>>>;

/// Consume `stream` until it stays silent for `quiet` (virtual) - the script is exhausted and init
/// pends -, it ends, or it runs away. Observations go to the shared log in the order they happen.
async fn consume(mut stream: Handled, quiet: Duration, cap: usize) -> &'static str {
    let mut n = 0usize;
    loop {
        match tokio::time::timeout(quiet, stream.next()).await {
            Err(_) => return "quiet",
            Ok(None) => return "ended",
            Ok(Some((k, v))) => {
                with_run(|r| {
                    let t = r.ms();
                    r.log.push(line("Emit", k, v, t, "stream"));
                });
                n += 1;
                if n > cap {
                    return "runaway";
                }
            }
        }
    }
}

fn handler() -> impl Fn(DataError) + 'static {
    |e: DataError| {
        let (k, v) = project_err(&e);
        with_run(|r| {
            let t = r.ms();
            r.log.push(line("Emit", k, v, t, "handler"));
        })
    }
}

/// One execution of the scenario; `forward` = through forward_to + channel as the stream builder does.
fn execute(scn: &Scenario, forward: bool, variant: usize) -> (Obs, Vec<Value>) {
    start_run(scn);
    let quiet = quiet_after(scn);
    let cap = event_cap(scn);
    let handled = scn.mode == "handler";
    let pol = policy(scn);
    let status = catch(|| {
        let rt = runtime();
        let st = rt.block_on(async move {
            with_run(|r| r.start = Some(tokio::time::Instant::now()));
            let stream = match tokio::time::timeout(quiet, init_market_stream(pol, subs())).await {
                Err(_) => return "quiet",
                Ok(Err(_)) => return "nostream",
                Ok(Ok(stream)) => stream,
            };
            if !forward {
                let s: Handled = if handled {
                    Box::pin(stream.with_error_handler(handler()).map(|ev| project_handled(&ev)))
                } else {
                    Box::pin(stream.map(|ev| project(&ev)))
                };
                consume(s, quiet, cap).await
            } else {
                let (tx, rx): (UnboundedTx<OutEv>, UnboundedRx<OutEv>) = mpsc_unbounded();
                let task = tokio::spawn(stream.forward_to(tx));
                let s: Handled = match (handled, variant % 2) {
                    (true, 0) => Box::pin(rx.into_stream().with_error_handler(handler()).map(|ev| project_handled(&ev))),
                    (true, _) => Box::pin(rx.with_error_handler(handler()).map(|ev| project_handled(&ev))),
                    (false, 0) => Box::pin(rx.into_stream().map(|ev| project(&ev))),
                    (false, _) => Box::pin(StreamExt::map(rx, |ev| project(&ev))),
                };
                let st = consume(s, quiet, cap).await;
                task.abort();
                st
            }
        });
        drop(rt);
        st
    });
    let run = RUN.lock().unwrap_or_else(|p| p.into_inner()).take().expect("run");
    let mut obs = Obs { status: status.unwrap_or("panic").to_string(), calls: run.calls, waits: run.waits, ..Default::default() };
    for l in &run.log {
        if l["a"] == "Emit" {
            obs.out.push((s(l, "k").to_string(), i(l, "v"), s(l, "via").to_string(), i(l, "at") as u64));
        }
    }
    (obs, run.log)
}

fn expected_mismatch(exp: &Value, obs: &Obs) -> Option<String> {
    let status = match s(exp, "status") {
        "Pend" => "quiet",
        "NoStream" => "nostream",
        x => usage(&format!("bad expected status {x}")),
    };
    if status != obs.status {
        return Some(format!("status: expected {status}, got {}", obs.status));
    }
    let want: Vec<(String, i64, String)> =
        exp["out"].as_array().expect("out").iter().map(|o| (s(o, "k").to_string(), i(o, "v"), s(o, "via").to_string())).collect();
    let got = obs.untimed();
    for n in 0..want.len().max(got.len()) {
        if want.get(n) != got.get(n) {
            return Some(format!("out[{n}]: expected {:?}, got {:?}", want.get(n), got.get(n)));
        }
    }
    if i(exp, "ncalls") as usize != obs.calls.len() {
        return Some(format!("ncalls: expected {}, got {} (at {:?})", i(exp, "ncalls"), obs.calls.len(), obs.calls));
    }
    let waits: Vec<u64> = exp["waits"].as_array().expect("waits").iter().map(|w| w.as_u64().expect("wait")).collect();
    if waits != obs.waits {
        return Some(format!("waits: expected {waits:?}, got {:?}", obs.waits));
    }
    None
}

fn forward_mismatch(direct: &Obs, fwd: &Obs) -> Option<String> {
    if direct.status != fwd.status {
        return Some(format!("status: direct {}, forwarded {}", direct.status, fwd.status));
    }
    let (a, bb) = (direct.untimed(), fwd.untimed());
    for n in 0..a.len().max(bb.len()) {
        if a.get(n) != bb.get(n) {
            return Some(format!("out[{n}]: direct {:?}, forwarded {:?}", a.get(n), bb.get(n)));
        }
    }
    if direct.calls != fwd.calls {
        return Some(format!("calls: direct {:?}, forwarded {:?}", direct.calls, fwd.calls));
    }
    if fwd.out.windows(2).any(|w| w[0].3 > w[1].3) {
        return Some("forwarded stamps go backwards".to_string());
    }
    None
}

fn run_scenarios(scns: &[Value], out: &mut Out, res: &mut Out) -> Value {
    let (mut bad_exp, mut bad_fwd, mut events) = (0usize, 0usize, 0usize);
    for (n, raw) in scns.iter().enumerate() {
        let scn = parse_scenario(raw);
        // which Stream face of the channel the forwarded run reads (a replay file pins it)
        let variant = raw.get("variant").and_then(|v| v.as_u64()).map(|v| v as usize).unwrap_or(n);
        let (direct, log) = execute(&scn, false, variant);
        let mut reset = line("Reset", "", 0, 0, "");
        reset["mode"] = scn.raw["mode"].clone();
        reset["pol"] = scn.raw["pol"].clone();
        reset["script"] = scn.raw["script"].clone();
        out.line(&reset);
        for l in &log {
            out.line(l);
        }
        out.line(&line("Stop", &direct.status, 0, 0, ""));
        events += direct.out.len();
        let (fwd, _) = execute(&scn, true, variant);
        let e1 = raw.get("exp").and_then(|exp| expected_mismatch(exp, &direct));
        let e2 = forward_mismatch(&direct, &fwd);
        bad_exp += e1.is_some() as usize;
        bad_fwd += e2.is_some() as usize;
        let ok = e1.is_none() && e2.is_none();
        let mut r = json!({"scn": n, "ok": ok});
        if !ok {
            r["what"] = json!(if e1.is_some() { "direct-vs-spec" } else { "forward-vs-direct" });
            r["error"] = json!(e1.or(e2));
            r["scenario"] = scn.raw.clone();
            r["direct"] = direct.json();
            r["forwarded"] = fwd.json();
        }
        res.line(&r);
    }
    json!({"scenarios": scns.len(), "mismatch_expected": bad_exp, "mismatch_forward": bad_fwd, "events": events})
}

fn random_scenario(rng: &mut rand::rngs::StdRng) -> Value {
    const POLICIES: [(u64, u64, u64); 6] = [(100, 3, 500), (125, 2, 60000), (50, 1, 50), (10, 2, 80), (1, 3, 1000), (7, 2, 7)];
    let pol = POLICIES[rng.random_range(0..POLICIES.len())];
    let len = rng.random_range(4..=24);
    let mut script = vec![];
    let mut v = 0;
    let mut run_fail = 0;
    // now and then one VERY long run of failed re-initialisations (longer than the 58 doublings that take the
    // default policy's 125 ms beyond 64 bits): the waits stay at the maximum and the next good connection is delivered
    let long_run_at = if rng.random_range(0..8) == 0 { rng.random_range(1..len) } else { usize::MAX };
    while script.len() < len {
        if script.len() == long_run_at {
            for _ in 0..rng.random_range(60..=80) {
                script.push(json!({"ok": false, "lat": 0, "ed": 0, "body": []}));
            }
            run_fail = 10;
        }
        let fail = if script.is_empty() { rng.random_bool(0.04) } else { run_fail < 10 && rng.random_bool(0.55) };
        let lat = [0, 0, 0, 5, 13][rng.random_range(0..5)];
        if fail {
            run_fail += 1;
            script.push(json!({"ok": false, "lat": lat, "ed": 0, "body": []}));
            continue;
        }
        run_fail = 0;
        let n = rng.random_range(0..=6);
        let body: Vec<Value> = (0..n)
            .map(|_| {
                v += 1;
                let k = match rng.random_range(0..100) {
                    0..=64 => "Item",
                    65..=82 => "Err",
                    _ => "Term",
                };
                let d = if rng.random_bool(0.6) { 0 } else { rng.random_range(1..=20) };
                json!({"k": k, "v": v, "d": d})
            })
            .collect();
        let ed = [0, 0, 7][rng.random_range(0..3)];
        script.push(json!({"ok": true, "lat": lat, "ed": ed, "body": body}));
    }
    json!({"mode": if rng.random_bool(0.5) { "stream" } else { "handler" },
           "pol": {"b0": pol.0, "mult": pol.1, "max": pol.2}, "script": script})
}

// ---------------------------------------------------------------------------------------------
// merge
// ---------------------------------------------------------------------------------------------
fn mline(a: &str, v: i64, r: &str) -> Value {
    json!({"a": a, "v": v, "r": r})
}

/// Executes one schedule of `SendL | SendR | CloseL | CloseR | Poll` on the real `merge`, polling by hand
/// (outside any runtime, as a plain executor would). Values: left 1,2,3.., right 101,102,..
fn merge_schedule(ops: &[String], variant: usize, out: &mut Out) {
    out.line(&mline("Reset", 0, ""));
    let (ltx, lrx) = mpsc_unbounded::<i64>();
    let (rtx, rrx) = mpsc_unbounded::<i64>();
    let (mut ltx, mut rtx) = (Some(ltx), Some(rtx));
    // the two Stream faces of channel.rs
    let mut merged: Pin<Box<dyn Stream<Item = i64>>> = match variant % 3 {
        0 => Box::pin(merge(lrx.into_stream(), rrx.into_stream())),
        1 => Box::pin(merge(lrx, rrx)),
        _ => Box::pin(merge(lrx.into_stream(), rrx)),
    };
    let waker = futures::task::noop_waker_ref();
    let mut cx = Context::from_waker(waker);
    let (mut nl, mut nr) = (0i64, 100i64);
    for op in ops {
        match op.as_str() {
            "SendL" => {
                nl += 1;
                let sent = ltx.as_ref().map(|t| t.send(nl).is_ok()).unwrap_or(false);
                out.line(&mline("SendL", nl, if sent { "" } else { "refused" }));
            }
            "SendR" => {
                nr += 1;
                let sent = rtx.as_ref().map(|t| t.send(nr).is_ok()).unwrap_or(false);
                out.line(&mline("SendR", nr, if sent { "" } else { "refused" }));
            }
            "CloseL" => {
                ltx = None;
                out.line(&mline("CloseL", 0, ""));
            }
            "CloseR" => {
                rtx = None;
                out.line(&mline("CloseR", 0, ""));
            }
            "Poll" => {
                let r = catch(|| merged.as_mut().poll_next(&mut cx));
                out.line(&match r {
                    Ok(Poll::Pending) => mline("Poll", 0, "Pending"),
                    Ok(Poll::Ready(None)) => mline("Poll", 0, "End"),
                    Ok(Poll::Ready(Some(v))) => mline("Poll", v, "Item"),
                    Err(_) => mline("Poll", 0, "panic"),
                });
            }
            o => usage(&format!("bad merge op {o}")),
        }
    }
}

fn random_schedule(rng: &mut rand::rngs::StdRng) -> Vec<String> {
    let len = rng.random_range(10..=60);
    let (mut cl, mut cr, mut nl, mut nr) = (false, false, 0, 0);
    let p_close = [0.0, 0.02, 0.06][rng.random_range(0..3)];
    let mut ops = vec![];
    while ops.len() < len {
        let x: f64 = rng.random();
        let op = if x < p_close && !cl {
            cl = true;
            "CloseL"
        } else if x < 2.0 * p_close && !cr {
            cr = true;
            "CloseR"
        } else if x < 0.3 && !cl && nl < 40 {
            nl += 1;
            "SendL"
        } else if x < 0.55 && !cr && nr < 40 {
            nr += 1;
            "SendR"
        } else {
            "Poll"
        };
        ops.push(op.to_string());
    }
    ops
}

// ---------------------------------------------------------------------------------------------
// wire level: the REAL OKX public-trades connection against a loopback websocket exchange
// ---------------------------------------------------------------------------------------------
mod wire {
    //! `LoopOkx` is the real `Okx` connector with one difference: `url()` points at the harness'
    //! loopback websocket server. Subscriber, subscription validator, subscription response,
    //! request payload, market naming, message type (`OkxTrades`), transformer
    //! (`StatelessTransformer`), `ExchangeWsStream::init`, `ExchangeStream` and the whole
    //! `init_market_stream` chain are the production code. The server plays the scripted frames of
    //! each connection and closes; the consumer reads the reconnecting stream until the last
    //! scripted connection's notice. Real clock: instants are not observed here (all `at` = 0).
    use super::*;
    use barter_data::{
        ExchangeWsStream,
        exchange::{
            PingInterval,
            okx::{Okx, channel::OkxChannel, market::OkxMarket, subscription::OkxSubResponse, trade::OkxTrades},
            subscription::ExchangeSub,
        },
        subscription::trade::{PublicTrade, PublicTrades},
        transformer::stateless::StatelessTransformer,
    };
    use futures::SinkExt;
    use std::{collections::HashMap, sync::OnceLock};

    static LOOP_URL: OnceLock<String> = OnceLock::new();
    pub static LOG: Mutex<Vec<Value>> = Mutex::new(Vec::new());

    fn log(v: Value) {
        LOG.lock().unwrap_or_else(|p| p.into_inner()).push(v);
    }

    #[derive(Copy, Clone, Eq, PartialEq, Ord, PartialOrd, Hash, Debug, Default, Deserialize, Serialize)]
    pub struct LoopOkx;
    #[derive(Clone, Debug)]
    pub struct LChan(&'static str);
    impl AsRef<str> for LChan {
        fn as_ref(&self) -> &str {
            self.0
        }
    }
    #[derive(Clone, Debug)]
    pub struct LMkt(smol_str::SmolStr);
    impl AsRef<str> for LMkt {
        fn as_ref(&self) -> &str {
            &self.0
        }
    }

    impl Connector for LoopOkx {
        const ID: ExchangeId = <Okx as Connector>::ID;
        type Channel = LChan;
        type Market = LMkt;
        type Subscriber = <Okx as Connector>::Subscriber;
        type SubValidator = <Okx as Connector>::SubValidator;
        type SubResponse = OkxSubResponse;
        fn url() -> Result<url::Url, SocketError> {
            url::Url::parse(LOOP_URL.get().expect("loopback server started")).map_err(SocketError::UrlParse)
        }
        fn ping_interval() -> Option<PingInterval> {
            Okx::ping_interval()
        }
        fn requests(subs: Vec<ExchangeSub<Self::Channel, Self::Market>>) -> Vec<WsMessage> {
            Okx::requests(subs.into_iter().map(|s| ExchangeSub { channel: OkxChannel(s.channel.0), market: OkxMarket(s.market.0) }).collect())
        }
        // expected_responses, subscription_timeout: the trait defaults, as for Okx
    }

    type WSub = Subscription<LoopOkx, MarketDataInstrument, PublicTrades>;
    fn as_okx(s: &WSub) -> Subscription<Okx, MarketDataInstrument, PublicTrades> {
        Subscription::new(Okx, s.instrument.clone(), PublicTrades)
    }
    impl Identifier<LChan> for WSub {
        fn id(&self) -> LChan {
            let c: OkxChannel = as_okx(self).id();
            LChan(c.0)
        }
    }
    impl Identifier<LMkt> for WSub {
        fn id(&self) -> LMkt {
            let m: OkxMarket = as_okx(self).id();
            LMkt(m.0)
        }
    }
    impl StreamSelector<MarketDataInstrument, PublicTrades> for LoopOkx {
        type SnapFetcher = NoInitialSnapshots;
        type Stream = ExchangeWsStream<StatelessTransformer<Self, MarketDataInstrument, PublicTrades, OkxTrades>>;
    }

    const INSTR: [(&str, &str, &str); 3] = [("btc", "usdt", "BTC-USDT"), ("eth", "usdt", "ETH-USDT"), ("sol", "usdt", "SOL-USDT")];

    fn instr(j: usize) -> MarketDataInstrument {
        MarketDataInstrument::from((INSTR[j].0, INSTR[j].1, MarketDataInstrumentKind::Spot))
    }

    #[derive(Clone, Debug)]
    pub struct Frame {
        t: String,
        vs: Vec<i64>,
    }
    #[derive(Clone, Debug)]
    pub struct Conn {
        need: usize,
        frames: Vec<Frame>,
    }

    pub fn parse_wire(v: &Value) -> Vec<Conn> {
        v["wire"]
            .as_array()
            .expect("wire")
            .iter()
            .map(|c| Conn {
                need: i(c, "need") as usize,
                frames: c["frames"]
                    .as_array()
                    .expect("frames")
                    .iter()
                    .map(|f| Frame { t: s(f, "t").to_string(), vs: f["vs"].as_array().expect("vs").iter().map(|x| x.as_i64().expect("v")).collect() })
                    .collect(),
            })
            .collect()
    }

    /// instrument a data frame is about: rotates over the connection's subscriptions
    fn frame_instr(first_v: i64, need: usize) -> usize {
        (first_v as usize) % need
    }

    fn text_of(f: &Frame, conf_no: usize, need: usize) -> String {
        match f.t.as_str() {
            "conf" => json!({"event": "subscribe", "arg": {"channel": "trades", "instId": INSTR[conf_no % need].2}}).to_string(),
            "garbage" => json!({"garbage": f.vs[0]}).to_string(),
            "data" => {
                let inst = INSTR[frame_instr(f.vs[0], need)].2;
                let data: Vec<Value> = f
                    .vs
                    .iter()
                    .map(|v| json!({"instId": inst, "tradeId": v.to_string(), "px": "42219.9", "sz": format!("0.{v}"), "side": if v % 2 == 0 { "buy" } else { "sell" }, "ts": "1630048897897"}))
                    .collect();
                json!({"arg": {"channel": "trades", "instId": inst}, "data": data}).to_string()
            }
            t => usage(&format!("bad frame kind {t}")),
        }
    }

    /// The loopback exchange: plays one scripted connection per accepted socket, then closes it.
    async fn serve(listener: Arc<tokio::net::TcpListener>, conns: Vec<Conn>) {
        for c in conns {
            let Ok((stream, _)) = listener.accept().await else { return };
            let _ = stream.set_nodelay(true);
            log(line("InitCall", "", 0, 0, ""));
            let Ok(mut ws) = tokio_tungstenite::accept_async(stream).await else { continue };
            // the subscribe request of the real connector: {"op":"subscribe","args":[{channel,instId}..]}
            let req = loop {
                match ws.next().await {
                    Some(Ok(WsMessage::Text(t))) if t.as_str() != "ping" => break serde_json::from_str::<Value>(t.as_str()).unwrap_or(Value::Null),
                    Some(Ok(_)) => continue,
                    _ => break Value::Null,
                }
            };
            let args = req["args"].as_array().cloned().unwrap_or_default();
            let ok = req["op"] == "subscribe" && args.len() == c.need && args.iter().enumerate().all(|(j, a)| a["channel"] == "trades" && a["instId"] == INSTR[j].2);
            if !ok {
                log(line("Emit", "Foreign", -2, 0, "stream")); // a subscribe request OKX would not understand
            }
            let mut conf_no = 0;
            for f in &c.frames {
                let text = text_of(f, conf_no, c.need);
                conf_no += (f.t == "conf") as usize;
                if ws.send(WsMessage::text(text)).await.is_err() {
                    break;
                }
            }
            let _ = ws.close(None).await;
            // drain until the client is gone, so that the close handshake can complete
            let _ = tokio::time::timeout(Duration::from_millis(500), async { while let Some(Ok(_)) = ws.next().await {} }).await;
        }
    }

    pub static TRANSPORT_ERRS: Mutex<usize> = Mutex::new(0);

    /// projection of a wire-level output; `None` = a transport-closure error (the socket closing is
    /// reported as an error item before the stream ends; not an item of the connection)
    fn project_wire(ev: &MarketStreamResult<MarketDataInstrument, PublicTrade>, where_is: &HashMap<i64, usize>) -> Option<(&'static str, i64)> {
        Some(match ev {
            Event::Reconnecting(origin) => ("Notice", if *origin == ExchangeId::Okx { 0 } else { -1 }),
            Event::Item(Ok(me)) => {
                let v: i64 = me.kind.id.parse().unwrap_or(-1);
                let right_instrument = where_is.get(&v).map(|j| me.instrument == instr(*j)).unwrap_or(false);
                if right_instrument && me.exchange == ExchangeId::Okx { ("Item", v) } else { ("Foreign", v) }
            }
            Event::Item(Err(DataError::Socket(text))) => {
                if let Some(pos) = text.find("{\"garbage\":") {
                    let digits: String = text[pos + 11..].chars().take_while(|c| c.is_ascii_digit()).collect();
                    ("Err", digits.parse().unwrap_or(-1))
                } else if text.contains("tradeId") || text.contains("subscribe") {
                    ("Foreign", -1) // a data frame / confirmation that surfaced as an error
                } else {
                    *TRANSPORT_ERRS.lock().unwrap() += 1;
                    return None;
                }
            }
            Event::Item(Err(e)) => project_err(e),
        })
    }

    pub async fn scenario(listener: Arc<tokio::net::TcpListener>, raw: &Value) -> Vec<Value> {
        let conns = parse_wire(raw);
        let handled = s(raw, "mode") == "handler";
        let p = &raw["pol"];
        let pol = ReconnectionBackoffPolicy { backoff_ms_initial: i(p, "b0") as u64, backoff_multiplier: i(p, "mult") as u8, backoff_ms_max: i(p, "max") as u64 };
        let need = conns.first().map(|c| c.need).unwrap_or(2);
        let mut where_is = HashMap::new();
        for c in &conns {
            assert_eq!(c.need, need, "one subscription set per scenario");
            for f in c.frames.iter().filter(|f| f.t == "data") {
                for v in &f.vs {
                    where_is.insert(*v, frame_instr(f.vs[0], c.need));
                }
            }
        }
        let total: usize = conns.iter().map(|c| c.frames.iter().map(|f| f.vs.len()).sum::<usize>() + 2).sum::<usize>() * 2 + 8;
        let nconn = conns.len();
        LOG.lock().unwrap().clear();
        let mut reset = json!({"a": "ResetWire", "k": "", "v": 0, "at": 0, "via": "", "mode": raw["mode"], "pol": raw["pol"], "wire": raw["wire"]});
        reset["script"] = json!([]);
        let server = tokio::spawn(serve(listener, conns));
        let quiet = Duration::from_secs(8);
        let consumer = tokio::spawn(async move {
            if nconn == 0 {
                return "cut";
            }
            let subs: Vec<WSub> = (0..need).map(|j| Subscription::new(LoopOkx, instr(j), PublicTrades)).collect();
            let stream = match tokio::time::timeout(quiet, init_market_stream(pol, subs)).await {
                Err(_) => return "quiet",
                Ok(Err(_)) => return "nostream",
                Ok(Ok(stream)) => stream,
            };
            let mut stream: Pin<Box<dyn Stream<Item = MarketStreamResult<MarketDataInstrument, PublicTrade>> + Send>> = Box::pin(stream);
            let (mut notices, mut n) = (0usize, 0usize);
            loop {
                match tokio::time::timeout(quiet, stream.next()).await {
                    Err(_) => return "quiet",
                    Ok(None) => return "ended",
                    Ok(Some(ev)) => {
                        let Some((k, v)) = project_wire(&ev, &where_is) else { continue };
                        let via = if handled && k == "Err" { "handler" } else { "stream" };
                        log(line("Emit", k, v, 0, via));
                        n += 1;
                        notices += (k == "Notice") as usize;
                        if notices == nconn {
                            return "cut";
                        }
                        if n > total {
                            return "runaway";
                        }
                    }
                }
            }
        });
        let status = consumer.await.unwrap_or("panic");
        server.abort();
        let mut lines = vec![reset];
        lines.append(&mut LOG.lock().unwrap());
        lines.push(line("Stop", status, 0, 0, ""));
        lines
    }

    pub fn random_scenario(rng: &mut rand::rngs::StdRng) -> Value {
        let need = rng.random_range(2..=3);
        let mut v = 0i64;
        let mut wire = vec![];
        for _ in 0..rng.random_range(1..=4) {
            let mut frames: Vec<Value> = vec![];
            let frame = |rng: &mut rand::rngs::StdRng, v: &mut i64| {
                if rng.random_bool(0.15) {
                    *v += 1;
                    json!({"t": "garbage", "vs": [*v]})
                } else {
                    let n = rng.random_range(1..=3);
                    let vs: Vec<i64> = (0..n).map(|_| { *v += 1; *v }).collect();
                    json!({"t": "data", "vs": vs})
                }
            };
            for _ in 0..rng.random_range(0..=2) {
                frames.push(frame(rng, &mut v));
            }
            for c in 0..need {
                frames.push(json!({"t": "conf", "vs": []}));
                if c + 1 < need {
                    for _ in 0..rng.random_range(0..=3) {
                        frames.push(frame(rng, &mut v));
                    }
                }
            }
            for _ in 0..rng.random_range(0..=8) {
                frames.push(frame(rng, &mut v));
            }
            wire.push(json!({"need": need, "frames": frames}));
        }
        json!({"mode": if rng.random_bool(0.5) { "stream" } else { "handler" }, "pol": {"b0": 125, "mult": 2, "max": 60000}, "wire": wire})
    }

    pub fn run(scns: &[Value], out: &mut Out) -> Value {
        let rt = tokio::runtime::Builder::new_current_thread().enable_all().build().expect("runtime");
        let conns: usize = scns.iter().map(|s| s["wire"].as_array().map(|w| w.len()).unwrap_or(0)).sum();
        rt.block_on(async {
            let listener = Arc::new(tokio::net::TcpListener::bind("127.0.0.1:0").await.expect("bind loopback"));
            let _ = LOOP_URL.set(format!("ws://{}", listener.local_addr().expect("addr")));
            for raw in scns {
                for l in scenario(listener.clone(), raw).await {
                    out.line(&l);
                }
            }
        });
        json!({"scenarios": scns.len(), "connections": conns, "transport_errors_skipped": *TRANSPORT_ERRS.lock().unwrap()})
    }
}

fn main() {
    let args = Args::parse();
    match args.cmd.as_str() {
        "run" | "random" => {
            let scns: Vec<Value> = if args.cmd == "run" {
                read_ndjson(args.req("scenarios"))
            } else {
                let mut rng = rng(args.u64("seed", 1));
                (0..args.usize("n", 200)).map(|_| random_scenario(&mut rng)).collect()
            };
            let mut out = Out::create(args.req("out"));
            let mut res = Out::create(args.req("results"));
            let mut summary = run_scenarios(&scns, &mut out, &mut res);
            summary["lines"] = json!(out.finish());
            res.finish();
            println!("{summary}");
        }
        "merge-run" | "merge-random" => {
            let mut out = Out::create(args.req("out"));
            let schedules: Vec<(Vec<String>, Option<usize>)> = if args.cmd == "merge-run" {
                read_ndjson(args.req("scenarios"))
                    .iter()
                    .map(|v| {
                        let ops = v["ops"].as_array().expect("ops").iter().map(|o| o.as_str().expect("op").to_string()).collect();
                        (ops, v.get("variant").and_then(|x| x.as_u64()).map(|x| x as usize))
                    })
                    .collect()
            } else {
                let mut rng = rng(args.u64("seed", 1));
                (0..args.usize("n", 200)).map(|_| (random_schedule(&mut rng), None)).collect()
            };
            for (n, (ops, variant)) in schedules.iter().enumerate() {
                merge_schedule(ops, variant.unwrap_or(n), &mut out);
            }
            println!("{}", json!({"schedules": schedules.len(), "lines": out.finish()}));
        }
        "wire" | "wire-random" => {
            let scns: Vec<Value> = if args.cmd == "wire" {
                read_ndjson(args.req("scenarios"))
            } else {
                let mut rng = rng(args.u64("seed", 1));
                (0..args.usize("n", 100)).map(|_| wire::random_scenario(&mut rng)).collect()
            };
            let mut out = Out::create(args.req("out"));
            let mut summary = wire::run(&scns, &mut out);
            summary["lines"] = json!(out.finish());
            println!("{summary}");
        }
        c => usage(&format!("unknown command {c}")),
    }
}
