SPECIFICATION RichSpec
CONSTANTS
  CIDS = {"c1", "c2", "x"}
  EVENTS = {}
  ENVS = {}
  MaxSeq = 1
INVARIANT ConnIff
PROPERTIES SentDelivered SentInFlight FailedNeither NoPhantomInFlight DisabledSilent Scope ConnStep TickSeq
VIEW View
CHECK_DEADLOCK FALSE
