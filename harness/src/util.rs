use chrono::{DateTime, TimeZone, Utc};
use rand::{SeedableRng, rngs::StdRng};
use rust_decimal::Decimal;
use serde_json::Value;
use std::{
    collections::HashMap,
    fs::File,
    io::{BufRead, BufReader, BufWriter, Write},
};

/// Command line: `bin <cmd> --key value ...`
pub struct Args {
    pub cmd: String,
    pub kv: HashMap<String, String>,
}

impl Args {
    pub fn parse() -> Self {
        let mut it = std::env::args().skip(1);
        let cmd = it.next().unwrap_or_else(|| usage("missing command"));
        let mut kv = HashMap::new();
        while let Some(k) = it.next() {
            let k = k.trim_start_matches("--").to_string();
            let v = it.next().unwrap_or_else(|| usage("missing value"));
            kv.insert(k, v);
        }
        Self { cmd, kv }
    }
    pub fn get(&self, k: &str) -> Option<&str> {
        self.kv.get(k).map(|s| s.as_str())
    }
    pub fn req(&self, k: &str) -> &str {
        self.get(k).unwrap_or_else(|| usage(&format!("missing --{k}")))
    }
    pub fn u64(&self, k: &str, default: u64) -> u64 {
        self.get(k).map(|v| v.parse().expect("integer")).unwrap_or(default)
    }
    pub fn usize(&self, k: &str, default: usize) -> usize {
        self.u64(k, default as u64) as usize
    }
    pub fn str(&self, k: &str, default: &str) -> String {
        self.get(k).unwrap_or(default).to_string()
    }
}

pub fn usage(msg: &str) -> ! {
    eprintln!("harness usage error: {msg}");
    std::process::exit(2)
}

pub fn rng(seed: u64) -> StdRng {
    StdRng::seed_from_u64(seed)
}

/// NDJSON writer.
pub struct Out {
    w: BufWriter<File>,
    pub lines: usize,
}

impl Out {
    pub fn create(path: &str) -> Self {
        Self {
            w: BufWriter::new(File::create(path).unwrap_or_else(|e| usage(&format!("{path}: {e}")))),
            lines: 0,
        }
    }
    pub fn line(&mut self, v: &Value) {
        serde_json::to_writer(&mut self.w, v).unwrap();
        self.w.write_all(b"\n").unwrap();
        self.lines += 1;
    }
    pub fn finish(mut self) -> usize {
        self.w.flush().unwrap();
        self.lines
    }
}

pub fn read_ndjson(path: &str) -> Vec<Value> {
    let f = File::open(path).unwrap_or_else(|e| usage(&format!("{path}: {e}")));
    BufReader::new(f)
        .lines()
        .map(|l| l.unwrap())
        .filter(|l| !l.trim().is_empty())
        .map(|l| serde_json::from_str(&l).unwrap_or_else(|e| usage(&format!("bad json line: {e}"))))
        .collect()
}

/// Fixed epoch of the harness: spec time `t` is `EPOCH + t seconds` (after the Unix epoch, as the
/// default L1 book carries the Unix epoch itself).
pub fn time(t: i64) -> DateTime<Utc> {
    Utc.with_ymd_and_hms(2020, 1, 1, 0, 0, 0).unwrap() + chrono::Duration::seconds(t)
}

pub fn time_ms(ms: i64) -> DateTime<Utc> {
    Utc.with_ymd_and_hms(2020, 1, 1, 0, 0, 0).unwrap() + chrono::Duration::milliseconds(ms)
}

pub fn untime(t: DateTime<Utc>) -> i64 {
    (t - time(0)).num_seconds()
}

pub fn untime_ms(t: DateTime<Utc>) -> i64 {
    (t - time(0)).num_milliseconds()
}

pub fn dec(i: i64) -> Decimal {
    Decimal::from(i)
}

/// Decimal -> integer if integral (spec integers), else `null` is never produced: a non-integral
/// value is reported as a string so that the trace is rejected visibly.
pub fn dec_json(d: Decimal) -> Value {
    let n = d.normalize();
    if n.scale() == 0 {
        if let Ok(i) = i64::try_from(n.mantissa()) {
            return Value::from(i);
        }
    }
    Value::from(n.to_string())
}

/// Decimal -> integer count of `1/scale` units (e.g. milli-units) if exact, else string.
pub fn dec_units(d: Decimal, per_unit: i64) -> Value {
    dec_json(d * Decimal::from(per_unit))
}

pub fn i(v: &Value, k: &str) -> i64 {
    v.get(k).and_then(|x| x.as_i64()).unwrap_or_else(|| usage(&format!("field {k} not an integer in {v}")))
}
pub fn s<'a>(v: &'a Value, k: &str) -> &'a str {
    v.get(k).and_then(|x| x.as_str()).unwrap_or_else(|| usage(&format!("field {k} not a string in {v}")))
}
pub fn b(v: &Value, k: &str) -> bool {
    v.get(k).and_then(|x| x.as_bool()).unwrap_or_else(|| usage(&format!("field {k} not a bool in {v}")))
}

/// Run a closure catching panics from the code under test: a panic is data, not a tool failure.
pub fn catch<T>(f: impl FnOnce() -> T) -> Result<T, String> {
    let prev = std::panic::take_hook();
    std::panic::set_hook(Box::new(|_| {}));
    let r = std::panic::catch_unwind(std::panic::AssertUnwindSafe(f));
    std::panic::set_hook(prev);
    r.map_err(|e| {
        if let Some(s) = e.downcast_ref::<&str>() {
            s.to_string()
        } else if let Some(s) = e.downcast_ref::<String>() {
            s.clone()
        } else {
            "panic".to_string()
        }
    })
}
