SPECIFICATION Spec
CONSTANTS
  MaxOutcomes = 3
  MaxBody = 1
  MaxElems = 1
  Lats = {0, 7}
  Gaps = {0, 3}
  Slack = {0, 2}
  Policies <- PoliciesT
  Modes <- ModesS
INVARIANTS TypeOK Conserve Ordered OneNotice ErrPassThrough FailedSilent Causal
  BackoffClosedForm BackoffTimes WaitsClosedForm FirstFailure NoStreamSilent Exhausted
PROPERTIES NeverEnds Progress
CHECK_DEADLOCK FALSE
