----------------------- MODULE MC_AccountLink_thorough -----------------------
(* The larger alphabets of the thorough tier (kept out of MC_AccountLink: TLC evaluates every     *)
(* constant definition of a module at start-up).                                                  *)
EXTENDS MC_AccountLink

PolA2     == {[b0 |-> 100, mult |-> 3, max |-> 500], [b0 |-> 50, mult |-> 1, max |-> 50]}
ScriptsA2 == ScriptsOf({OwnEarly, OwnLate, ForLate, ForEarly, XidLate}, {<<0, 0>>}, 0, {0}, 3, 2, 2)
ReqsA2    == {<<>>, <<Rq(0, 0)>>, <<Rq(0, -1)>>, <<Rq(150, 4)>>}
ScriptsT2 == ScriptsOf({OwnEarly, OwnLate3, XidLate}, {<<7, 0>>, <<0, 7>>}, 7, {3}, 2, 2, 2)
ReqsT2    == ReqsT \cup {<<Rq(30, 4)>>}
=============================================================================
