------------------------------ MODULE Drawdown ------------------------------
(* C18 - reported drawdowns are the peak-to-trough declines of the value   *)
(*       curve.                                                            *)
(*                                                                         *)
(* Reference semantics: the state is the CURVE (the timed points fed in);  *)
(* the drawdowns are DEFINED from the whole curve:                         *)
(*   a point is a RECORD when its value exceeds every earlier value (the   *)
(*   first point is one): the running maxima, each at the time it was      *)
(*   first reached;                                                        *)
(*   between a record p and the next record q the drawdown has depth       *)
(*   max (v[p] - v[j]) / v[p] over p <= j < q, starts at t[p], ends at     *)
(*   t[q] (the recovery: the first point that EXCEEDS the maximum - a      *)
(*   return exactly to the maximum does not end it); it is reported (at    *)
(*   step q) only when the depth is not zero;                              *)
(*   after the last record p the CURRENT drawdown has the depth over       *)
(*   p <= j <= n, starts at t[p] and ends at the time of the latest point. *)
(*   Max  = a reported drawdown of largest depth,                          *)
(*   Mean = average depth and average duration of the reported ones.       *)
(* Beside it the module carries the running generator of the code          *)
(*   gen ~ DrawdownGenerator{peak,drawdown_max,time_peak,time_now}         *)
(*         barter/src/statistic/metric/drawdown/mod.rs  update / generate  *)
(*   emitted ~ the sequence of Some(Drawdown) returned by update           *)
(* and TLC decides on every bounded curve that the running generator       *)
(* equals the reference decomposition (RunIsRef).  The implementation is   *)
(* bound to the REFERENCE definitions (Pattern B replay).                  *)
(*                                                                         *)
(* Actions: AddPoint(t, v)  DrawdownGenerator::update(Timed{v,t}) and its  *)
(*                          callers TearSheetAssetGenerator::              *)
(*                          update_from_balance, TearSheetGenerator::      *)
(*                          update_from_position                           *)
(*          Reset           TearSheetGenerator::reset(start) /              *)
(*                          TearSheetAssetGenerator::reset(first balance): *)
(*                          a new session; afterwards every figure is that *)
(*                          of a fresh generator fed the remainder only    *)
(*          Persist         serde store + restore of the generators: a     *)
(*                          stutter (PersistIsStutter)                     *)
(*          ReadCurrent     DrawdownGenerator::generate(): READING the     *)
(*                          current drawdown.  The reference decomposition *)
(*                          is a function of the curve alone, so it cannot *)
(*                          depend on when (or whether) Current was read:  *)
(*                          ReadingIsPure - a read returns Current(curve)  *)
(*                          and changes nothing any later figure depends   *)
(*                          on.  (The tear sheets' generate() additionally *)
(*                          FOLDS the current drawdown into Max/Mean by    *)
(*                          design: that fold is `Fin`, judged once.)      *)
(*                                                                         *)
(* Left open (DESIGN 5.4 / C18 "Open"):                                    *)
(*  - which of several reported drawdowns of EQUAL largest depth is "the"  *)
(*    maximum: MaxSet is a set, any member is accepted;                    *)
(*  - the mean duration is an integer number of milliseconds in the code:  *)
(*    the exact rational mean is given, the binding accepts +- count ms.   *)
(* Assumed: positive PEAKS - the first value, hence every running maximum, *)
(* is > 0; later values may be zero or negative (a cumulative PnL curve can *)
(* fall from a positive peak to below zero), so a depth (peak - v)/peak may *)
(* exceed 1.  Times are NON-DECREASING: equal                               *)
(* consecutive times are legitimate (AssetState accepts a snapshot with    *)
(* the timestamp of the previous one), so a drawdown may have zero         *)
(* duration and two drawdowns may carry the same times: reference          *)
(* drawdowns are therefore identified by the INDEX k of their peak and q   *)
(* of their last point (bookkeeping only; the code's Drawdown is           *)
(* value/start/end).                                                       *)
(* generate() of the tear sheets folds the current drawdown into Max/Mean  *)
(* every time it is called: `Fin` is the result of calling it ONCE.        *)
EXTENDS Integers, Sequences, FiniteSets, Rational

CONSTANTS
  Values,     \* curve values: non-negative integers (a .cfg file cannot write negative numbers) ...
  NegMag,     \* ... and the magnitudes of the negative values: AllValues = Values \cup {-x : x \in NegMag}
  Gaps,       \* time increments (integers >= 0)
  MaxLen,     \* bound on the number of points (all sessions together)
  MaxResets   \* bound on the number of Reset steps

VARIABLES
  curve,      \* Seq([t, v])   the history
  gen,        \* running generator state
  emitted,    \* Seq(drawdown) what the running generator has emitted
  seen,       \* what the last ReadCurrent returned
  sess,       \* [clock: time of the latest point ever fed, fed: points fed, resets: sessions ended]
  last

vars == <<curve, gen, emitted, seen, sess, last>>
View == <<curve, gen, emitted, seen, sess>>        \* `last` is observation only

-----------------------------------------------------------------------------
\* k = index of the peak, q = index of the last point of the period (the recovery point of a
\* completed drawdown, the latest point for the current one)
DD(value, ts, te, k, q) == [value |-> value, start |-> ts, end |-> te, k |-> k, q |-> q]
NoDD == [has |-> FALSE, d |-> DD(Zero, 0, 0, 0, 0)]
SomeDD(d) == [has |-> TRUE, d |-> d]

Idx(c) == 1..Len(c)
AllValues == Values \cup {-x : x \in NegMag}

(* ---- reference decomposition of a curve c ------------------------------ *)
IsRecord(c, k) == \A j \in 1..(k - 1) : c[j].v < c[k].v
Records(c)     == {k \in Idx(c) : IsRecord(c, k)}
\* q is the record following record p
Follows(c, p, q) == p \in Records(c) /\ q \in Records(c) /\ p < q
                    /\ \A r \in Records(c) : ~(p < r /\ r < q)

\* deepest relative decline from c[p] over the points p..q
RECURSIVE RMaxOver(_, _)
RMaxOver(f, I) == LET k == CHOOSE k \in I : TRUE
                  IN IF I = {k} THEN f[k] ELSE RMax(f[k], RMaxOver(f, I \ {k}))
Decline(c, p, j) == Frac(c[p].v - c[j].v, c[p].v)
Depth(c, p, q)   == RMaxOver([j \in p..q |-> Decline(c, p, j)], p..q)

\* completed drawdowns, as a set ...
CompletedSet(c) == {DD(Depth(c, pq[1], pq[2] - 1), c[pq[1]].t, c[pq[2]].t, pq[1], pq[2]) :
                      pq \in {x \in Records(c) \X Records(c) :
                                Follows(c, x[1], x[2]) /\ ~IsZero(Depth(c, x[1], x[2] - 1))}}
\* ... and in the order in which they were completed
RECURSIVE ByPeak(_)
ByPeak(S) == IF S = {} THEN <<>>
             ELSE LET d == CHOOSE d \in S : \A e \in S : d.k <= e.k
                  IN <<d>> \o ByPeak(S \ {d})
Completed(c) == ByPeak(CompletedSet(c))

LastRecord(c) == CHOOSE p \in Records(c) : \A r \in Records(c) : r <= p
Current(c) == IF Len(c) = 0 THEN NoDD
              ELSE LET p == LastRecord(c) d == Depth(c, p, Len(c))
                   IN IF IsZero(d) THEN NoDD ELSE SomeDD(DD(d, c[p].t, c[Len(c)].t, p, Len(c)))
\* the drawdown reported BY the latest point: the one it completes
EmittedBy(c) == LET S == {d \in CompletedSet(c) : d.q = Len(c)}
                IN IF S = {} THEN NoDD ELSE SomeDD(CHOOSE d \in S : TRUE)

Peak(c) == IF Len(c) = 0 THEN [has |-> FALSE, v |-> 0, t |-> 0]
           ELSE [has |-> TRUE, v |-> c[LastRecord(c)].v, t |-> c[LastRecord(c)].t]

\* Max / Mean of a set of drawdowns
MaxSet(S) == {d \in S : \A e \in S : Leq(e.value, d.value)}
DDur(d)   == d.end - d.start
RECURSIVE SumValue(_), SumDur(_)
SumValue(S) == IF S = {} THEN Zero ELSE LET d == CHOOSE d \in S : TRUE IN Add(d.value, SumValue(S \ {d}))
SumDur(S)   == IF S = {} THEN 0 ELSE LET d == CHOOSE d \in S : TRUE IN DDur(d) + SumDur(S \ {d})
MeanOf(S) == IF S = {} THEN [count |-> 0, value |-> Zero, dur |-> Zero]
             ELSE [count |-> Cardinality(S),
                   value |-> Div(SumValue(S), R(Cardinality(S))),
                   dur   |-> Frac(SumDur(S), Cardinality(S))]

\* what has been reported so far (completed), and after folding the current one once
Reported(c) == CompletedSet(c)
ReportedFin(c) == CompletedSet(c) \cup (IF Current(c).has THEN {Current(c).d} ELSE {})

(* ---- the running generator, as the code has it -------------------------- *)
\* (kpeak / n: index of the peak and number of points seen - bookkeeping for the identity of a
\*  drawdown, see the header)
Gen0 == [has |-> FALSE, peak |-> 0, ddmax |-> Zero, tpeak |-> 0, tnow |-> 0, kpeak |-> 0, n |-> 0]
GenCurrent(g) ==                                    \* DrawdownGenerator::generate
  IF g.has /\ ~IsZero(g.ddmax) THEN SomeDD(DD(g.ddmax, g.tpeak, g.tnow, g.kpeak, g.n)) ELSE NoDD
\* DrawdownGenerator::update -> <<state, emitted>>
GenUpd(g, t, v) ==
  LET n == g.n + 1
      fresh == [has |-> TRUE, peak |-> v, ddmax |-> Zero, tpeak |-> t, tnow |-> t, kpeak |-> n, n |-> n]
  IN IF ~g.has THEN <<fresh, NoDD>>
     ELSE IF v > g.peak
          THEN <<fresh, GenCurrent([g EXCEPT !.tnow = t, !.n = n])>>
          ELSE LET cur == Frac(g.peak - v, g.peak)    \* peak # 0 (positive peaks)
               IN <<[g EXCEPT !.tnow = t, !.n = n, !.ddmax = IF Gt(cur, g.ddmax) THEN cur ELSE g.ddmax], NoDD>>

-----------------------------------------------------------------------------
Init == /\ curve = <<>>
        /\ gen = Gen0
        /\ emitted = <<>>
        /\ seen = NoDD
        /\ sess = [clock |-> 0, fed |-> 0, resets |-> 0]
        /\ last = [a |-> "Init", t |-> 0, v |-> 0]

Now == sess.clock                       \* time does not restart with a new session

AddPoint(t, v) ==
  /\ curve' = Append(curve, [t |-> t, v |-> v])
  /\ LET r == GenUpd(gen, t, v)
     IN /\ gen' = r[1]
        /\ emitted' = IF r[2].has THEN Append(emitted, r[2].d) ELSE emitted
  /\ last' = [a |-> "AddPoint", t |-> t, v |-> v]
  /\ seen' = NoDD                        \* (a read value is only kept until the next point)
  /\ sess' = [sess EXCEPT !.clock = t, !.fed = @ + 1]

\* reading the current drawdown: the generator's generate() - a pure observation
ReadCurrent ==
  /\ seen' = GenCurrent(gen)
  /\ last' = [a |-> "Read", t |-> 0, v |-> 0]
  /\ UNCHANGED <<curve, gen, emitted, sess>>

\* the generators are serialisable: storing and restoring them is a stutter of the abstract state
Persist ==
  /\ last' = [a |-> "Persist", t |-> 0, v |-> 0]
  /\ UNCHANGED <<curve, gen, emitted, seen, sess>>

\* TearSheetGenerator::reset / TearSheetAssetGenerator::reset: a new session - everything back to
\* Init; what is reported afterwards is the decomposition of the points fed SINCE the reset only
Reset ==
  /\ curve' = <<>> /\ gen' = Gen0 /\ emitted' = <<>> /\ seen' = NoDD
  /\ sess' = [sess EXCEPT !.resets = @ + 1]
  /\ last' = [a |-> "Reset", t |-> 0, v |-> 0]

AddPointAny    == \E g \in Gaps, v \in AllValues :
                     /\ sess.fed < MaxLen
                     /\ Len(curve) = 0 => v > 0                 \* positive peaks
                     /\ AddPoint(Now + g, v)
ReadCurrentAny == last.a = "AddPoint" /\ ReadCurrent
PersistAny     == last.a \in {"AddPoint", "Read"} /\ Persist
ResetAny       == Len(curve) > 0 /\ sess.resets < MaxResets /\ Reset

Next == AddPointAny \/ ReadCurrentAny \/ PersistAny \/ ResetAny
Spec == Init /\ [][Next]_vars

-----------------------------------------------------------------------------
(* C18 formulas                                                             *)
TypeOK == /\ \A k \in Idx(curve) : curve[k].v \in AllValues
          /\ Len(curve) > 0 => curve[1].v > 0 /\ Peak(curve).v > 0
          /\ \A k \in 1..(Len(curve) - 1) : curve[k].t <= curve[k + 1].t

\* the running generator IS the reference decomposition
RunIsRef == /\ emitted = Completed(curve)
            /\ GenCurrent(gen) = Current(curve)
            /\ gen.has = Peak(curve).has
            /\ gen.has => gen.peak = Peak(curve).v /\ gen.tpeak = Peak(curve).t /\ gen.tnow = Now
            /\ Len(curve) > 0 => curve[Len(curve)].t = Now

\* after a reset nothing of the previous session is reported: the state is that of a fresh generator
ResetIsInit == last.a = "Reset" =>
  /\ curve = <<>> /\ gen = Gen0 /\ emitted = <<>> /\ ReportedFin(curve) = {} /\ ~Current(curve).has /\ ~Peak(curve).has
\* a store / restore changes nothing any figure depends on
PersistIsStutter == [][last'.a = "Persist" => <<curve, gen, emitted, seen, sess>>' = <<curve, gen, emitted, seen, sess>>]_vars

\* reading is idempotent: what a read returns is the current drawdown of the curve, and the
\* decomposition (a function of the curve) is the same whether or not / whenever it was read
ReadIsCurrent == last.a = "Read" => seen = Current(curve)
ReadingIsPure == [][last'.a = "Read" =>
                      /\ Completed(curve') = Completed(curve) /\ Current(curve') = Current(curve)
                      /\ Peak(curve') = Peak(curve) /\ gen' = gen /\ emitted' = emitted]_vars

All == ReportedFin(curve)

\* every reported drawdown is a real peak-to-trough decline
PeakToTrough == \A d \in All :
  /\ d.start <= d.end /\ d.k < d.q
  /\ IsPos(d.value)
  \* a decline that does not reach zero is < 1, one that goes through zero is >= 1 (and not capped)
  /\ (Lt(d.value, One) <=> \A j \in (IF d \in CompletedSet(curve) THEN d.k..(d.q - 1) ELSE d.k..d.q) : curve[j].v > 0)
  /\ d.k \in Records(curve) /\ curve[d.k].t = d.start /\ curve[d.q].t = d.end
  \* the value is (peak - trough)/peak for the lowest point of the period
  /\ LET seg == IF d \in CompletedSet(curve) THEN d.k..(d.q - 1) ELSE d.k..d.q
         lo  == CHOOSE j \in seg : \A i \in seg : curve[j].v <= curve[i].v
     IN /\ d.value = Frac(curve[d.k].v - curve[lo].v, curve[d.k].v)
        /\ \A j \in seg : curve[j].v <= curve[d.k].v      \* nothing in the period exceeds the peak
\* completed drawdowns end by a point exceeding the peak; periods do not overlap
Recovery == \A i \in Idx(emitted) :
  /\ emitted[i].q \in Records(curve) /\ curve[emitted[i].q].v > curve[emitted[i].k].v
  /\ i < Len(emitted) => emitted[i].q <= emitted[i + 1].k /\ emitted[i].end <= emitted[i + 1].start
  /\ Current(curve).has => emitted[i].q <= Current(curve).d.k /\ emitted[i].end <= Current(curve).d.start
\* at most one drawdown per running maximum
OnePerPeak == \A d \in All, e \in All : d.k = e.k => d = e
\* a curve that never falls below its running maximum has no drawdowns, and conversely
NoneIffMonotone == (All = {}) <=> \A k \in Idx(curve) : \A j \in 1..k : curve[j].v <= curve[k].v
\* Max >= every reported drawdown; Mean lies between the smallest and the largest
MaxIsLargest == All # {} =>
  /\ MaxSet(All) # {} /\ MaxSet(All) \subseteq All
  /\ \A m \in MaxSet(All), d \in All : Geq(m.value, d.value)
  /\ LET mn == MeanOf(All)
     IN /\ mn.count = Cardinality(All)
        /\ \A m \in MaxSet(All) : Leq(mn.value, m.value)
        /\ \E d \in All : Leq(d.value, mn.value)
        /\ \E d \in All : Leq(R(DDur(d)), mn.dur)
        /\ \E d \in All : Geq(R(DDur(d)), mn.dur)
\* classic maximum drawdown: the deepest relative decline from ANY earlier point of the curve
\* (on curves that stay positive: from a non-positive value a relative decline is not defined, and a
\*  trough below zero is relatively deeper from a LOWER earlier value)
ClassicMDD == (All # {} /\ \A k \in Idx(curve) : curve[k].v > 0) =>
  LET pairs == {x \in Idx(curve) \X Idx(curve) : x[1] <= x[2]}
      best  == RMaxOver([x \in pairs |-> Frac(curve[x[1]].v - curve[x[2]].v, curve[x[1]].v)], pairs)
  IN \A m \in MaxSet(All) : m.value = best
=============================================================================
