SPECIFICATION GSpecR
CONSTANTS
  PRICE = {1, 2, 3, 4, 5, 6}
  AMOUNT = {0, 1, 2, 3}
  SEQS = {1, 2, 3, 4, 5}
  MaxLong = 4
  MaxShort = 4
  MaxSnap = 6
  StableUpTo = 20
  MaxLen = 25
  Large = 99
INVARIANT Emit
CHECK_DEADLOCK FALSE
