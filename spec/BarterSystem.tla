---------------------------- MODULE BarterSystem ----------------------------
(***************************************************************************)
(* Composition of the components specified separately:                      *)
(*   Engine (order lifecycle of OrderLifecycle.tla, on kinds)               *)
(*     --ExecutionRequest-->  request channel of the ORDER'S exchange       *)
(*     --> that exchange's ExecutionManager (ExecManager.tla: accept,       *)
(*         response or timeout, exactly one account event per request)      *)
(*     --AccountEvent (stamped with that exchange)--> merged feed FIFO      *)
(*     --> Engine::process                                                  *)
(* plus unsolicited exchange reports (fills / cancellations by the venue)   *)
(* and the death of an exchange's execution link (one disconnect notice,    *)
(* the engine marks that exchange's account link - hence global             *)
(* connectivity - unhealthy, the other exchanges' links are untouched).     *)
(*                                                                         *)
(* Purpose: the closing sentence of C07 - "an order the engine shows as in  *)
(* flight is always eventually resolved" - is a LIVENESS property of the    *)
(* composition: C03 puts the marker, C07 answers every request exactly      *)
(* once, C01 removes the marker when the answer is processed.  Checked by   *)
(* TLC under weak fairness of the manager, the client/timeout race and the  *)
(* engine loop.                                                             *)
(*                                                                         *)
(* Code: barter/src/engine/mod.rs (process), action/send_requests.rs,       *)
(* execution/manager.rs (run: select over request stream / in-flight        *)
(* futures with tokio::time::timeout), engine/state/order/mod.rs.           *)
(***************************************************************************)
EXTENDS Integers, Sequences, FiniteSets, TLC

CONSTANTS CID,        \* client order ids
          EXCH,       \* exchanges, each with its own request channel, execution manager and client
          MaxSends,   \* bound on requests the engine may send per id (keeps the model finite)
          MaxKills    \* bound on execution links the environment may kill

NoExch == "none"

VARIABLES orders,     \* [CID -> {"U","OIF","Open","CIFn","CIFo"}]   engine view
          home,       \* [CID -> EXCH \cup {NoExch}]  the exchange of the instrument the order is for
          chan,       \* [EXCH -> request channel engine -> that exchange's execution manager (FIFO)]
          pending,    \* requests accepted by a manager, awaiting response or timeout
          feed,       \* account-stream events on their way to the engine (FIFO, all exchanges merged)
          sends,      \* [CID -> Nat] requests sent so far per id
          answered,   \* ghost: number of account events produced per request
          link,       \* [EXCH -> {"connecting","up","dead"}]  the exchange's execution link (environment)
          conn        \* [EXCH -> {"up","down"}]  engine view: health of the exchange's account link
                      \*   (starts "down": Health::Reconnecting until the first account item arrives)

vars == <<orders, home, chan, pending, feed, sends, answered, link, conn>>

\* n = serial number of the request, x = the exchange whose link carries it
Req(k, c, n, x) == [k |-> k, c |-> c, n |-> n, x |-> x]
InFlight(c) == orders[c] \in {"OIF", "CIFn", "CIFo"}

Init == /\ orders = [c \in CID |-> "U"]
        /\ home = [c \in CID |-> NoExch]
        /\ chan = [x \in EXCH |-> <<>>] /\ pending = {} /\ feed = <<>>
        /\ sends = [c \in CID |-> 0]
        /\ answered = [r \in {} |-> 0]
        /\ link = [x \in EXCH |-> "connecting"]
        /\ conn = [x \in EXCH |-> "down"]

Serial(c) == sends[c] + 1

(* ---- engine: strategy / commands send requests and mark them in flight (C03); the request ---- *)
(* ---- travels on the channel of the exchange the order's instrument belongs to (C04)        ---- *)
EngineSendOpen(c, x) ==
  /\ orders[c] = "U" /\ sends[c] < MaxSends
  /\ home[c] \in {NoExch, x} /\ link[x] # "dead"
  /\ home' = [home EXCEPT ![c] = x]
  /\ orders' = [orders EXCEPT ![c] = "OIF"]
  /\ chan' = [chan EXCEPT ![x] = Append(@, Req("open", c, Serial(c), x))]
  /\ sends' = [sends EXCEPT ![c] = @ + 1]
  /\ UNCHANGED <<pending, feed, answered, link, conn>>

\* (a cancel may be sent for an order that has meanwhile been resolved: the request still travels,
\*  the engine's view of an untracked or already-cancelling order does not change)
EngineSendCancel(c) ==
  /\ sends[c] > 0 /\ sends[c] < MaxSends /\ link[home[c]] # "dead"
  /\ orders' = [orders EXCEPT ![c] = CASE @ = "OIF" -> "CIFn" [] @ = "Open" -> "CIFo" [] OTHER -> @]
  /\ chan' = [chan EXCEPT ![home[c]] = Append(@, Req("cancel", c, Serial(c), home[c]))]
  /\ sends' = [sends EXCEPT ![c] = @ + 1]
  /\ UNCHANGED <<home, pending, feed, answered, link, conn>>

(* ---- execution manager of exchange x (C07): accept, then exactly one of response / timeout ---- *)
\* (the manager starts serving requests once its client is connected: ExecutionManager::init
\*  forwards the client's account snapshot first)
MgrAccept(x) ==
  /\ chan[x] # <<>> /\ link[x] # "connecting"
  /\ pending' = pending \cup {Head(chan[x])}
  /\ chan' = [chan EXCEPT ![x] = Tail(@)]
  /\ UNCHANGED <<orders, home, feed, sends, answered, link, conn>>

\* the account event carries the exchange of the manager that produced it
Emit(r, kind) == /\ pending' = pending \ {r}
                 /\ feed' = Append(feed, [t |-> "item", c |-> r.c, kind |-> kind, x |-> r.x])
                 /\ answered' = (r :> 1) @@ answered
                 /\ UNCHANGED <<orders, home, chan, sends, link, conn>>

\* the client's own answer: open -> open on the book / filled / rejected ; cancel -> ok / err
ClientResponds(r) ==
  /\ r \in pending
  /\ \E res \in (IF r.k = "open" THEN {"open_ok", "open_filled", "open_failed"} ELSE {"cancel_ok", "cancel_err"}) :
        Emit(r, res)
\* no answer before the deadline: a timeout failure
TimeoutFires(r) ==
  /\ r \in pending
  /\ Emit(r, IF r.k = "open" THEN "open_failed" ELSE "cancel_err")

(* ---- the venue reports on its own: an open order fills or is cancelled there ---- *)
VenueReport(c) ==
  /\ orders[c] \in {"Open", "CIFo"} /\ Len(feed) < 2 /\ link[home[c]] # "dead"
  /\ \E k \in {"open_filled", "venue_cancelled"} :
        feed' = Append(feed, [t |-> "item", c |-> c, kind |-> k, x |-> home[c]])
  /\ UNCHANGED <<orders, home, chan, pending, sends, answered, link, conn>>

(* ---- the exchange's client connects: its first message is a full account snapshot ---- *)
Connect(x) ==
  /\ link[x] = "connecting"
  /\ link' = [link EXCEPT ![x] = "up"]
  /\ feed' = Append(feed, [t |-> "snap", c |-> "", kind |-> "", x |-> x])
  /\ UNCHANGED <<orders, home, chan, pending, sends, answered, conn>>

(* ---- an exchange's execution link dies (its task ends / is killed) once nothing is outstanding ---- *)
(* ---- on it: the account stream delivers exactly ONE disconnect notice naming that exchange      ---- *)
Quiet(x) == chan[x] = <<>> /\ \A r \in pending : r.x # x
KillLink(x) ==
  /\ link[x] = "up" /\ Quiet(x)
  /\ \A j \in 1..Len(feed) : feed[j].x # x          \* (and once its items have been consumed)
  /\ Cardinality({y \in EXCH : link[y] = "dead"}) < MaxKills
  /\ link' = [link EXCEPT ![x] = "dead"]
  /\ feed' = Append(feed, [t |-> "notice", c |-> "", kind |-> "", x |-> x])
  /\ UNCHANGED <<orders, home, chan, pending, sends, answered, conn>>

(* ---- engine processes one account event (C01's transitions on kinds) ---- *)
After(k, ev) ==
  CASE ev = "open_ok"      -> (CASE k \in {"CIFn", "CIFo"} -> "CIFo" [] OTHER -> "Open")
    [] ev \in {"open_filled", "open_failed", "venue_cancelled"} -> "U"
    [] ev = "cancel_ok"    -> "U"
    [] ev = "cancel_err"   -> (CASE k = "CIFo" -> "Open" [] k = "CIFn" -> "U" [] OTHER -> k)

\* an account item: C01's transition, and the item proves the link alive (C14: healthy again);
\* a disconnect notice: that exchange's account link is marked down, nothing else changes
EngineProcess ==
  /\ feed # <<>>
  /\ LET e == Head(feed) IN
       CASE e.t = "item" -> /\ orders' = [orders EXCEPT ![e.c] = After(@, e.kind)]
                            /\ conn' = [conn EXCEPT ![e.x] = "up"]
         [] e.t = "snap" -> /\ conn' = [conn EXCEPT ![e.x] = "up"]
                            /\ UNCHANGED orders
         [] OTHER        -> /\ conn' = [conn EXCEPT ![e.x] = "down"]
                            /\ UNCHANGED orders
  /\ feed' = Tail(feed)
  /\ UNCHANGED <<home, chan, pending, sends, answered, link>>

Next == \/ \E c \in CID : (\E x \in EXCH : EngineSendOpen(c, x)) \/ EngineSendCancel(c) \/ VenueReport(c)
        \/ \E x \in EXCH : MgrAccept(x) \/ Connect(x) \/ KillLink(x)
        \/ \E r \in pending : ClientResponds(r) \/ TimeoutFires(r)
        \/ EngineProcess

Answer(r) == ClientResponds(r) \/ TimeoutFires(r)

Spec == /\ Init /\ [][Next]_vars
        /\ \A x \in EXCH : WF_vars(MgrAccept(x)) /\ WF_vars(Connect(x))
        /\ WF_vars(EngineProcess)
        /\ \A c \in CID, n \in 1..MaxSends, k \in {"open", "cancel"}, x \in EXCH : WF_vars(Answer(Req(k, c, n, x)))

\* the same system without fairness of the response/timeout race: used only to show that
\* `Resolved` is not vacuous (TLC must find a counterexample: a request that is never answered)
SpecUnfairAnswer == Init /\ [][Next]_vars /\ (\A x \in EXCH : WF_vars(MgrAccept(x))) /\ WF_vars(EngineProcess)

(***************************************************************************)
(* Properties                                                               *)
(***************************************************************************)
TypeOK == /\ orders \in [CID -> {"U", "OIF", "Open", "CIFn", "CIFo"}]
          /\ home \in [CID -> EXCH \cup {NoExch}]
          /\ \A r \in pending : r.k \in {"open", "cancel"} /\ r.x \in EXCH
          /\ link \in [EXCH -> {"connecting", "up", "dead"}] /\ conn \in [EXCH -> {"up", "down"}]

\* C04 at the level of the composition: a request only ever travels on, is accepted by, and is
\* answered in the name of the exchange its order belongs to
Routed == /\ \A x \in EXCH : \A j \in 1..Len(chan[x]) : chan[x][j].x = x /\ home[chan[x][j].c] = x
          /\ \A r \in pending : home[r.c] = r.x
          /\ \A j \in 1..Len(feed) : feed[j].t = "item" => home[feed[j].c] = feed[j].x

\* C14 at the level of the composition: once the feed has drained, the engine shows an exchange's
\* account link healthy exactly when that link is up, and global health is the conjunction
GlobalHealthy == \A x \in EXCH : conn[x] = "up"
ConnMatchesLinks == feed = <<>> => \A x \in EXCH : (conn[x] = "up") <=> (link[x] = "up")
\* every link that comes up is seen healthy
Synced == \A x \in EXCH : (link[x] = "up") ~> (conn[x] = "up" \/ link[x] = "dead")
\* a dead link is noticed: its disconnect notice is eventually processed
Noticed == \A x \in EXCH : (link[x] = "dead") ~> (conn[x] = "down")

\* never two account events for one request (C07 AtMostOne, by construction of Emit)
AtMostOnce == \A r \in DOMAIN answered : answered[r] = 1

\* an in-flight marker always has a request on its way or an answer on its way
InFlightBacked ==
  \A c \in CID : InFlight(c) =>
     \/ \E x \in EXCH : \E j \in 1..Len(chan[x]) : chan[x][j].c = c
     \/ \E r \in pending : r.c = c
     \/ \E j \in 1..Len(feed) : feed[j].c = c

\* C07, last sentence: an order shown as in flight is always eventually resolved
Resolved == \A c \in CID : InFlight(c) ~> ~InFlight(c)
=============================================================================
