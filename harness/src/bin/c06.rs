//! C06 — Binance L2 sequencing conformance driver (spec/BinanceL2.tla).
//!
//! `c06 run    --scenarios f.ndjson --results r.ndjson --trace t.ndjson --mode direct|stream --seed S`
//!     replays TLC-generated behaviours `{rule, world, steps}` and compares outcome, local book,
//!     sequencer, connection state and notice count after every step (Pattern B), and logs the same
//!     run as an NDJSON trace (Pattern A, oracle Trace_BinanceL2.tla).
//! `c06 random --seed S --segments N --trace t.ndjson --mode direct|stream`
//!     seeded random worlds (~50 diff events per instrument, two instruments on one connection),
//!     deliveries perturbed by drop / duplicate / swap / replay-of-an-old-prefix / late or early start.
//!
//! What is real: the instrument map comes from `WebSocketSubMapper::map` over real `Subscription`s;
//! snapshots are `BinanceOrderBookL2Snapshot`s deserialised from synthesised REST payloads and turned
//! into `MarketEvent`s by the connector's own `From`; the transformer is created with
//! `ExchangeTransformer::init(map, &snapshots, ws_sink_tx)`; every depth update is a synthesised
//! websocket text payload parsed by `WebSocketParser::parse` (so the `s/E/T/U/u/pu/b/a` aliases are
//! bound) and given to `Transformer::transform`; every emitted `OrderBookEvent` is applied with
//! `OrderBook::update`.  Mode `stream` runs the same through the real
//! `ExchangeStream` + `init_reconnecting_stream` + `with_reconnect_backoff` +
//! `with_termination_on_error(DataError::is_terminal)` + `with_reconnection_events` chain (as
//! `init_market_stream` builds it), so an Error is observed as the end of the connection followed by
//! exactly one `Reconnecting` notice and a re-initialisation.  Stand-alone sequencers
//! (`Binance*OrderBookL2Sequencer::validate_sequence`) are fed the same parsed inputs in lockstep;
//! they provide the projected `{processed, lastId}` and the error value in stream mode.
//! Mode `init` additionally runs the REAL connection establishment
//! `<ExchangeWsStream<W> as MarketStream<X, _, OrderBooksL2>>::init::<ScriptedSnapshots>(&subs)`
//! (barter-data/src/lib.rs: WebSocketSubscriber::subscribe -> WebSocketSubValidator::validate ->
//! snapshot fetch -> Transformer::init -> process_buffered_events -> output queue) against a loopback
//! websocket server inside the harness, wrapped in the same reconnect combinators.  `X` is the real
//! Binance connector `Binance<Server>` with a harness `ExchangeServer` whose only difference is the
//! url (so requests / expected_responses = 1 / BinanceSubResponse / validator are Binance's own);
//! `W` delegates `init` and `transform` to the real Binance transformers.  The server sends scripted
//! depth frames BEFORE the subscription confirmation (`pre`), the confirmation, then further frames.
//! `--variant multi` (demonstration only, never part of the verdict) uses a harness connector with
//! the trait-default `expected_responses = number of subscriptions`, for which frames between two
//! confirmations are buffered (`buf`).
use barter_data::{
    books::{Level, OrderBook},
    error::DataError,
    event::MarketEvent,
    exchange::binance::{
        book::l2::BinanceOrderBookL2Snapshot,
        futures::{
            BinanceFuturesUsd,
            l2::{BinanceFuturesOrderBookL2Update, BinanceFuturesUsdOrderBookL2Sequencer, BinanceFuturesUsdOrderBooksL2Transformer},
        },
        spot::{
            BinanceSpot,
            l2::{BinanceSpotOrderBookL2Sequencer, BinanceSpotOrderBookL2Update, BinanceSpotOrderBooksL2Transformer},
        },
    },
    streams::{
        consumer::StreamKey,
        reconnect::{
            Event,
            stream::{ReconnectingStream, ReconnectionBackoffPolicy, init_reconnecting_stream},
        },
    },
    subscriber::mapper::{SubscriptionMapper, WebSocketSubMapper},
    subscription::{Map, Subscription, book::{OrderBookEvent, OrderBooksL2}},
    transformer::ExchangeTransformer,
};
use barter_instrument::{
    exchange::ExchangeId,
    instrument::market_data::{MarketDataInstrument, kind::MarketDataInstrumentKind},
};
use barter_integration::{
    Transformer,
    protocol::{
        StreamParser,
        websocket::{WebSocketParser, WsError, WsMessage},
    },
    stream::ExchangeStream,
};
use futures::{FutureExt, SinkExt, StreamExt, stream::LocalBoxStream};
use rand::{Rng, prelude::IndexedRandom};
use rust_decimal::Decimal;
use serde_json::{Value, json};
use std::{collections::BTreeMap, sync::Arc};
use tokio::sync::mpsc;
use tokio_stream::wrappers::UnboundedReceiverStream;
use vh::{cmp::json_match, util::*};

type Key = MarketDataInstrument;
type Out = Result<MarketEvent<Key, OrderBookEvent>, DataError>;

const INSTR: [(&str, &str, &str); 3] = [("i1", "btc", "BTCUSDT"), ("i2", "eth", "ETHUSDT"), ("i3", "sol", "SOLUSDT")];

/// the six orders in which three snapshots / subscriptions can be given
const ORDERS: [[usize; 3]; 6] = [[0, 1, 2], [0, 2, 1], [1, 0, 2], [1, 2, 0], [2, 0, 1], [2, 1, 0]];

#[derive(Clone, Copy, PartialEq, Debug)]
enum Rule {
    Spot,
    Futures,
}

impl Rule {
    fn of(s: &str) -> Rule {
        match s {
            "Spot" => Rule::Spot,
            "Futures" => Rule::Futures,
            r => usage(&format!("bad rule {r}")),
        }
    }
    fn name(&self) -> &'static str {
        if *self == Rule::Spot { "Spot" } else { "Futures" }
    }
    fn exchange(&self) -> ExchangeId {
        if *self == Rule::Spot { ExchangeId::BinanceSpot } else { ExchangeId::BinanceFuturesUsd }
    }
    fn key(&self, base: &str) -> Key {
        let kind = if *self == Rule::Spot { MarketDataInstrumentKind::Spot } else { MarketDataInstrumentKind::Perpetual };
        MarketDataInstrument::from((base, "usdt", kind))
    }
    /// the production instrument map: SubscriptionId -> instrument key
    fn map(&self) -> Map<Key> {
        match self {
            Rule::Spot => {
                let subs: Vec<Subscription<BinanceSpot, Key, OrderBooksL2>> =
                    INSTR.iter().map(|(_, b, _)| Subscription::new(BinanceSpot::default(), self.key(b), OrderBooksL2)).collect();
                WebSocketSubMapper::map(&subs).instrument_map
            }
            Rule::Futures => {
                let subs: Vec<Subscription<BinanceFuturesUsd, Key, OrderBooksL2>> =
                    INSTR.iter().map(|(_, b, _)| Subscription::new(BinanceFuturesUsd::default(), self.key(b), OrderBooksL2)).collect();
                WebSocketSubMapper::map(&subs).instrument_map
            }
        }
    }
}

fn pow10(e: i32) -> Decimal {
    if e >= 0 { Decimal::from(10i64.pow(e as u32)) } else { Decimal::new(1, (-e) as u32) }
}

/// spec units <-> wire values (ids shifted by `base`, prices / amounts scaled by powers of ten)
#[derive(Clone, Copy)]
struct Units {
    base: u64,
    ep: i32,
    ea: i32,
}

impl Units {
    fn draw<R: Rng>(rng: &mut R) -> Units {
        Units {
            base: *[0u64, 0, 1000, 22_611_425_143, 4_611_686_018_427_387_904].choose(rng).unwrap(),
            ep: *[0, 0, -2, 2].choose(rng).unwrap(),
            ea: *[0, 0, -3, -8].choose(rng).unwrap(),
        }
    }
    fn levels_wire(&self, list: &Value) -> Value {
        Value::Array(
            list.as_array()
                .unwrap_or_else(|| usage("level list expected"))
                .iter()
                .map(|l| {
                    let p = dec(i(l, "p")) * pow10(self.ep);
                    let a = dec(i(l, "a")) * pow10(self.ea);
                    json!([format!("{:.8}", p), format!("{:.8}", a)])
                })
                .collect(),
        )
    }
    fn id_out(&self, id: u64) -> i64 {
        (id as i128 - self.base as i128).clamp(-1_000_000, 1_000_000_000) as i64
    }
    fn vec_out(&self, levels: &[Level]) -> Value {
        Value::Array(levels.iter().map(|l| json!({"p": dec_json(l.price * pow10(-self.ep)), "a": dec_json(l.amount * pow10(-self.ea))})).collect())
    }
    fn book_out(&self, b: &OrderBook) -> Value {
        json!({"bids": self.vec_out(b.bids().levels()), "asks": self.vec_out(b.asks().levels()), "seq": self.id_out(b.sequence)})
    }
}

// ---------------------------------------------------------------------------------------------
// payload synthesis
// ---------------------------------------------------------------------------------------------
fn snapshot_payload(rule: Rule, un: Units, s: i64, book: &Value) -> String {
    let mut v = json!({"lastUpdateId": un.base + s as u64, "bids": un.levels_wire(&book["bids"]), "asks": un.levels_wire(&book["asks"])});
    if rule == Rule::Futures {
        v["E"] = json!(1589436922972u64);
        v["T"] = json!(1589436922959u64);
    }
    v.to_string()
}

fn snapshot_event(rule: Rule, un: Units, base: &str, s: i64, book: &Value) -> MarketEvent<Key, OrderBookEvent> {
    let snapshot: BinanceOrderBookL2Snapshot =
        serde_json::from_str(&snapshot_payload(rule, un, s, book)).unwrap_or_else(|e| usage(&format!("snapshot payload: {e}")));
    MarketEvent::from((rule.exchange(), rule.key(base), snapshot))
}

fn update_payload(rule: Rule, un: Units, symbol: &str, ev: &Value) -> String {
    let mut v = json!({
        "e": "depthUpdate", "E": 1671656397761u64, "s": symbol,
        "U": un.base + i(ev, "U") as u64, "u": un.base + i(ev, "u") as u64,
        "b": un.levels_wire(&ev["b"]), "a": un.levels_wire(&ev["a"]),
    });
    if rule == Rule::Futures {
        v["T"] = json!(1671656397760u64);
        v["pu"] = json!(un.base + i(ev, "pu") as u64);
    }
    v.to_string()
}

// ---------------------------------------------------------------------------------------------
// lockstep stand-alone sequencers (real code) - projection of {processed, lastId}
// ---------------------------------------------------------------------------------------------
enum Sequencer {
    Spot(BinanceSpotOrderBookL2Sequencer),
    Futures(BinanceFuturesUsdOrderBookL2Sequencer),
}

impl Sequencer {
    fn new(rule: Rule, last: u64) -> Self {
        match rule {
            Rule::Spot => Sequencer::Spot(BinanceSpotOrderBookL2Sequencer::new(last)),
            Rule::Futures => Sequencer::Futures(BinanceFuturesUsdOrderBookL2Sequencer::new(last)),
        }
    }
    /// "Dropped" | "Admitted" | Err(error)
    fn feed(&mut self, payload: &str) -> Result<&'static str, DataError> {
        let r = match self {
            Sequencer::Spot(s) => {
                let input: BinanceSpotOrderBookL2Update = serde_json::from_str(payload).unwrap_or_else(|e| usage(&format!("payload: {e}")));
                s.validate_sequence(input).map(|o| o.is_some())
            }
            Sequencer::Futures(s) => {
                let input: BinanceFuturesOrderBookL2Update = serde_json::from_str(payload).unwrap_or_else(|e| usage(&format!("payload: {e}")));
                s.validate_sequence(input).map(|o| o.is_some())
            }
        };
        r.map(|some| if some { "Admitted" } else { "Dropped" })
    }
    fn state(&self, un: Units) -> Value {
        let (p, l) = match self {
            Sequencer::Spot(s) => (s.updates_processed, s.last_update_id),
            Sequencer::Futures(s) => (s.updates_processed, s.last_update_id),
        };
        json!({"processed": p, "lastId": un.id_out(l)})
    }
}

// ---------------------------------------------------------------------------------------------
// the connection under test
// ---------------------------------------------------------------------------------------------
enum Seen {
    Item(Out),
    Reconnecting,
}

/// One scripted connection: REST snapshots and the depth frames the venue sends around the
/// subscription confirmation(s).
struct ConnPlan {
    snaps: Vec<MarketEvent<Key, OrderBookEvent>>,
    /// (symbol, REST payload) - what the scripted snapshot fetcher of mode `init` returns
    snap_payloads: Vec<(String, String)>,
    /// frames sent before the first confirmation
    pre: Vec<String>,
    /// frames sent between the first and the last expected confirmation
    buf: Vec<String>,
    /// order of the instruments in the snapshot slice (modes direct / stream: per connection) and of
    /// the subscriptions (mode init: fixed when the stream is opened)
    order: [usize; 3],
}

trait Link {
    /// open the next connection; returns what the consumer sees
    fn connect(&mut self, plan: ConnPlan) -> Result<Vec<Seen>, String>;
    /// one websocket text frame; returns what the consumer sees
    fn feed(&mut self, payload: String) -> Result<Vec<Seen>, String>;
}

// ---- mode direct: the transformer alone -------------------------------------------------------
struct Direct<Tr> {
    rule: Rule,
    tr: Option<Tr>,
    make: fn(Map<Key>, &[MarketEvent<Key, OrderBookEvent>]) -> Result<Tr, DataError>,
}

fn make_spot(map: Map<Key>, snaps: &[MarketEvent<Key, OrderBookEvent>]) -> Result<BinanceSpotOrderBooksL2Transformer<Key>, DataError> {
    let (tx, _rx) = mpsc::unbounded_channel();
    <BinanceSpotOrderBooksL2Transformer<Key> as ExchangeTransformer<BinanceSpot, Key, OrderBooksL2>>::init(map, snaps, tx)
        .now_or_never()
        .expect("init does not wait")
}

fn make_futures(map: Map<Key>, snaps: &[MarketEvent<Key, OrderBookEvent>]) -> Result<BinanceFuturesUsdOrderBooksL2Transformer<Key>, DataError> {
    let (tx, _rx) = mpsc::unbounded_channel();
    <BinanceFuturesUsdOrderBooksL2Transformer<Key> as ExchangeTransformer<BinanceFuturesUsd, Key, OrderBooksL2>>::init(map, snaps, tx)
        .now_or_never()
        .expect("init does not wait")
}

impl<Tr> Link for Direct<Tr>
where
    Tr: Transformer<Error = DataError, Output = MarketEvent<Key, OrderBookEvent>, OutputIter = Vec<Out>>,
    Tr::Input: serde::de::DeserializeOwned,
{
    fn connect(&mut self, plan: ConnPlan) -> Result<Vec<Seen>, String> {
        if !plan.pre.is_empty() || !plan.buf.is_empty() {
            usage("frames around the subscription confirmation need --mode init");
        }
        let snaps = plan.snaps;
        let rule = self.rule;
        let make = self.make;
        let tr = catch(|| make(rule.map(), &snaps))?.map_err(|e| format!("Transformer::init failed: {e}"))?;
        self.tr = Some(tr);
        // the stream hands the snapshot events to the consumer first (ExchangeStream buffer)
        Ok(snaps.into_iter().map(|s| Seen::Item(Ok(s))).collect())
    }
    fn feed(&mut self, payload: String) -> Result<Vec<Seen>, String> {
        let tr = self.tr.as_mut().ok_or("no connection")?;
        catch(|| match WebSocketParser::parse::<Tr::Input>(Ok(WsMessage::text(payload))) {
            Some(Ok(input)) => tr.transform(input).into_iter().map(Seen::Item).collect(),
            Some(Err(e)) => vec![Seen::Item(Err(DataError::from(e)))],
            None => vec![],
        })
    }
}

// ---- mode stream: ExchangeStream + the reconnect combinators ----------------------------------
struct ConnSpec {
    snaps: Vec<MarketEvent<Key, OrderBookEvent>>,
    ws_rx: mpsc::UnboundedReceiver<Result<WsMessage, WsError>>,
}

struct Streamed {
    stream: Option<LocalBoxStream<'static, Event<ExchangeId, Out>>>,
    spec_tx: mpsc::UnboundedSender<ConnSpec>,
    spec_rx: Option<mpsc::UnboundedReceiver<ConnSpec>>,
    ws_tx: Option<mpsc::UnboundedSender<Result<WsMessage, WsError>>>,
    rule: Rule,
}

fn pipeline<Tr>(
    rule: Rule,
    spec_rx: mpsc::UnboundedReceiver<ConnSpec>,
    make: fn(Map<Key>, &[MarketEvent<Key, OrderBookEvent>]) -> Result<Tr, DataError>,
) -> LocalBoxStream<'static, Event<ExchangeId, Out>>
where
    Tr: Transformer<Error = DataError, Output = MarketEvent<Key, OrderBookEvent>, OutputIter = Vec<Out>> + 'static,
    Tr::Input: serde::de::DeserializeOwned,
{
    let specs = Arc::new(tokio::sync::Mutex::new(spec_rx));
    let init = move || {
        let specs = specs.clone();
        async move {
            // "connect + subscribe + fetch snapshots": the next scripted connection
            let spec = specs.lock().await.recv().await.ok_or(DataError::SubscriptionsEmpty)?;
            let transformer = make(rule.map(), &spec.snaps)?;
            let buffer = spec.snaps.into_iter().map(Ok).collect();
            Ok::<_, DataError>(ExchangeStream::<WebSocketParser, _, Tr>::new(UnboundedReceiverStream::new(spec.ws_rx), transformer, buffer))
        }
    };
    let key = StreamKey::new("market_stream", rule.exchange(), Some("l2"));
    let policy = ReconnectionBackoffPolicy { backoff_ms_initial: 125, backoff_multiplier: 2, backoff_ms_max: 60000 };
    // exactly the chain of barter_data::streams::consumer::init_market_stream
    let reconnecting = init_reconnecting_stream(init).now_or_never().expect("first connection is scripted").expect("first init succeeds");
    reconnecting
        .with_reconnect_backoff::<_, DataError>(policy, key)
        .with_termination_on_error(|error: &DataError| error.is_terminal(), key)
        .with_reconnection_events(rule.exchange())
        .boxed_local()
}

impl Streamed {
    fn new(rule: Rule) -> Self {
        let (spec_tx, spec_rx) = mpsc::unbounded_channel();
        Streamed { stream: None, spec_tx, spec_rx: Some(spec_rx), ws_tx: None, rule }
    }
    fn drain(&mut self) -> Result<Vec<Seen>, String> {
        let stream = self.stream.as_mut().ok_or("no stream")?;
        catch(|| {
            let mut seen = vec![];
            // poll until the pipeline has nothing more to say
            while let Some(next) = stream.next().now_or_never() {
                match next {
                    Some(Event::Item(out)) => seen.push(Seen::Item(out)),
                    Some(Event::Reconnecting(_)) => seen.push(Seen::Reconnecting),
                    None => break,
                }
                if seen.len() > 64 {
                    break;
                }
            }
            seen
        })
    }
}

impl Link for Streamed {
    fn connect(&mut self, plan: ConnPlan) -> Result<Vec<Seen>, String> {
        if !plan.pre.is_empty() || !plan.buf.is_empty() {
            usage("frames around the subscription confirmation need --mode init");
        }
        let snaps = plan.snaps;
        let (ws_tx, ws_rx) = mpsc::unbounded_channel();
        self.ws_tx = Some(ws_tx);
        self.spec_tx.send(ConnSpec { snaps, ws_rx }).map_err(|_| "pipeline dropped its connection source".to_string())?;
        if self.stream.is_none() {
            let rx = self.spec_rx.take().ok_or("pipeline already built")?;
            let rule = self.rule;
            self.stream = Some(catch(|| match rule {
                Rule::Spot => pipeline::<BinanceSpotOrderBooksL2Transformer<Key>>(rule, rx, make_spot),
                Rule::Futures => pipeline::<BinanceFuturesUsdOrderBooksL2Transformer<Key>>(rule, rx, make_futures),
            })?);
        }
        self.drain()
    }
    fn feed(&mut self, payload: String) -> Result<Vec<Seen>, String> {
        self.ws_tx.as_ref().ok_or("no connection")?.send(Ok(WsMessage::text(payload))).map_err(|_| "connection closed by the pipeline".to_string())?;
        self.drain()
    }
}

// ---- mode init: the real ExchangeWsStream::init over a loopback websocket ------------------------
mod looped {
    //! Harness-side venue: a loopback websocket server playing Binance, the harness `ExchangeServer`s
    //! that point the REAL `Binance<Server>` connector at it, a scripted `SnapshotFetcher`, wrapper
    //! transformers delegating to the real Binance transformers, and (demonstration only) a connector
    //! with the trait-default `expected_responses`.
    use super::*;
    use async_trait::async_trait;
    use barter_data::{
        ExchangeWsStream, Identifier, MarketStream, SnapshotFetcher,
        exchange::{
            Connector, ExchangeServer,
            binance::{Binance, subscription::BinanceSubResponse},
            subscription::ExchangeSub,
        },
        instrument::InstrumentData,
        subscriber::{WebSocketSubscriber, validator::WebSocketSubValidator},
        subscription::SubscriptionKind,
    };
    use barter_integration::error::SocketError;
    use serde::{Deserialize, Serialize};
    use std::{
        future::Future,
        marker::PhantomData,
        pin::Pin,
        sync::{Mutex, OnceLock},
        time::Duration,
    };
    use tokio::runtime::Runtime;

    static RT: OnceLock<Runtime> = OnceLock::new();
    static LOOP_URL: OnceLock<&'static str> = OnceLock::new();
    static SCRIPTS: OnceLock<mpsc::UnboundedSender<ConnScript>> = OnceLock::new();
    /// what the scripted REST endpoint answers: (symbol, payload)
    static SNAPSHOTS: Mutex<Vec<(String, String)>> = Mutex::new(Vec::new());
    /// the subscription requests the server received on its latest connection
    pub static REQUESTS: Mutex<Vec<String>> = Mutex::new(Vec::new());

    pub fn rt() -> &'static Runtime {
        RT.get_or_init(|| tokio::runtime::Builder::new_multi_thread().worker_threads(2).enable_all().build().expect("runtime"))
    }

    // -- the venue ---------------------------------------------------------------------------------
    pub enum Cmd {
        Send(Vec<String>),
    }

    pub struct ConnScript {
        pub pre: Vec<String>,
        pub buf: Vec<String>,
        pub confirmations: usize,
        pub first_barrier: String,
        pub cmd_rx: mpsc::UnboundedReceiver<Cmd>,
    }

    pub fn push_script(script: ConnScript) {
        start_server();
        SCRIPTS.get().expect("server").send(script).unwrap_or_else(|_| usage("loopback server is gone"));
    }

    fn start_server() {
        if LOOP_URL.get().is_some() {
            return;
        }
        let (tx, rx) = mpsc::unbounded_channel::<ConnScript>();
        let listener = rt().block_on(tokio::net::TcpListener::bind("127.0.0.1:0")).expect("bind loopback");
        let addr = listener.local_addr().expect("addr");
        let _ = SCRIPTS.set(tx);
        let _ = LOOP_URL.set(Box::leak(format!("ws://{addr}").into_boxed_str()));
        let scripts = Arc::new(tokio::sync::Mutex::new(rx));
        rt().spawn(async move {
            loop {
                let Ok((stream, _)) = listener.accept().await else { continue };
                let _ = stream.set_nodelay(true);
                let scripts = scripts.clone();
                tokio::spawn(async move {
                    let Ok(mut ws) = tokio_tungstenite::accept_async(stream).await else { return };
                    let Some(mut script) = scripts.lock().await.recv().await else { return };
                    // the client's SUBSCRIBE request(s): Binance sends one
                    let Some(Ok(WsMessage::Text(request))) = ws.next().await else { return };
                    {
                        let mut r = REQUESTS.lock().unwrap();
                        r.clear();
                        r.push(request.to_string());
                    }
                    // depth frames may precede the confirmation; more may sit between two confirmations
                    for f in script.pre.drain(..) {
                        if ws.send(WsMessage::text(f)).await.is_err() { return }
                    }
                    for c in 0..script.confirmations {
                        if ws.send(WsMessage::text(r#"{"result":null,"id":1}"#.to_string())).await.is_err() { return }
                        if c == 0 {
                            for f in script.buf.drain(..) {
                                if ws.send(WsMessage::text(f)).await.is_err() { return }
                            }
                        }
                    }
                    if ws.send(WsMessage::text(script.first_barrier.clone())).await.is_err() { return }
                    loop {
                        tokio::select! {
                            cmd = script.cmd_rx.recv() => match cmd {
                                Some(Cmd::Send(frames)) => {
                                    for f in frames {
                                        if ws.send(WsMessage::text(f)).await.is_err() { return }
                                    }
                                }
                                None => { let _ = ws.close(None).await; return }
                            },
                            msg = ws.next() => match msg {
                                Some(Ok(_)) => {}
                                _ => return, // the client dropped the connection
                            },
                        }
                    }
                });
            }
        });
    }

    fn loop_url() -> &'static str {
        start_server();
        LOOP_URL.get().expect("loopback url")
    }

    // -- the real Binance connector, pointed at the loopback server ---------------------------------
    #[derive(Copy, Clone, Eq, PartialEq, Ord, PartialOrd, Hash, Debug, Default)]
    pub struct LoopSpot;
    impl ExchangeServer for LoopSpot {
        const ID: ExchangeId = ExchangeId::BinanceSpot;
        fn websocket_url() -> &'static str {
            loop_url()
        }
    }
    #[derive(Copy, Clone, Eq, PartialEq, Ord, PartialOrd, Hash, Debug, Default)]
    pub struct LoopFutures;
    impl ExchangeServer for LoopFutures {
        const ID: ExchangeId = ExchangeId::BinanceFuturesUsd;
        fn websocket_url() -> &'static str {
            loop_url()
        }
    }

    // -- demonstration only: same wire format, trait-default expected_responses (= subscriptions) ---
    #[derive(Clone, Debug)]
    pub struct MChannel(&'static str);
    impl AsRef<str> for MChannel {
        fn as_ref(&self) -> &str {
            self.0
        }
    }
    #[derive(Clone, Debug)]
    pub struct MMarket(String);
    impl AsRef<str> for MMarket {
        fn as_ref(&self) -> &str {
            &self.0
        }
    }
    macro_rules! multi_connector {
        ($name:ident, $id:expr) => {
            #[derive(Copy, Clone, Eq, PartialEq, Debug, Default, Deserialize, Serialize)]
            pub struct $name;
            impl Connector for $name {
                const ID: ExchangeId = $id;
                type Channel = MChannel;
                type Market = MMarket;
                type Subscriber = WebSocketSubscriber;
                type SubValidator = WebSocketSubValidator;
                type SubResponse = BinanceSubResponse;
                fn url() -> Result<url::Url, SocketError> {
                    url::Url::parse(loop_url()).map_err(SocketError::UrlParse)
                }
                fn requests(subs: Vec<ExchangeSub<Self::Channel, Self::Market>>) -> Vec<WsMessage> {
                    let names: Vec<String> = subs.iter().map(|s| format!("{}{}", s.market.as_ref().to_lowercase(), s.channel.as_ref())).collect();
                    vec![WsMessage::text(json!({"method": "SUBSCRIBE", "params": names, "id": 1}).to_string())]
                }
                // expected_responses: the trait default, one confirmation per subscription
            }
            impl Identifier<MChannel> for Subscription<$name, Key, OrderBooksL2> {
                fn id(&self) -> MChannel {
                    MChannel("@depth@100ms")
                }
            }
            impl Identifier<MMarket> for Subscription<$name, Key, OrderBooksL2> {
                fn id(&self) -> MMarket {
                    MMarket(format!("{}{}", self.instrument.base, self.instrument.quote).to_uppercase())
                }
            }
        };
    }
    multi_connector!(MultiSpot, ExchangeId::BinanceSpot);
    multi_connector!(MultiFutures, ExchangeId::BinanceFuturesUsd);

    // -- scripted REST snapshots ---------------------------------------------------------------------
    #[derive(Debug)]
    pub struct ScriptedSnapshots;

    pub fn script_snapshots(v: Vec<(String, String)>) {
        *SNAPSHOTS.lock().unwrap() = v;
    }

    impl<X> SnapshotFetcher<X, OrderBooksL2> for ScriptedSnapshots {
        fn fetch_snapshots<Instrument>(
            subscriptions: &[Subscription<X, Instrument, OrderBooksL2>],
        ) -> impl Future<Output = Result<Vec<MarketEvent<Instrument::Key, <OrderBooksL2 as SubscriptionKind>::Event>>, SocketError>> + Send
        where
            X: Connector,
            Instrument: InstrumentData,
            OrderBooksL2: SubscriptionKind,
            <OrderBooksL2 as SubscriptionKind>::Event: Send,
            Subscription<X, Instrument, OrderBooksL2>: Identifier<X::Market>,
        {
            let scripted = SNAPSHOTS.lock().unwrap().clone();
            let events = subscriptions
                .iter()
                .map(|sub| {
                    let market: X::Market = sub.id();
                    let (_, payload) = scripted
                        .iter()
                        .find(|(symbol, _)| symbol == market.as_ref())
                        .ok_or_else(|| SocketError::Subscribe(format!("no scripted snapshot for {}", market.as_ref())))?;
                    // exactly what the Binance fetchers do with the HTTP body
                    let snapshot: BinanceOrderBookL2Snapshot =
                        serde_json::from_str(payload).map_err(|error| SocketError::Deserialise { error, payload: payload.clone() })?;
                    Ok(MarketEvent::from((X::ID, sub.instrument.key().clone(), snapshot)))
                })
                .collect::<Result<Vec<_>, SocketError>>();
            std::future::ready(events)
        }
    }

    // -- wrapper transformers: the generic init sees W, all behaviour is the real transformer's -------
    pub struct Wrap<X, T>(T, PhantomData<fn() -> X>);

    impl<X, T: Transformer> Transformer for Wrap<X, T> {
        type Error = T::Error;
        type Input = T::Input;
        type Output = T::Output;
        type OutputIter = T::OutputIter;
        fn transform(&mut self, input: Self::Input) -> Self::OutputIter {
            self.0.transform(input)
        }
    }

    #[async_trait]
    impl<X: 'static> ExchangeTransformer<X, Key, OrderBooksL2> for Wrap<X, BinanceSpotOrderBooksL2Transformer<Key>> {
        async fn init(map: Map<Key>, snaps: &[MarketEvent<Key, OrderBookEvent>], tx: mpsc::UnboundedSender<WsMessage>) -> Result<Self, DataError> {
            let real = <BinanceSpotOrderBooksL2Transformer<Key> as ExchangeTransformer<BinanceSpot, Key, OrderBooksL2>>::init(map, snaps, tx).await?;
            Ok(Wrap(real, PhantomData))
        }
    }

    #[async_trait]
    impl<X: 'static> ExchangeTransformer<X, Key, OrderBooksL2> for Wrap<X, BinanceFuturesUsdOrderBooksL2Transformer<Key>> {
        async fn init(map: Map<Key>, snaps: &[MarketEvent<Key, OrderBookEvent>], tx: mpsc::UnboundedSender<WsMessage>) -> Result<Self, DataError> {
            let real = <BinanceFuturesUsdOrderBooksL2Transformer<Key> as ExchangeTransformer<BinanceFuturesUsd, Key, OrderBooksL2>>::init(map, snaps, tx).await?;
            Ok(Wrap(real, PhantomData))
        }
    }

    // -- the consumer's stream: init_market_stream's chain around the real MarketStream::init ----------
    pub type Consumer = Pin<Box<dyn futures::Stream<Item = Event<ExchangeId, Out>>>>;

    async fn open<X, W>(rule: Rule, order: [usize; 3]) -> Result<Consumer, DataError>
    where
        X: Connector + Send + Sync + 'static,
        W: ExchangeTransformer<X, Key, OrderBooksL2> + Send + Unpin + 'static,
        W::Input: serde::de::DeserializeOwned,
        Subscription<X, Key, OrderBooksL2>: Identifier<X::Channel> + Identifier<X::Market>,
    {
        // (the snapshot fetcher answers in subscription order, as the Binance fetchers do)
        let subs: Vec<Subscription<X, Key, OrderBooksL2>> = order.iter().map(|&j| Subscription::new(X::default(), rule.key(INSTR[j].1), OrderBooksL2)).collect();
        let key = StreamKey::new("market_stream", X::ID, Some("l2"));
        let policy = ReconnectionBackoffPolicy { backoff_ms_initial: 125, backoff_multiplier: 2, backoff_ms_max: 60000 };
        let stream = init_reconnecting_stream(move || {
            let subs = subs.clone();
            async move { <ExchangeWsStream<W> as MarketStream<X, Key, OrderBooksL2>>::init::<ScriptedSnapshots>(&subs).await }
        })
        .await?
        .with_reconnect_backoff::<_, DataError>(policy, key)
        .with_termination_on_error(|error: &DataError| error.is_terminal(), key)
        .with_reconnection_events(X::ID);
        Ok(Box::pin(stream))
    }

    pub struct InitLink {
        rule: Rule,
        multi: bool,
        stream: Option<Consumer>,
        cmd_tx: Option<mpsc::UnboundedSender<Cmd>>,
        conn_no: u64,
        barrier_no: u64,
    }

    impl InitLink {
        pub fn new(rule: Rule, multi: bool) -> Self {
            InitLink { rule, multi, stream: None, cmd_tx: None, conn_no: 0, barrier_no: 0 }
        }
        fn barrier(&self) -> String {
            json!({"vh-barrier": format!("{}-{}", self.conn_no, self.barrier_no)}).to_string()
        }
        /// what the consumer receives up to the current barrier (or up to the reconnect notice)
        fn pump(&mut self) -> Result<Vec<Seen>, String> {
            let mark = format!("{}-{}", self.conn_no, self.barrier_no);
            let stream = self.stream.as_mut().ok_or("no stream")?;
            rt().block_on(async {
                let mut seen = vec![];
                loop {
                    match tokio::time::timeout(Duration::from_secs(8), stream.next()).await {
                        Err(_) => return Err(format!("the consumer received nothing for 8 s (waiting for barrier {mark}); so far {} item(s)", seen.len())),
                        Ok(None) => return Err("the reconnecting stream ended".to_string()),
                        Ok(Some(Event::Reconnecting(_))) => {
                            seen.push(Seen::Reconnecting);
                            return Ok(seen);
                        }
                        Ok(Some(Event::Item(Err(DataError::Socket(m))))) if m.contains("vh-barrier") => {
                            if m.contains(&mark) {
                                return Ok(seen);
                            }
                        }
                        Ok(Some(Event::Item(out))) => seen.push(Seen::Item(out)),
                    }
                }
            })
        }
    }

    impl Link for InitLink {
        fn connect(&mut self, plan: ConnPlan) -> Result<Vec<Seen>, String> {
            let order = plan.order;
            script_snapshots(plan.snap_payloads);
            let (cmd_tx, cmd_rx) = mpsc::unbounded_channel();
            self.cmd_tx = Some(cmd_tx);
            self.conn_no += 1;
            self.barrier_no = 0;
            push_script(ConnScript {
                pre: plan.pre,
                buf: plan.buf,
                confirmations: if self.multi { INSTR.len() } else { 1 },
                first_barrier: self.barrier(),
                cmd_rx,
            });
            if self.stream.is_none() {
                let (rule, multi) = (self.rule, self.multi);
                let opened = catch(|| {
                    rt().block_on(async move {
                        match (rule, multi) {
                            (Rule::Spot, false) => open::<Binance<LoopSpot>, Wrap<Binance<LoopSpot>, BinanceSpotOrderBooksL2Transformer<Key>>>(rule, order).await,
                            (Rule::Futures, false) => open::<Binance<LoopFutures>, Wrap<Binance<LoopFutures>, BinanceFuturesUsdOrderBooksL2Transformer<Key>>>(rule, order).await,
                            (Rule::Spot, true) => open::<MultiSpot, Wrap<MultiSpot, BinanceSpotOrderBooksL2Transformer<Key>>>(rule, order).await,
                            (Rule::Futures, true) => open::<MultiFutures, Wrap<MultiFutures, BinanceFuturesUsdOrderBooksL2Transformer<Key>>>(rule, order).await,
                        }
                    })
                })?;
                self.stream = Some(opened.map_err(|e| format!("MarketStream::init failed: {e}"))?);
            }
            catch(|| self.pump())?
        }
        fn feed(&mut self, payload: String) -> Result<Vec<Seen>, String> {
            self.barrier_no += 1;
            let barrier = self.barrier();
            self.cmd_tx.as_ref().ok_or("no connection")?.send(Cmd::Send(vec![payload, barrier])).map_err(|_| "the venue side of the connection is gone".to_string())?;
            catch(|| self.pump())?
        }
    }
}

// ---------------------------------------------------------------------------------------------
// one world under test (both modes): books, lockstep sequencers, connection state
// ---------------------------------------------------------------------------------------------
struct Bench {
    rule: Rule,
    un: Units,
    link: Box<dyn Link>,
    books: BTreeMap<String, OrderBook>,
    seqs: BTreeMap<String, Sequencer>,
    conn_up: bool,
    notices: u64,
    /// the reconnect combinators are in the loop (modes stream and init)
    mode_stream: bool,
    mode_init: bool,
    /// the completed world (events per instrument), to attribute emitted updates to event indices
    world: Value,
}

fn instr_of_key(rule: Rule, key: &Key) -> Option<&'static str> {
    INSTR.iter().find(|(_, b, _)| &rule.key(b) == key).map(|(n, _, _)| *n)
}

impl Bench {
    fn new(rule: Rule, un: Units, mode: &str, multi: bool, world: &Value) -> Bench {
        let link: Box<dyn Link> = match (mode, rule) {
            ("direct", Rule::Spot) => Box::new(Direct { rule, tr: None, make: make_spot }),
            ("direct", Rule::Futures) => Box::new(Direct { rule, tr: None, make: make_futures }),
            ("stream", _) => Box::new(Streamed::new(rule)),
            ("init", _) => Box::new(looped::InitLink::new(rule, multi)),
            (m, _) => usage(&format!("bad mode {m}")),
        };
        Bench {
            rule, un, link, books: BTreeMap::new(), seqs: BTreeMap::new(), conn_up: false, notices: 0,
            mode_stream: mode != "direct", mode_init: mode == "init", world: world.clone(),
        }
    }

    /// index of the event of `name` whose last update id is `u` (spec units), -1 if none
    fn event_index(&self, name: &str, u: i64) -> i64 {
        self.world[name]["events"].as_array().and_then(|evs| evs.iter().position(|e| i(e, "u") == u)).map(|p| p as i64 + 1).unwrap_or(-1)
    }

    /// What arrived: as words, and as emission items {t,i,k} in order (t = S snapshot with k = its id,
    /// U update with k = event index, E sequence error / reconnect notice with i,k filled by the caller).
    /// Updates the local books exactly as a consumer would.
    fn apply(&mut self, seen: Vec<Seen>) -> (Vec<String>, Vec<Value>, Option<DataError>) {
        let mut words = vec![];
        let mut emit = vec![];
        let mut err = None;
        for s in seen {
            match s {
                Seen::Item(Ok(ev)) => {
                    let Some(name) = instr_of_key(self.rule, &ev.instrument) else {
                        words.push("ForeignInstrument".into());
                        continue;
                    };
                    words.push(match &ev.kind {
                        OrderBookEvent::Snapshot(_) => format!("Snapshot:{name}"),
                        OrderBookEvent::Update(_) => format!("Update:{name}"),
                    });
                    emit.push(match &ev.kind {
                        OrderBookEvent::Snapshot(b) => json!({"t": "S", "i": name, "k": self.un.id_out(b.sequence)}),
                        OrderBookEvent::Update(b) => json!({"t": "U", "i": name, "k": self.event_index(name, self.un.id_out(b.sequence))}),
                    });
                    let book = self.books.entry(name.to_string()).or_default();
                    if let Err(p) = catch(|| book.update(ev.kind)) {
                        words.push(format!("Panic:{p}"));
                    }
                }
                Seen::Item(Err(e)) => {
                    words.push("Err".into());
                    emit.push(json!({"t": "E", "i": "?", "k": 0}));
                    if e.is_terminal() && !self.mode_stream {
                        // without the combinators the terminal error itself is the break
                        self.conn_up = false;
                        self.notices += 1;
                    }
                    err = Some(e);
                }
                Seen::Reconnecting => {
                    words.push("Reconnecting".into());
                    emit.push(json!({"t": "E", "i": "?", "k": 0}));
                    self.conn_up = false;
                    self.notices += 1;
                }
            }
        }
        (words, emit, err)
    }

    fn frame(&self, f: &Value) -> (String, String) {
        let name = s(f, "i");
        let symbol = INSTR.iter().find(|(n, _, _)| *n == name).unwrap_or_else(|| usage("instrument")).2;
        let ev = &self.world[name]["events"][(i(f, "k") - 1) as usize];
        (name.to_string(), update_payload(self.rule, self.un, symbol, ev))
    }

    /// (Re)connect with snapshots `snap[i]` / `books[i]` (spec units); `pre` / `buf` = frames [{i,k}] the
    /// venue sends before the first / between the first and last subscription confirmation (mode init).
    /// Returns (anomaly, what the consumer received in order).
    fn connect(&mut self, snap: &Value, books: &Value, pre: &Value, buf: &Value, order: [usize; 3]) -> (Option<String>, Vec<Value>) {
        let snaps: Vec<_> = order.iter().map(|&j| INSTR[j]).map(|(n, b, _)| snapshot_event(self.rule, self.un, b, i(snap, n), &books[n])).collect();
        let snap_payloads = INSTR.iter().map(|(n, _, sym)| (sym.to_string(), snapshot_payload(self.rule, self.un, i(snap, n), &books[*n]))).collect();
        for (n, _, _) in INSTR {
            self.seqs.insert(n.to_string(), Sequencer::new(self.rule, self.un.base + i(snap, n) as u64));
        }
        let frames = |v: &Value| -> Vec<(String, String)> { v.as_array().map(|a| a.iter().map(|f| self.frame(f)).collect()).unwrap_or_default() };
        let (pre_f, buf_f) = (frames(pre), frames(buf));
        // the stand-alone sequencers see the buffered frames in order (until one errors); frames sent
        // before the first confirmation never reach a transformer
        let mut failed: Option<(String, i64)> = None;
        for (f, (name, payload)) in buf.as_array().cloned().unwrap_or_default().iter().zip(&buf_f) {
            if failed.is_none() && self.seqs.get_mut(name).expect("sequencer").feed(payload).is_err() {
                failed = Some((name.clone(), i(f, "k")));
            }
        }
        let plan = ConnPlan { snaps, snap_payloads, pre: pre_f.into_iter().map(|x| x.1).collect(), buf: buf_f.into_iter().map(|x| x.1).collect(), order };
        match self.link.connect(plan) {
            Err(p) => (Some(format!("panic / failure: {p}")), vec![]),
            Ok(seen) => {
                self.conn_up = true;
                let (words, mut emit, _) = self.apply(seen);
                for it in emit.iter_mut().filter(|it| it["t"] == "E") {
                    if let Some((n, k)) = &failed {
                        it["i"] = json!(n);
                        it["k"] = json!(k);
                    }
                }
                let mut anomaly = None;
                if words.iter().any(|w| w.starts_with("Panic") || w == "ForeignInstrument") {
                    anomaly = Some(format!("connection start showed {words:?}"));
                }
                if self.mode_init {
                    let req = looped::REQUESTS.lock().unwrap().join(" ");
                    if !INSTR.iter().all(|(_, _, sym)| req.contains(&format!("{}@depth@100ms", sym.to_lowercase()))) {
                        anomaly = Some(format!("the subscription request does not name the depth streams of both instruments: {req}"));
                    }
                }
                (anomaly, emit)
            }
        }
    }

    /// Deliver event `k` = `ev` of instrument `name`. Returns (out, err, terminal, emitted items).
    fn deliver(&mut self, name: &str, k: i64, ev: &Value) -> (String, String, bool, Vec<Value>) {
        let symbol = INSTR.iter().find(|(n, _, _)| *n == name).unwrap_or_else(|| usage("instrument")).2;
        let payload = update_payload(self.rule, self.un, symbol, ev);
        let side = self.seqs.get_mut(name).expect("sequencer").feed(&payload);
        let seen = match self.link.feed(payload) {
            Ok(s) => s,
            Err(p) => return (format!("Anomaly: panic / failure: {p}"), "none".into(), false, vec![]),
        };
        let (words, mut emit, err) = self.apply(seen);
        for it in emit.iter_mut().filter(|it| it["t"] == "E") {
            it["i"] = json!(name);
            it["k"] = json!(k);
        }
        let out = match words.iter().map(|s| s.as_str()).collect::<Vec<_>>().as_slice() {
            [] if self.mode_stream && side.is_err() => {
                "Anomaly: the sequence error reached the consumer neither as an item nor as a Reconnecting notice".to_string()
            }
            [] => "Dropped".to_string(),
            [w] if *w == format!("Update:{name}") => "Admitted".to_string(),
            ["Err"] => "Error".to_string(),
            ["Reconnecting"] => "Error".to_string(), // the terminal error ended the connection: one notice
            other => format!("Anomaly: consumer saw {other:?}"),
        };
        // the error value: from the transformer (direct) or from the lockstep sequencer (stream)
        let e = err.or_else(|| side.clone().err());
        let (ename, term) = match (&out[..], &e) {
            ("Error", Some(e)) => (variant(e), e.is_terminal()),
            _ => ("none".to_string(), false),
        };
        // the lockstep sequencer must have decided the same
        let side_out = match &side {
            Ok(w) => w.to_string(),
            Err(_) => "Error".to_string(),
        };
        if !out.starts_with("Anomaly") && side_out != out {
            return (format!("Anomaly: transformer outcome {out} but stand-alone sequencer outcome {side_out}"), ename, term, emit);
        }
        (out, ename, term, emit)
    }

    fn post(&self) -> Value {
        let mut book = serde_json::Map::new();
        let mut sq = serde_json::Map::new();
        for (n, _, _) in INSTR {
            book.insert(n.to_string(), self.books.get(n).map(|b| self.un.book_out(b)).unwrap_or(json!("missing")));
            sq.insert(n.to_string(), self.seqs.get(n).map(|s| s.state(self.un)).unwrap_or(json!("missing")));
        }
        json!({"book": book, "sq": sq, "conn": if self.conn_up { "up" } else { "down" }, "notices": self.notices})
    }
}

fn variant(e: &DataError) -> String {
    match e {
        DataError::InvalidSequence { .. } => "InvalidSequence".into(),
        other => format!("{other:?}").split([' ', '(', '{']).next().unwrap_or("?").to_string(),
    }
}

/// one trace line (every line carries every field: TLC reads them as records)
#[allow(clippy::too_many_arguments)]
fn line(a: &str, i_: &str, k: i64, out: &str, err: &str, term: bool, world: Value, snap: Value, pre: &Value, buf: &Value, emit: &[Value], post: Value) -> Value {
    json!({"a": a, "i": i_, "k": k, "out": out, "err": err, "term": term, "world": world, "snap": snap,
           "pre": pre, "buf": buf, "emit": emit, "post": post, "order": []})
}

fn with_order(mut l: Value, order: [usize; 3]) -> Value {
    l["order"] = json!(order);
    l
}

/// the order of the snapshots / subscriptions for this connection: given by the scenario step (replays),
/// else scenario n starts with permutation n mod 6 and every later connection draws one
fn order_of<R: Rng>(step: Option<&Value>, n: usize, first: bool, rng: &mut R) -> [usize; 3] {
    if let Some(o) = step.and_then(|s| s.get("order")).and_then(|o| o.as_array()) {
        if o.len() == 3 {
            return [o[0].as_u64().unwrap_or(0) as usize % 3, o[1].as_u64().unwrap_or(1) as usize % 3, o[2].as_u64().unwrap_or(2) as usize % 3];
        }
    }
    if first { ORDERS[n % 6] } else { ORDERS[rng.random_range(0..6)] }
}

fn reset_line(rule: Rule, expected: i64, world: &Value) -> Value {
    line("Reset", "", 0, "", "none", false, trace_world(rule, expected, world), json!(0), &json!([]), &json!([]), &[], json!(0))
}

/// scenarios over one instrument get a second, idle instrument (the transformer always serves two)
fn complete_world(world: &Value) -> Value {
    let mut w = world.clone();
    for (n, _, _) in INSTR {
        if w.get(n).is_none() {
            w[n] = json!({"chg": [{"side": "b", "p": 1, "a": 0}], "cut": [1], "events": [{"i": n, "k": 1, "U": 1, "u": 1, "pu": 0, "b": [{"p": 1, "a": 0}], "a": []}]});
        }
    }
    w
}
fn complete_snap(snap: &Value, books: &Value) -> (Value, Value) {
    let (mut s, mut b) = (snap.clone(), books.clone());
    for (n, _, _) in INSTR {
        if s.get(n).is_none() {
            s[n] = json!(0);
            b[n] = json!({"bids": [], "asks": [], "seq": 0});
        }
    }
    (s, b)
}
fn trace_world(rule: Rule, expected: i64, world: &Value) -> Value {
    let mut chg = serde_json::Map::new();
    let mut cut = serde_json::Map::new();
    let mut events = serde_json::Map::new();
    for (n, _, _) in INSTR {
        chg.insert(n.to_string(), world[n]["chg"].clone());
        cut.insert(n.to_string(), world[n]["cut"].clone());
        events.insert(n.to_string(), world[n]["events"].clone());
    }
    // (`events` = the payload contents actually sent; the trace specification recomputes them from
    //  chg / cut and ignores this field - it only serves replays)
    json!({"rule": rule.name(), "expected": expected, "chg": chg, "cut": cut, "events": events})
}

#[derive(Default)]
struct Counts {
    dropped: usize,
    admitted: usize,
    error: usize,
    reinit: usize,
    first_admitted: usize,
    longest_chain: usize,
    connect: usize,
    level_less: usize,
    pre_frames: usize,
    buffered_frames: usize,
}

// ---------------------------------------------------------------------------------------------
// run: TLC scenarios
// ---------------------------------------------------------------------------------------------
fn by_instr(emit: &[Value]) -> Value {
    let mut m = serde_json::Map::new();
    for (n, _, _) in INSTR {
        m.insert(n.to_string(), Value::Array(emit.iter().filter(|e| e["i"] == *n).cloned().collect()));
    }
    Value::Object(m)
}

fn run(args: &Args) {
    let scns = read_ndjson(args.req("scenarios"));
    let mode = args.str("mode", "direct");
    let multi = args.str("variant", "binance") == "multi";
    let mut results = Out_::create(args.req("results"));
    let mut trace = Out_::create(args.req("trace"));
    let mut rng = rng(args.u64("seed", 1));
    let mut counts = Counts::default();
    let (mut failed, mut steps_n, mut init_failures) = (0usize, 0usize, 0usize);
    for (n, scn) in scns.iter().enumerate() {
        let rule = Rule::of(s(scn, "rule"));
        let expected = scn.get("expected").and_then(|x| x.as_i64()).unwrap_or(1);
        if (expected != 1) != multi {
            usage("scenarios with expected = 2 need --mode init --variant multi (and vice versa)");
        }
        let un = Units::draw(&mut rng);
        let world = complete_world(&scn["world"]);
        let mut bench = Bench::new(rule, un, &mode, multi, &world);
        trace.line(&reset_line(rule, expected, &world));
        let mut verdict = json!({"scn": n, "ok": true});
        let mut chain = 0usize;
        for (k, step) in scn["steps"].as_array().unwrap_or_else(|| usage("steps")).iter().enumerate() {
            steps_n += 1;
            let fail = |e: String, pre: Value| json!({"scn": n, "ok": false, "step": k, "error": e, "event": step, "pre": pre, "rule": rule.name()});
            match s(step, "a") {
                a @ ("Init" | "Reinit") => {
                    let (snap, books) = complete_snap(&step["snap"], &step["books"]);
                    let buf = step.get("buf").cloned().unwrap_or(json!([]));
                    // frames before the first confirmation: the validator discards them, so any will do
                    let pre_frames = match step.get("pre") {
                        Some(p) => p.clone(),
                        None if mode == "init" => random_frames(&mut rng, &world),
                        None => json!([]),
                    };
                    let pre = bench.post();
                    let order = order_of(Some(step), n, a == "Init", &mut rng);
                    let (anomaly, emit) = bench.connect(&snap, &books, &pre_frames, &buf, order);
                    chain = 0;
                    counts.connect += 1;
                    counts.pre_frames += pre_frames.as_array().map(|a| a.len()).unwrap_or(0);
                    counts.buffered_frames += buf.as_array().map(|a| a.len()).unwrap_or(0);
                    if a == "Reinit" {
                        counts.reinit += 1;
                    }
                    let post = bench.post();
                    trace.line(&with_order(line("Connect", "", 0, anomaly.as_deref().map(|_| "Anomaly").unwrap_or(""), anomaly.as_deref().unwrap_or("none"),
                                     false, json!(0), snap.clone(), &pre_frames, &buf, &emit, post.clone()), order));
                    if let Some(an) = anomaly {
                        if an.contains("MarketStream::init failed") {
                            init_failures += 1;
                        }
                        verdict = fail(an, pre);
                        break;
                    }
                    let Some(after) = step.get("after") else { continue }; // replay rebuilt from a trace
                    // what the consumer holds and has received once the connection is established
                    let mut expect = after.clone();
                    let mut expect_emit = step["emit"].clone();
                    for (nm, _, _) in INSTR {
                        if expect["book"].get(nm).is_none() {
                            expect["book"][nm] = json!({"bids": [], "asks": [], "seq": 0});
                            expect["sq"][nm] = json!({"processed": 0, "lastId": 0});
                            expect_emit[nm] = json!([{"t": "S", "i": nm, "k": 0}]);
                        }
                    }
                    if let Err(e) = json_match(&expect, &post, "post").and_then(|_| json_match(&expect_emit, &by_instr(&emit), "emitted")) {
                        verdict = fail(e, pre);
                        break;
                    }
                }
                "Deliver" => {
                    let (nm, kk) = (s(step, "i"), i(step, "k"));
                    let ev = &world[nm]["events"][(kk - 1) as usize];
                    let pre = bench.post();
                    if ev["b"].as_array().is_some_and(|a| a.is_empty()) && ev["a"].as_array().is_some_and(|a| a.is_empty()) {
                        counts.level_less += 1;
                    }
                    let (out, err, term, emit) = bench.deliver(nm, kk, ev);
                    let post = bench.post();
                    trace.line(&line("Deliver", nm, kk, &out, &err, term, json!(0), json!(0), &json!([]), &json!([]), &emit, post.clone()));
                    match &out[..] {
                        "Dropped" => counts.dropped += 1,
                        "Admitted" => {
                            counts.admitted += 1;
                            chain += 1;
                            if chain == 1 {
                                counts.first_admitted += 1;
                            }
                            counts.longest_chain = counts.longest_chain.max(chain);
                        }
                        "Error" => counts.error += 1,
                        _ => {}
                    }
                    if step.get("out").is_none() {
                        continue; // replay reconstructed from a trace: the trace validation decides
                    }
                    if out != s(step, "out") {
                        verdict = fail(format!("outcome: expected {}, got {}", s(step, "out"), out), pre);
                        break;
                    }
                    if out == "Error" && (err != "InvalidSequence" || !term) {
                        verdict = fail(format!("error: expected terminal InvalidSequence, got {err} (is_terminal = {term})"), pre);
                        break;
                    }
                    let mut expect = pre.clone();
                    expect["book"][nm] = step["book"].clone();
                    expect["sq"][nm] = step["sq"].clone();
                    expect["conn"] = step["conn"].clone();
                    expect["notices"] = step["notices"].clone();
                    if let Err(e) = json_match(&expect, &post, "post") {
                        verdict = fail(e, pre);
                        break;
                    }
                }
                a => usage(&format!("bad step {a}")),
            }
        }
        if verdict["ok"] == json!(false) {
            failed += 1;
        }
        results.line(&verdict);
        if init_failures >= 3 {
            break; // the connection cannot be established at all (each attempt waits for the validation timeout)
        }
    }
    results.finish();
    let lines = trace.finish();
    println!("{}", summary(&mode, scns.len(), steps_n, failed, lines, &counts));
}

/// a few depth frames [{i,k}] of the world, for the venue to send before the confirmation
fn random_frames<R: Rng>(rng: &mut R, world: &Value) -> Value {
    let n = [0, 0, 1, 2, 3][rng.random_range(0..5)];
    Value::Array(
        (0..n)
            .map(|_| {
                let name = INSTR[rng.random_range(0..INSTR.len())].0;
                let n_ev = world[name]["events"].as_array().map(|a| a.len()).unwrap_or(1).max(1);
                json!({"i": name, "k": rng.random_range(1..=n_ev)})
            })
            .collect(),
    )
}

use vh::util::Out as Out_;

fn summary(mode: &str, scenarios: usize, steps: usize, failed: usize, lines: usize, c: &Counts) -> Value {
    json!({"mode": mode, "scenarios": scenarios, "steps": steps, "failed": failed, "trace_lines": lines,
           "arms": {"dropped": c.dropped, "admitted": c.admitted, "error": c.error, "reinit": c.reinit,
                    "first_updates_admitted": c.first_admitted, "longest_admitted_chain": c.longest_chain,
                    "connections": c.connect, "level_less_updates_delivered": c.level_less, "frames_before_confirmation": c.pre_frames, "frames_buffered": c.buffered_frames}})
}

// ---------------------------------------------------------------------------------------------
// random: seeded worlds and perturbed deliveries
// ---------------------------------------------------------------------------------------------
const NPRICE: i64 = 8;

struct Evolution {
    chg: Vec<Value>,
    cut: Vec<i64>,
    events: Vec<Value>,
    /// book (as levels in spec units) after every id 0..M
    truth: Vec<Value>,
}

fn side_levels(m: &BTreeMap<i64, i64>, desc: bool) -> Value {
    let mut v: Vec<Value> = m.iter().map(|(p, a)| json!({"p": p, "a": a})).collect();
    if desc {
        v.reverse();
    }
    Value::Array(v)
}

fn evolution<R: Rng>(rng: &mut R, name: &str, n_events: usize) -> Evolution {
    let (mut bids, mut asks): (BTreeMap<i64, i64>, BTreeMap<i64, i64>) = Default::default();
    let mut ev = Evolution { chg: vec![], cut: vec![], events: vec![], truth: vec![json!({"bids": [], "asks": [], "seq": 0})] };
    let mut id = 0i64;
    for k in 1..=n_events {
        let first = id + 1;
        let width = [1, 1, 2, 2, 3, 4][rng.random_range(0..6)];
        // one event in six carries no level at all (Binance sends such depth updates); other events may
        // contain single ids that change no level
        let level_less = rng.random_range(0..6) == 0;
        let (mut tb, mut ta) = (vec![], vec![]);
        for _ in 0..width {
            id += 1;
            if level_less || rng.random_range(0..8) == 0 {
                ev.chg.push(json!({"side": "n", "p": 1, "a": 0}));
                ev.truth.push(json!({"bids": side_levels(&bids, true), "asks": side_levels(&asks, false), "seq": id}));
                continue;
            }
            let bid = rng.random_bool(0.5);
            let p = rng.random_range(1..=NPRICE);
            let a = if rng.random_range(0..3) == 0 { 0 } else { rng.random_range(1..10) };
            let m = if bid { &mut bids } else { &mut asks };
            if a == 0 {
                m.remove(&p);
            } else {
                m.insert(p, a);
            }
            if bid { &mut tb } else { &mut ta }.push(p);
            ev.chg.push(json!({"side": if bid { "b" } else { "a" }, "p": p, "a": a}));
            ev.truth.push(json!({"bids": side_levels(&bids, true), "asks": side_levels(&asks, false), "seq": id}));
        }
        tb.sort();
        tb.dedup();
        ta.sort();
        ta.dedup();
        let lv = |ps: &[i64], m: &BTreeMap<i64, i64>| Value::Array(ps.iter().map(|p| json!({"p": p, "a": m.get(p).copied().unwrap_or(0)})).collect());
        ev.events.push(json!({"i": name, "k": k, "U": first, "u": id, "pu": first - 1, "b": lv(&tb, &bids), "a": lv(&ta, &asks)}));
        ev.cut.push(id);
    }
    ev
}

/// indices (1-based) of the events to deliver from snapshot id `s`: clean run from the covering
/// event (start moved earlier / later), then perturbed
fn plan<R: Rng>(rng: &mut R, rule: Rule, ev: &Evolution, s: i64, perturbations: usize) -> Vec<usize> {
    let n = ev.events.len();
    let covering = (1..=n).find(|k| {
        let (f, l) = (i(&ev.events[k - 1], "U"), i(&ev.events[k - 1], "u"));
        if rule == Rule::Spot { f <= s + 1 && s + 1 <= l } else { f <= s && s <= l }
    });
    let k0 = covering.unwrap_or(n + 1) as i64;
    let shift = [0, 0, 0, -1, -3, -6, 1][rng.random_range(0..7)];
    let start = (k0 + shift).clamp(1, n as i64 + 1) as usize;
    let len = rng.random_range(5..40usize);
    let mut p: Vec<usize> = (start..=n).take(len).collect();
    for _ in 0..perturbations {
        if p.len() < 3 {
            break;
        }
        let at = rng.random_range(0..p.len());
        match rng.random_range(0..4) {
            0 => {
                p.remove(at);
            }
            1 => p.insert(at, p[at]),
            2 => {
                if at + 1 < p.len() {
                    p.swap(at, at + 1)
                }
            }
            _ => {
                // replay an old prefix
                let from = rng.random_range(0..=at);
                let replay: Vec<usize> = p[from..=at].to_vec();
                for (j, x) in replay.into_iter().enumerate() {
                    p.insert(at + 1 + j, x);
                }
            }
        }
    }
    p
}

fn random(args: &Args) {
    let mode = args.str("mode", "direct");
    let segments = args.usize("segments", 20);
    let mut trace = Out_::create(args.req("trace"));
    let mut rng = rng(args.u64("seed", 1));
    let mut counts = Counts::default();
    let mut steps_n = 0usize;
    for seg in 0..segments {
        let rule = if seg % 2 == 0 { Rule::Spot } else { Rule::Futures };
        let un = Units::draw(&mut rng);
        let evs: BTreeMap<&str, Evolution> = INSTR
            .iter()
            .map(|(n, _, _)| {
                let n_events = rng.random_range(30..60);
                (*n, evolution(&mut rng, n, n_events))
            })
            .collect();
        let mut world = json!({});
        for (n, e) in &evs {
            world[*n] = json!({"chg": e.chg, "cut": e.cut, "events": e.events});
        }
        let mut bench = Bench::new(rule, un, &mode, false, &world);
        trace.line(&reset_line(rule, 1, &world));
        let mut chain: BTreeMap<&str, usize> = Default::default();
        let mut budget = 110usize;
        let mut first = true;
        'conn: while budget > 0 {
            // snapshots: early in the stream, so that a long run follows
            let mut snap = json!({});
            let mut books = json!({});
            for (n, e) in &evs {
                let m = e.chg.len() as i64;
                let s_id = if rng.random_range(0..6) == 0 { rng.random_range(0..=m) } else { rng.random_range(0..=m / 3) };
                snap[*n] = json!(s_id);
                books[*n] = e.truth[s_id as usize].clone();
                chain.insert(n, 0);
            }
            let pre_frames = if mode == "init" { random_frames(&mut rng, &world) } else { json!([]) };
            let order = order_of(None, seg, first, &mut rng);
            let (anomaly, emit) = bench.connect(&snap, &books, &pre_frames, &json!([]), order);
            counts.connect += 1;
            counts.pre_frames += pre_frames.as_array().map(|a| a.len()).unwrap_or(0);
            trace.line(&with_order(line("Connect", "", 0, anomaly.as_deref().map(|_| "Anomaly").unwrap_or(""), anomaly.as_deref().unwrap_or("none"),
                             false, json!(0), snap.clone(), &pre_frames, &json!([]), &emit, bench.post()), order));
            if !first {
                counts.reinit += 1;
            }
            first = false;
            if anomaly.is_some() {
                break;
            }
            let npert = [0, 0, 0, 1, 1, 2, 4][rng.random_range(0..7)];
            let mut plans: Vec<(&str, Vec<usize>)> =
                evs
                .iter()
                .map(|(n, e)| {
                    let np = if rng.random_bool(0.5) { npert } else { 0 };
                    (*n, plan(&mut rng, rule, e, i(&snap, n), np))
                })
                .collect();
            loop {
                plans.retain(|(_, p)| !p.is_empty());
                if plans.is_empty() || budget == 0 {
                    break 'conn;
                }
                budget -= 1;
                steps_n += 1;
                let which = rng.random_range(0..plans.len());
                let (name, k) = (plans[which].0, plans[which].1.remove(0));
                let ev = &evs[name].events[k - 1];
                if ev["b"].as_array().is_some_and(|a| a.is_empty()) && ev["a"].as_array().is_some_and(|a| a.is_empty()) {
                    counts.level_less += 1;
                }
                let (out, err, term, emit) = bench.deliver(name, k as i64, ev);
                trace.line(&line("Deliver", name, k as i64, &out, &err, term, json!(0), json!(0), &json!([]), &json!([]), &emit, bench.post()));
                match &out[..] {
                    "Dropped" => counts.dropped += 1,
                    "Admitted" => {
                        counts.admitted += 1;
                        let c = chain.entry(name).or_default();
                        *c += 1;
                        if *c == 1 {
                            counts.first_admitted += 1;
                        }
                        counts.longest_chain = counts.longest_chain.max(*c);
                    }
                    "Error" => {
                        counts.error += 1;
                        continue 'conn; // the connection is gone: reconnect with fresh snapshots
                    }
                    _ => break 'conn,
                }
            }
        }
    }
    let lines = trace.finish();
    let mut sm = summary(&mode, segments, steps_n, 0, lines, &counts);
    sm["seed"] = json!(args.u64("seed", 1));
    println!("{sm}");
}

fn main() {
    // The driver polls the real stream pipeline by hand (`now_or_never`), outside of any tokio task:
    // inside a task tokio's cooperative budget would make its channels report Pending spuriously.
    // The runtime is only entered so that timers (reconnect backoff) would have a (paused) clock.
    // (mode init talks to a real loopback socket: it owns a real-time runtime, see `looped::rt`)
    let args = Args::parse();
    let rt = tokio::runtime::Builder::new_current_thread().enable_time().start_paused(true).build().expect("runtime");
    let _guard = (args.str("mode", "direct") != "init").then(|| rt.enter());
    match args.cmd.as_str() {
        "run" => run(&args),
        "random" => random(&args),
        c => usage(&format!("unknown command {c}")),
    }
}
