SPECIFICATION Spec
CONSTANTS
  MaxEvents = 6
  Seq0Set = {0, 3}
INVARIANTS Contiguous RunEnds ReplicaPrefix
PROPERTIES NoGapApplied Faults
CONSTRAINT Bound
CHECK_DEADLOCK FALSE
