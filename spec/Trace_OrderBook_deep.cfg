SPECIFICATION TSpec
CONSTANTS
  PRICE <- DeepPrices
  AMOUNT = {0, 1, 2, 3, 4, 5, 6, 7, 8, 9}
  SEQS = {0}
  MaxLong = 0
  MaxShort = 0
  MaxSnap = 0
  StableUpTo = 20
  Large = 99
INVARIANT Done
POSTCONDITION Post
CHECK_DEADLOCK FALSE
