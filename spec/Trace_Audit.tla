----------------------------- MODULE Trace_Audit -----------------------------
(* Trace validation (impl -> spec) for Audit.tla; lines recorded by           *)
(* harness/src/bin/c10.rs from the real runners and StateReplicaManager:      *)
(*  Snapshot(seq)                         new engine run                       *)
(*  Emit(seq,term,kind,evSame,processed,records)  one per audit record         *)
(*  NewReplica(seq)                       fresh replica from the snapshot      *)
(*  Deliver(seq,term,kind,ok,rseq,eqs)    replica after one more delivered     *)
(*                                        record (real run() on the prefix)    *)
(* Rejected lines are collected in `bad` with tags.                           *)
EXTENDS Audit, Json, IOUtils, SequencesExt

Log == ndJsonDeserialize(IOEnv.TRACE)

VARIABLES l, bad
tvars == <<seq0, recs, ended, rseq, rk, rstatus, last, l, bad>>

TInit == /\ l = 1 /\ bad = <<>>
         /\ seq0 = 0 /\ recs = <<>> /\ ended = FALSE
         /\ rseq = 0 /\ rk = 0 /\ rstatus = "running"
         /\ last = [a |-> "Init"]

Note(tags) == bad' = IF tags = {} THEN bad ELSE Append(bad, <<l, tags>>)

TSnapshot == /\ Log[l].a = "Snapshot"
             /\ seq0' = Log[l].seq /\ recs' = <<>> /\ ended' = FALSE
             /\ rseq' = Log[l].seq /\ rk' = 0 /\ rstatus' = "running"
             /\ last' = [a |-> "Snapshot"]
             /\ UNCHANGED bad

\* an audit record: the spec's Emit / FeedEnds with the logged flags; tags when it is not that step
TEmit == /\ Log[l].a = "Emit"
         /\ LET r == Log[l]
                tags == (IF r.seq # NextSeq THEN {"tick_seq"} ELSE {})
                   \cup (IF ended THEN {"record_after_terminal"} ELSE {})
                   \cup (IF ~r.evSame THEN {"record_event_differs"} ELSE {})
                   \cup (IF r.term /\ r.records # r.processed + (IF r.kind = "feedEnded" THEN 1 ELSE 0)
                         THEN {"one_record_per_event"} ELSE {})
            IN /\ recs' = Append(recs, Rec(r.seq, r.term, r.kind))
               /\ ended' = r.term
               /\ last' = [a |-> IF r.kind = "feedEnded" THEN "FeedEnds" ELSE "Emit", seq |-> r.seq, term |-> r.term]
               /\ Note(tags)
         /\ UNCHANGED <<seq0, rseq, rk, rstatus>>

TNewReplica == /\ Log[l].a = "NewReplica"
               /\ rseq' = seq0 /\ rk' = 0 /\ rstatus' = "running"
               /\ last' = [a |-> "NewReplica"]
               /\ Note((IF ~ended THEN {"run_not_ended_by_terminal_record"} ELSE {})
                       \cup (IF Len(recs) > 0 /\ \E j \in 1..(Len(recs) - 1) : recs[j].term THEN {"record_after_terminal"} ELSE {}))
               /\ UNCHANGED <<seq0, recs, ended>>

\* one more record delivered to the real replica: the spec's Deliver on the record with that number
TDeliver == /\ Log[l].a = "Deliver"
            /\ LET r == Log[l] j == r.seq - seq0 IN
               /\ j \in 1..Len(recs)
               /\ Deliver(j)                                  \* the specification's own action
               /\ Note((IF r.ok # (rstatus' # "rejected") THEN {"replica_status"} ELSE {})
                       \cup (IF r.rseq # rseq' THEN {"replica_seq"} ELSE {})
                       \cup (IF rk' \notin ToSet(r.eqs) THEN {"replica_state"} ELSE {}))

TNext == /\ l <= Len(Log)
         /\ l' = l + 1
         /\ (TSnapshot \/ TEmit \/ TNewReplica \/ TDeliver)

TSpec == TInit /\ [][TNext]_tvars

TProps == [][(last'.a = "Deliver" => NoGapAppliedA /\ FaultsA)]_tvars

Done == l = Len(Log) + 1 => PrintT(<<"TRACE_END", ToJson(bad)>>)
Post == PrintT(<<"TRACE_DONE", TLCGet("stats").diameter, Len(Log)>>)
=============================================================================
