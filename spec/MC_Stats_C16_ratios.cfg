SPECIFICATION SpecHist
CONSTANTS
  Instr = {"i0"}
  Asset = {}
  PnLs <- PnLsRatio
  Costs = {10}
  Bals = {}
  Vals = {}
  MaxClosed = 3
  MaxBal = 0
  MaxVals = 0
  Gaps <- GapsQuick
  RFs <- RFsQuick
  Ivs = {"Daily", "Annual365", "Hours2"}
INVARIANTS TypeC16 AccSheet AccReturns RatioLaws TimeFreeC16
PROPERTIES ResetIsFresh
CHECK_DEADLOCK FALSE
VIEW View
