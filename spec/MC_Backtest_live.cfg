SPECIFICATION FairSpec
CONSTANTS
  Runs = {1}
  Params <- Params_B
  OrderKinds = {"trade"}
INVARIANTS TypeOK PrefixAlways CompleteInOrder FeedInOrder SentOK ClockOwn AppliedOK SummaryOK BatchOK
PROPERTIES Isolation Monotone Finishes
CHECK_DEADLOCK FALSE
