SPECIFICATION Spec
CONSTANTS
  MaxOutcomes = 5
  MaxBody = 2
  MaxElems = 3
  Lats = {0}
  Gaps = {0}
  Slack = {0}
  Policies <- PoliciesA
  Modes <- ModesAll
INVARIANT Emit
CHECK_DEADLOCK FALSE
