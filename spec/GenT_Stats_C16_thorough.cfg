SPECIFICATION G16
CONSTANTS
  Instr = {"i2"}
  Asset = {"a0"}
  PnLs <- PnLsQuick
  Costs = {10}
  Bals = {5}
  Vals = {}
  MaxClosed = 5
  MaxBal = 0
  MaxVals = 0
  Gaps <- GapsGen
  RFs <- RFsGen
  Ivs = {"Daily", "Annual252", "Annual365", "Hours2", "Days500"}
INVARIANT Emit16
CHECK_DEADLOCK FALSE
