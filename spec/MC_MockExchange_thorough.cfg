SPECIFICATION Spec
CONSTANTS
  Times = {0, 1}
  Prices = {1, 2}
  Qtys = {0, 1, 3}
  NegQtys = {2}
  BalInit = {0, 300, 600}
  FeePcts = {0, 50}
  Lats = {3}
  Sinces = {0, 1, 2, 3}
  OpenCids = {"o1", "o3"}
  MaxTrades = 2
  ClockSlack = FALSE
  IdSlack = 0
INVARIANT Inv
PROPERTIES AcceptIff ExactDebit RejectPure FreshIdsStep OneFill Notif11 QueriesReflect ConfigFixed Clock OfflineStep
VIEW View
CHECK_DEADLOCK FALSE
