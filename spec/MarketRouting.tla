--------------------------- MODULE MarketRouting ---------------------------
(***************************************************************************)
(* Attribution of market-data messages to subscribed instruments (C13).    *)
(*                                                                         *)
(* Code this is the reference for (barter-data):                           *)
(*   subscriber/mapper.rs    WebSocketSubMapper::map         -> Subscribe  *)
(*   exchange/<venue>/..     Connector::requests, <Venue>Market/Channel,   *)
(*                           the per-venue message types and their         *)
(*                           Identifier<Option<SubscriptionId>>            *)
(*   exchange/bitfinex/validator.rs  (channel-id rewrite)    -> Subscribe  *)
(*   transformer/stateless.rs StatelessTransformer::transform,             *)
(*   exchange/binance/{spot,futures}/l2.rs  ..Transformer::transform       *)
(*                                                            -> Message*  *)
(*   streams/builder/dynamic/mod.rs  the (ExchangeId, SubKind) dispatch    *)
(*                           = `Routes` below (one more component: the     *)
(*                           instrument kind the pair is subscribed with)  *)
(*                                                                         *)
(* One connection of one route (connector, subscription kind, instrument   *)
(* kind):                                                                  *)
(*   Subscribe(c, S, off)  the instruments of the markets S are subscribed;*)
(*                         instrument of market m has key KeyOf(m, off)    *)
(*                         -> subs : market -|-> instrument key            *)
(*                         Subscribe(c, S, off, d, dk): market d of S is   *)
(*                         subscribed TWICE in a row (dk = 1: the same     *)
(*                         instrument again; dk = 2: a second instrument,  *)
(*                         key NMarkets+1, that resolves to the same       *)
(*                         market).  For d either key is acceptable; every *)
(*                         other market maps to exactly its own key.       *)
(*   Message(m, fs)        the venue sends one data message about market m *)
(*                         carrying the items fs (price, amount, side,     *)
(*                         time);  m subscribed  -> one event per item,    *)
(*                         each with key subs[m], the route's exchange id  *)
(*                         and the item's fields;  m not subscribed -> one *)
(*                         unidentifiable-subscription error, no event.    *)
(*                         buf = TRUE: the message arrived during          *)
(*                         subscription validation and is replayed through *)
(*                         process_buffered_events - same outcome.         *)
(*   Disconnect            the connection ends (a new one re-subscribes).  *)
(*                                                                         *)
(* Markets are abstract (1..NMarkets); the harness concretises them per    *)
(* route as instruments whose venue names contain a same-prefix pair, a    *)
(* mixed-case input name and a name with digits; dated contracts include   *)
(* expiries on a year boundary (2024-12-30, 2025-12-30) whose venue symbol *)
(* the simulated venue renders from the calendar date, and an option pair  *)
(* with strikes 2 and 2.5 (strike rendered by the venue).  Values: abstract*)
(* integers (the harness renders price/amount in quarter units and time in *)
(* time units - half seconds, or 1/64 s where the venue format carries    *)
(* sub-millisecond times - from a fixed epoch, compared exactly).         *)
(* Market names are OPAQUE: the spec has no relation between names, so two *)
(* venue symbols that differ only by letter case (kPEPEUSDT / KPEPEUSDT)   *)
(* are simply two distinct markets m1 # m2.  The harness' case-twin        *)
(* flavours (named_ct, generated_ct) concretise markets 1,2 and 3,4 as     *)
(* such pairs for the instruments that are subscribed by name_exchange;    *)
(* Attribution (the event of m carries a key of subs[m] and of no other    *)
(* subscribed market) and RejectUnsubscribed (m not subscribed -> Unid,    *)
(* whatever else is subscribed) decide them with NMarkets >= 2.  Routes    *)
(* whose connector normalises the case on the wire (Binance) cannot carry  *)
(* such a pair - the venue cannot list it - and are skipped there.         *)
(*                                                                         *)
(* Deliberately open (DESIGN 5.4) - and nothing else:                      *)
(*   * SignOpen routes (Gate.io futures/perpetual/option trades): the      *)
(*     venue delivers the amount of a sell with a minus sign; the event    *)
(*     may carry the amount as delivered or its absolute value.            *)
(*   * NoTime routes (Binance spot book ticker): the message carries no    *)
(*     exchange time, so the event's time is not constrained (logged 0).   *)
(***************************************************************************)
EXTENDS Integers, Sequences, FiniteSets, TLC

CONSTANTS NMarkets,   \* size of the market universe
          Conns,      \* the routes explored by this model (subset of Routes)
          KeyOffs,    \* key assignments: key of market m is KeyOf(m, off)
          PRICE, AMOUNT, TIME,   \* tiny value domains (positive naturals)
          MaxBatch,   \* items per venue message: 1..MaxBatch (at most 3)
          DupKinds    \* subset of {0, 1, 2}: 0 no repeated market, 1 the same instrument twice,
                      \* 2 two instruments (distinct keys) under one market

VARIABLES conn,   \* the connected route, or NoConn
          subs,   \* [subscribed markets -> set of acceptable instrument keys] (a singleton
                  \* unless two instruments were subscribed under the market)
          out,    \* what the last step produced: sequence of Ev / Unid records
          last    \* the step itself (observation only)

vars == <<conn, subs, out, last>>

Markets == 1..NMarkets
\* what an item states about the side:  trades / liquidations / L2 levels: the taker (book) side;
\* L1 (top of book) routes: which book side holds (price, amount) - "buy" / "sell": both sides are
\* stated (the named one holds the item's values); "bid_only" / "ask_only": the message states an
\* empty other side (price 0), and the event must state exactly that: the other side absent.
Sides   == {"buy", "sell"}
L1Sides == {"buy", "sell", "bid_only", "ask_only"}
SidesOf(c) == IF c[2] = "l1" THEN L1Sides ELSE Sides

(***************************************************************************)
(* The quantifier: every (ExchangeId, SubKind) arm of DynamicStreams::init *)
(* with the instrument kinds exchange_supports_instrument_kind_sub_kind    *)
(* admits for it.  <<exchange id, subscription kind, instrument kind>>.    *)
(***************************************************************************)
Routes == {
  <<"binance_spot",          "public_trades", "spot">>,
  <<"binance_spot",          "l1",            "spot">>,
  <<"binance_spot",          "l2",            "spot">>,
  <<"binance_futures_usd",   "public_trades", "perpetual">>,
  <<"binance_futures_usd",   "l1",            "perpetual">>,
  <<"binance_futures_usd",   "l2",            "perpetual">>,
  <<"binance_futures_usd",   "liquidations",  "perpetual">>,
  <<"bitfinex",              "public_trades", "spot">>,
  <<"bitmex",                "public_trades", "perpetual">>,
  <<"bybit_spot",            "public_trades", "spot">>,
  <<"bybit_perpetuals_usd",  "public_trades", "perpetual">>,
  <<"coinbase",              "public_trades", "spot">>,
  <<"gateio_spot",           "public_trades", "spot">>,
  <<"gateio_futures_usd",    "public_trades", "future">>,
  <<"gateio_futures_btc",    "public_trades", "future">>,
  <<"gateio_perpetuals_usd", "public_trades", "perpetual">>,
  <<"gateio_perpetuals_btc", "public_trades", "perpetual">>,
  <<"gateio_options",        "public_trades", "option">>,
  <<"kraken",                "public_trades", "spot">>,
  <<"kraken",                "l1",            "spot">>,
  <<"okx",                   "public_trades", "spot">>,
  <<"okx",                   "public_trades", "future">>,
  <<"okx",                   "public_trades", "perpetual">>,
  <<"okx",                   "public_trades", "option">> }

SignOpen == {c \in Routes : c[1] \in {"gateio_futures_usd", "gateio_futures_btc",
                                      "gateio_perpetuals_usd", "gateio_perpetuals_btc",
                                      "gateio_options"}}
NoTime   == {<<"binance_spot", "l1", "spot">>}

\* representative routes for the quick model: plain, sign-open, no-time, a second plain
\* exchange, a route of an exchange with several instrument kinds
QuickConns == { <<"binance_spot", "public_trades", "spot">>,
                <<"binance_spot", "l1", "spot">>,
                <<"gateio_perpetuals_usd", "public_trades", "perpetual">>,
                <<"kraken", "public_trades", "spot">>,
                <<"okx", "public_trades", "option">>,
                <<"bitfinex", "public_trades", "spot">> }

NoConn  == <<"", "", "">>
EmptyFn == [m \in {} |-> 0]

\* instrument keys are independent of market names: a rotation of 1..NMarkets
KeyOf(m, off) == ((m - 1 + off) % NMarkets) + 1

(***************************************************************************)
(* Outputs.  All records have the same fields (traces are read uniformly). *)
(***************************************************************************)
Ev(key, ex, p, a, s, t) == [k |-> "ev", key |-> key, ex |-> ex, p |-> p, a |-> a, s |-> s, t |-> t]
Unid == [k |-> "unid", key |-> 0, ex |-> "", p |-> 0, a |-> 0, s |-> "", t |-> 0]

Item(p, a, s, t) == [p |-> p, a |-> a, s |-> s, t |-> t]
Items(c) == {Item(p, a, s, t) : p \in PRICE, a \in AMOUNT, s \in SidesOf(c), t \in TIME}
\* sequences (explicit tuples, so that ToJson prints arrays) of at most three items
Prod(ss) == CASE Len(ss) = 1 -> {<<x>> : x \in ss[1]}
              [] Len(ss) = 2 -> {<<x, y>> : x \in ss[1], y \in ss[2]}
              [] Len(ss) = 3 -> {<<x, y, z>> : x \in ss[1], y \in ss[2], z \in ss[3]}
Batches(c) == UNION {Prod([i \in 1..n |-> Items(c)]) : n \in 1..MaxBatch}

AmountsAllowed(c, f) == IF c \in SignOpen /\ f.s = "sell" THEN {f.a, 0 - f.a} ELSE {f.a}
TimeExpected(c, f)   == IF c \in NoTime THEN 0 ELSE f.t

\* the events a subscribed item may become
EventsOf(c, keys, f) == {Ev(key, c[1], f.p, a, f.s, TimeExpected(c, f)) : key \in keys, a \in AmountsAllowed(c, f)}

\* is `o` an allowed outcome of a message about market m with items fs ?
OutOK(c, sb, m, fs, o) ==
  IF m \in DOMAIN sb
  THEN /\ DOMAIN o = DOMAIN fs
       /\ \A i \in DOMAIN fs : o[i] \in EventsOf(c, sb[m], fs[i])
  ELSE o = <<Unid>>

\* the same as a set (for model checking / generation)
AllowedOut(c, sb, m, fs) ==
  IF m \in DOMAIN sb
  THEN Prod([i \in DOMAIN fs |-> EventsOf(c, sb[m], fs[i])])
  ELSE {<<Unid>>}

(***************************************************************************)
(* Steps                                                                   *)
(***************************************************************************)
Step(a, c, S, off, d, dk, m, fs, buf) ==
  [a |-> a, c |-> c, S |-> S, off |-> off, d |-> d, dk |-> dk, m |-> m, fs |-> fs, buf |-> buf]
NoStep == Step("Init", NoConn, {}, 0, 0, 0, 0, <<>>, FALSE)

\* the second instrument subscribed under a repeated market has a key of its own
DupKey == NMarkets + 1
KeysOf(m, off, d, dk) == IF m = d /\ dk = 2 THEN {KeyOf(m, off), DupKey} ELSE {KeyOf(m, off)}

Init == /\ conn = NoConn
        /\ subs = EmptyFn
        /\ out = <<>>
        /\ last = NoStep

SubscribeA(c, S, off, d, dk) ==
  /\ conn = NoConn
  /\ c \in Conns /\ S \subseteq Markets /\ off \in KeyOffs
  /\ dk \in DupKinds /\ (IF dk = 0 THEN d = 0 ELSE d \in S)
  /\ conn' = c
  /\ subs' = [m \in S |-> KeysOf(m, off, d, dk)]
  /\ out' = <<>>
  /\ last' = Step("Subscribe", c, S, off, d, dk, 0, <<>>, FALSE)

MessageSubscribedA(m, fs, buf) ==
  /\ conn # NoConn
  /\ \A i \in DOMAIN fs : fs[i].s \in SidesOf(conn)
  /\ m \in DOMAIN subs
  /\ out' \in AllowedOut(conn, subs, m, fs)
  /\ last' = Step("Message", conn, {}, 0, 0, 0, m, fs, buf)
  /\ UNCHANGED <<conn, subs>>

MessageUnsubscribedA(m, fs, buf) ==
  /\ conn # NoConn
  /\ \A i \in DOMAIN fs : fs[i].s \in SidesOf(conn)
  /\ m \in Markets \ DOMAIN subs
  /\ out' \in AllowedOut(conn, subs, m, fs)
  /\ last' = Step("Message", conn, {}, 0, 0, 0, m, fs, buf)
  /\ UNCHANGED <<conn, subs>>

DisconnectA ==
  /\ conn # NoConn
  /\ conn' = NoConn
  /\ subs' = EmptyFn
  /\ out' = <<>>
  /\ last' = Step("Disconnect", conn, {}, 0, 0, 0, 0, <<>>, FALSE)

Subscribe           == \E c \in Conns, S \in SUBSET Markets, off \in KeyOffs, d \in 0..NMarkets, dk \in DupKinds :
                           SubscribeA(c, S, off, d, dk)
MessageSubscribed   == \E m \in Markets, fs \in Batches(conn), buf \in BOOLEAN : MessageSubscribedA(m, fs, buf)
MessageUnsubscribed == \E m \in Markets, fs \in Batches(conn), buf \in BOOLEAN : MessageUnsubscribedA(m, fs, buf)
Disconnect          == DisconnectA

Next == Subscribe \/ MessageSubscribed \/ MessageUnsubscribed \/ Disconnect

Spec == Init /\ [][Next]_vars

\* one step given as a record (used by the generator and by trace validation)
Apply(e) ==
  CASE e.a = "Subscribe"  -> SubscribeA(e.c, e.S, e.off, e.d, e.dk)
    [] e.a = "Message"    -> /\ e.c = conn
                             /\ e.m \in Markets
                             /\ (MessageSubscribedA(e.m, e.fs, e.buf) \/ MessageUnsubscribedA(e.m, e.fs, e.buf))
    [] e.a = "Disconnect" -> e.c = conn /\ DisconnectA
    [] OTHER              -> FALSE

(***************************************************************************)
(* The property C13, as formulas over (vars, vars').                       *)
(***************************************************************************)
TypeOK ==
  /\ conn \in Conns \cup {NoConn}
  /\ DOMAIN subs \subseteq Markets
  /\ \A m \in DOMAIN subs : subs[m] # {} /\ subs[m] \subseteq 1..DupKey
  /\ (conn = NoConn => subs = EmptyFn)

\* distinct subscribed markets are distinct instruments
KeysDistinct == \A m1, m2 \in DOMAIN subs : subs[m1] \cap subs[m2] # {} => m1 = m2

IsMessage == last'.a = "Message"

\* every event carries the key of exactly the instrument subscribed under the message's
\* market, and the connector's exchange id - never another instrument
AttributionA ==
  \A i \in DOMAIN out' : out'[i].k = "ev" =>
      /\ IsMessage
      /\ last'.m \in DOMAIN subs
      /\ out'[i].key \in subs[last'.m]
      /\ \A m2 \in DOMAIN subs : m2 # last'.m => out'[i].key \notin subs[m2]
      /\ out'[i].ex = conn[1]

\* a message for a market that was not subscribed: an unidentifiable error, never an event
RejectUnsubscribedA ==
  (IsMessage /\ last'.m \notin DOMAIN subs) => out' = <<Unid>>

\* a message for a subscribed market: one event per item with the item's fields
FieldsPreservedA ==
  (IsMessage /\ last'.m \in DOMAIN subs) =>
      /\ Len(out') = Len(last'.fs)
      /\ \A i \in DOMAIN out' :
           LET f == last'.fs[i]  o == out'[i] IN
           /\ o.k = "ev"
           /\ o.p = f.p /\ o.s = f.s
           /\ (o.a = f.a \/ (conn \in SignOpen /\ f.s = "sell" /\ o.a = 0 - f.a))
           /\ (conn \notin NoTime => o.t = f.t)

\* subscribing / disconnecting emits nothing
QuietA == (~IsMessage) => out' = <<>>

StepProps == AttributionA /\ RejectUnsubscribedA /\ FieldsPreservedA /\ QuietA

Attribution       == [][AttributionA]_vars
RejectUnsubscribed == [][RejectUnsubscribedA]_vars
FieldsPreserved   == [][FieldsPreservedA]_vars
Quiet             == [][QuietA]_vars
=============================================================================
