SPECIFICATION GSpec
CONSTANTS
  Values = {0, 1, 2, 3}
  NegMag = {1}
  Gaps = {1}
  MaxLen = 5
  MaxResets = 0
INVARIANT Emit
CHECK_DEADLOCK FALSE
