--------------------------- MODULE Gen_OrderBook ---------------------------
(* Scenario generation for the C05 conformance harness (spec -> impl).       *)
(* A scenario is  {init: projected book, steps: [{ev, exp}]}  where `exp` is  *)
(* the list of ALL projected books OrderBook allows after the event (more    *)
(* than one only after an update that gives one price several different      *)
(* amounts).  The generator therefore tracks the SET of possible books       *)
(* `poss` (subset construction over OrderBook!Update / Snapshot) - every     *)
(* element carries levels, sequence, mid, volume-weighted mid (exact         *)
(* fractions) and the depth-limited snapshots.                               *)
(*  GSpecT (exhaustive): every book of one map on both sides x every event   *)
(*         of the bounded universe - transition coverage.                    *)
(*  GSpecR (simulation): long random behaviours over a wider price set,      *)
(*         events drawn with RandomElement (unsorted lists, duplicates,      *)
(*         zero amounts, absent deletes).                                    *)
EXTENDS OrderBook, Json, SequencesExt
CONSTANTS MaxLen,     \* events per behaviour
          Large       \* the "unbounded" depth
VARIABLES init, poss, hist, done

gvars == <<bids, asks, seq, last, init, poss, hist, done>>

RatJ(b, r) == IF IsEmpty(b) THEN "none" ELSE RJ(r)
Proj(b) == [bids |-> Levels(b.bids, "bids"), asks |-> Levels(b.asks, "asks"), seq |-> b.seq,
            mid |-> IF IsEmpty(b) THEN "none" ELSE RJ(Mid(b)),
            vw  |-> IF IsEmpty(b) THEN "none" ELSE RJ(VWMid(b)),
            d0 |-> Depth(b, 0), d1 |-> Depth(b, 1), d2 |-> Depth(b, 2), dL |-> Depth(b, Large)]

Maps == UNION {[S -> AMOUNT \ {0}] : S \in SUBSET PRICE}

\* all books the event allows from any possible book
After(P, e) ==
  IF e.k = "Snapshot" THEN {SnapshotResult(e.b, e.a, e.s)}
  ELSE UNION {UpdateResults(b, e.b, e.a, e.s) : b \in P}

Record(e) == /\ poss' = After(poss, e)
             /\ hist' = Append(hist, [ev |-> e, exp |-> {Proj(b) : b \in After(poss, e)}])
             /\ UNCHANGED <<init, done>>

\* the OrderBook variables follow one of the possible books (they only feed Next's guards)
Follow == \E b \in poss' : bids' = b.bids /\ asks' = b.asks /\ seq' = b.seq

GInitT == /\ \E m \in Maps : bids = m /\ asks = m
          /\ seq = 0 /\ last = NoEvent
          /\ init = Proj(Book) /\ poss = {Book} /\ hist = << >> /\ done = FALSE

GInitR == /\ Init
          /\ init = Proj(Book) /\ poss = {Book} /\ hist = << >> /\ done = FALSE

GStepT == /\ ~done /\ Len(hist) < MaxLen
          /\ Next                               \* OrderBook's own actions choose the event
          /\ Record(last')

RandList(n) == [j \in 1..n |-> RandomElement(LEVEL)]
RandClean(side) ==                \* (a parameter, so that TLC does not cache the draw)
             LET S  == RandomElement(SUBSET PRICE)
                 n  == Cardinality(S)
                 sq == SetToSeq(S)
                 f  == RandomElement(Permutations(1..n))
             IN [j \in 1..n |-> Lv(sq[f[j]], RandomElement(AMOUNT \ {0}))]

GStepR == /\ ~done /\ Len(hist) < MaxLen
          /\ LET snap == Cardinality(poss) > 4 \/ RandomElement(1..8) = 1
                 e == IF snap THEN Ev("Snapshot", RandClean("bids"), RandClean("asks"), RandomElement(SEQS))
                      ELSE Ev("Update", RandList(RandomElement(0..MaxLong)), RandList(RandomElement(0..MaxLong)),
                              RandomElement(SEQS))
             IN /\ Record(e)
                /\ last' = e
                /\ LET b == CHOOSE x \in After(poss, e) : TRUE IN bids' = b.bids /\ asks' = b.asks /\ seq' = b.seq

GFinish == /\ ~done /\ Len(hist) = MaxLen
           /\ done' = TRUE
           /\ UNCHANGED <<bids, asks, seq, last, init, poss, hist>>

GSpecT == GInitT /\ [][GStepT \/ GFinish]_gvars
GSpecR == GInitR /\ [][GStepR \/ GFinish]_gvars

Emit == done => PrintT(<<"SCN", ToJson([init |-> init, steps |-> hist])>>)
=============================================================================
