SPECIFICATION SpecUnfairAnswer
CONSTANTS
  CID = {"c1"}
  MaxSends = 2
INVARIANTS TypeOK AtMostOnce InFlightBacked
PROPERTY Resolved
CHECK_DEADLOCK FALSE
