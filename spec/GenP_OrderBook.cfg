SPECIFICATION GSpecT
CONSTANTS
  PRICE = {1, 2}
  AMOUNT = {0, 1, 2}
  SEQS = {7}
  MaxLong = 3
  MaxShort = 0
  MaxSnap = 2
  StableUpTo = 20
  MaxLen = 1
  Large = 99
INVARIANT Emit
CHECK_DEADLOCK FALSE
