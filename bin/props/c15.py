"""C15 - unrealised PnL of an open position tracks the instrument's latest price (spec/Position.tla)."""
import vlib
from props import position as P

MODULE = P.MODULE
META = {
    "spec": "Position",
    "technique": "TLA+ spec in exact fractions model-checked with TLC (FreshUnreal as an action property over fills and "
                 "newer / non-newer priced market events); TLC-generated interleavings of fills, public trades and L1 "
                 "updates with the expected estimate after every step driven through Engine::process and "
                 "EngineState::update_from_market; seeded random engine traces validated by TLC at the price read "
                 "from InstrumentDataState::price()",
}
ASSUMPTIONS = [
    "the instrument's current price is InstrumentDataState::price() read from the same engine state after the event "
    "(DefaultInstrumentMarketData: L1 volume-weighted mid price, else last public trade price)",
    "a market event is 'newer' when its exchange time is later than the last fill's; a non-newer priced market event "
    "arriving while the estimate still stems from that fill may leave it or recompute it (DESIGN 5.4)",
    "a market event after which the data state has no price (candle, liquidation, one-sided / empty L1 before any "
    "public trade), or that arrives without an open position, is a stutter: the estimate stays as it is (MarkNoPrice)",
    "the bookkeeping of the position (C02) is taken as given: a scenario where it diverges from the generator's "
    "expectation is not judged under C15. The data-state price is judged: with a position open, price() after a "
    "market event must be the documented one of DefaultInstrumentMarketData (mid of the held top of book if it has "
    "both sides - a newer one-sided / empty top of book replaces it - else the last public trade), otherwise the "
    "estimate is evaluated at an older price",
    "L1 events carry last_update_time == time_exchange; public trade prices are f64 (integers in the scenarios)",
    "two-sided top-of-book events come in every shape - normal, locked (bid = ask) and crossed (bid > ask), unequal "
    "amounts - and the documented price of any two-sided book is its volume-weighted mid "
    "(bid.price*ask.amount + ask.price*bid.amount)/(bid.amount + ask.amount), transcribed exactly into the data-state model",
    "fill fees may be negative (maker rebates), zero or positive; the estimate is linear in the entry fees",
    "prices are any integers: market prices (trades, L1 mids) and - for this property only - fill prices include 0 and "
    "negative values (spreads, sub-zero futures); C15 does not restrict the sign of a price",
]


def check(ctx):
    ctx.assumptions += ASSUMPTIONS
    ctx.build("c15")
    P.model_check(ctx, with_fills_model=False, with_nonpos_fills=True)
    nb = 600 if ctx.quick else 10000
    p_m, scn_m = P.generate(ctx, "GenM_Position.cfg", "market_interleavings.ndjson", simulate=(nb, 18))
    p_x, scn_x = P.generate(ctx, "GenX_Position_nonpos.cfg", "fills_exhaustive.ndjson")
    ctx.sample({"kind": "TLC simulated interleaving of fills and market events (first 6 steps)",
                "scenario": {"evs": scn_m[0]["evs"][:6]}})
    judged = unjudged = 0
    for mode in ("engine", "algo", "state", "instr"):
        j, u = P.replay_results(ctx, "c15", "c15", p_m, len(scn_m), mode, "none", "interleavings")
        judged, unjudged = judged + j, unjudged + u
    j, u = P.replay_results(ctx, "c15", "c15", p_x, len(scn_x), "engine", "none", "fills")
    judged, unjudged = judged + j, unjudged + u
    ctx.cov["scenarios_judged"] = judged
    ctx.cov["scenarios_not_judged"] = unjudged
    if judged == 0:
        raise vlib.ToolError("no scenario could be judged under C15: the position bookkeeping or the data-state price "
                             "diverge from the specification everywhere (see C02)")
    if unjudged:
        vlib.log("%d scenario run(s) not judged under C15 (bookkeeping / data-state price diverged)" % unjudged)
    steps = 2000 if ctx.quick else 40000
    for mode in ("engine", "algo", "state"):
        P.record_and_validate(ctx, "c15", "c15", mode, steps)
    return ctx.finish()


def replay(ctx, rp):
    return P.replay(ctx, "c15", "c15", rp)
