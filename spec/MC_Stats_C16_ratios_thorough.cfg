SPECIFICATION SpecHist
CONSTANTS
  Instr = {"i0"}
  Asset = {}
  PnLs <- PnLsQuick
  Costs = {10}
  Bals = {}
  Vals = {}
  MaxClosed = 4
  MaxBal = 0
  MaxVals = 0
  Gaps <- GapsThorough
  RFs <- RFsQuick
  Ivs = {"Daily", "Annual365", "Hours2"}
INVARIANTS TypeC16 AccSheet AccReturns RatioLaws TimeFreeC16
PROPERTIES ResetIsFresh
CHECK_DEADLOCK FALSE
VIEW View
