"""C14 - decided on spec/EngineCore.tla (see props/enginecore.py for the shared pipeline)."""
from props import enginecore

MODULE = "EngineCore"
META = {"spec": ["EngineCore", "BarterSystem"]}


def check(ctx):
    # the real composition: a killed execution link must yield exactly one disconnect notice naming
    # that exchange, and the engine must show its account link (and global health) as reconnecting
    from props import composition
    composition.run(ctx, composition.C14_TAGS, runs=4 if ctx.quick else 30)
    return enginecore.check(ctx)


def replay(ctx, rp):
    if rp.get("kind") == "system":
        from props import composition
        composition.run(ctx, composition.C14_TAGS, runs=4)
        return ctx.finish(write_evidence=False)
    return enginecore.replay(ctx, rp)
