SPECIFICATION GSpec
CONSTANTS
  HANDLES = {1, 2, 3, 4}
  TIMES = {0, 1, 2, 3, 4, 5}
  MAXWALL = 1000
  ITEMLISTS <- ItemLists
  MaxLen = 16
INVARIANTS Emit TypeOK ExLastIsMax TimeNotBelowEx TimeAddsElapsed SharedIffCloned
PROPERTIES Monotone LateIgnored UntimedIgnored NewerAdopted EqualTimeRestartsElapsed ObservedSharing CloneNew
CHECK_DEADLOCK FALSE
