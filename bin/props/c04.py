"""C04 - engine indices and exchange names translate both ways without mix-ups
(spec/Indexing.tla: MapFor, OrderRequest, IndexEvent, IndexSnapshot; invariants RoundTrip OnlyOwn
Outbound Inbound).  Shared pipeline: props/indexing.py, FOCUS = C04."""
from props import indexing

MODULE = "Indexing"
META = {
    "spec": ["Indexing", "BarterSystem", "AccountLink"],
    "level_note": "Trusted: TLC, the projection and concretisation in harness/src/idx_shared.rs, the recording stub "
                  "ExecutionClient behind the real ExecutionManager::run (tokio paused clock), the environment "
                  "assumptions in the evidence file. The global tables are taken from the implementation as given "
                  "(entity -> actual index is read off IndexedInstruments), so a defect of the builder (C11) does not "
                  "decide this verdict.",
}
ASSUMPTIONS = [
    "two assets of one exchange do not share an exchange name (names may be shared across exchanges)",
    "instrument exchange names need NOT be unique within an exchange; the documented uniqueness only restricts what is judged: "
    "name -> index (and inbound events) for a name several instruments of the exchange bear may yield any of its bearers; "
    "index -> name (and the outbound request) of such an instrument yields that name or is refused, never another name; "
    "every instrument whose exchange name is unique within its exchange translates exactly, whatever else the collection contains",
    "requests handed to a manager carry that manager's own exchange index or are refused; a refused request makes ExecutionManager::run panic by design ('non-configured key') and must not reach the client",
    "the collection's entities are present in IndexedInstruments (C11); their indices are taken as the implementation assigned them",
    "abstract exchanges / names are concretised order-preservingly (ExchangeId by declaration order, names as strings)",
]


def composition(ctx):
    """The real two-exchange system (props/composition.py, spec/BarterSystem.tla `Routed`): a request for an
    instrument of exchange X is answered in the name of X - commands spanning both exchanges included."""
    from props import composition as comp
    comp.run(ctx, comp.C04_TAGS, runs=3 if ctx.quick else 20)
    # the account link of one exchange (real ExecutionManager::init around a scripted exchange; spec/AccountLink.tla,
    # props/acctlink.py): snapshots, updates and responses carry the indices of THIS exchange's map (asset / instrument
    # names shared with the other exchange included), updates bearing foreign names or another ExchangeId are dropped,
    # a client whose constant ExchangeId belongs to another exchange is refused
    from props import acctlink
    acctlink.run(ctx, {"C04"})


def check(ctx):
    return indexing.check(ctx, "C04", "c04", "MC_Indexing.cfg" if ctx.quick else "MC_Indexing_thorough.cfg", ASSUMPTIONS,
                          before_finish=composition)


def replay(ctx, rp):
    if rp.get("kind") == "system":
        composition(ctx)          # re-runs the real system with the recorded seed family
        return ctx.finish(write_evidence=False)
    if rp.get("kind") == "acctlink":
        from props import acctlink
        return acctlink.replay(ctx, rp, {"C04"})
    return indexing.replay(ctx, rp, "C04", "c04")
