SPECIFICATION Spec
CONSTANTS
  MaxL = 5
  MaxR = 5
INVARIANTS TypeOK PrefixL PrefixR NothingHeldBack EndsWithInput
PROPERTIES Fused AppendOnly
CHECK_DEADLOCK FALSE
