"""C08 - the simulated exchange keeps a consistent ledger of balances, orders and fills
(spec/MockExchange.tla)."""
import json
import os

import vlib

MODULE = "MockExchange"
ASSETS = ("btc", "eth", "usdt")
META = {
    "level_note": "Trusted: TLC, the projection functions in harness/src/bin/c08.rs (amounts as integer "
                  "1/100 units, ids parsed as integers, the notifications of one request sorted by kind), "
                  "the environment assumptions listed in the evidence file. In mode `direct` the harness "
                  "plays the request loop around open_order (exchange clock, ack_trade) as MockExchange::run "
                  "does; mode `run` drives the real loop through a real MockExecution client.",
}
ASSUMPTIONS = [
    "initial balances have total = free (MockExchange::open_order asserts it: only market orders exist, nothing is ever locked)",
    "every asset of a listed instrument has a balance entry in the initial account (the code `expect`s it)",
    "`fees_percent` is used as the code and the example configurations use it: a plain factor of the traded value (0.05 = five percent); the spec's integer fee% is 100 x that number",
    "prices are positive whole numbers, quantities whole numbers of either sign or zero (the amount of an order is |quantity|; a zero quantity needs nothing and is accepted), balances multiples of 0.01, fee rates whole percents: every amount is exact in 1/100 units",
    "the mock never rests an order: the orders of the account are those of the initial snapshot (open and cancelled), unchanged for ever; a cancel request is never confirmed and changes nothing (how it is answered is not judged)",
    "after the exchange task has ended the ledger cannot be observed; what is judged is that every client call answers ExchangeOffline(<mocked exchange>), that open / cancel answers echo the request, and that nothing is announced",
    "the order in which a trade query lists the fills is not judged (bag comparison)",
    "the value of a fresh id is open (any integer id not below every earlier one); the textual reason of a rejection is not judged; the mutual order of the two notifications of one order is not judged",
    "the bought asset is not credited by the simulated exchange - the statement does not ask for it and the check does not demand it",
    "a requester going away - also the last request sender, the client, being dropped while accepted orders are inside the latency window - is not a step of the exchange: the notifications of every accepted order must still reach whoever listens to the account stream; after such a hang-up the ledger is not observable and only the notification history is judged",
    "requests queued together (a burst) are handled in queue order (MockExchange::run takes them from a FIFO channel one at a time): a burst is judged as the composition of the specification's single steps; within a burst the balance notifications among themselves and the trade notifications among themselves must be in queue order, how the two kinds interleave is not judged (the projection pairs the j-th of either kind)",
]

ACTIONS = ["OpenRejectKindA", "OpenRejectInstrA", "OpenAcceptBuyA", "OpenRejectFundsBuyA", "OpenAcceptSellA",
           "OpenRejectFundsSellA", "FetchSnapshotA", "FetchBalancesA", "FetchOrdersOpenA", "FetchTradesA",
           "CancelUnsupportedA", "Kill", "OfflineA"]
PENDING = []       # (segment length, signature, description, replay) - registered shortest first


# ----------------------------------------------------------------------------- screening
def _is_int(v):
    return isinstance(v, int) and not isinstance(v, bool) and abs(v) < 2 ** 31


def _bad_trade(t):
    return not (isinstance(t, dict) and all(_is_int(t.get(k)) for k in ("id", "oid", "p", "q", "fee", "t"))
                and isinstance(t.get("instr"), str) and isinstance(t.get("side"), str))


def _bad_ledger(p, with_notif=True):
    if not isinstance(p, dict) or "panic" in p:
        return "the call panicked: %s" % (p.get("panic") if isinstance(p, dict) else p)
    b = p.get("bal")
    if not isinstance(b, dict) or set(b) != set(ASSETS):
        return "the balances are not one entry per configured asset: %s" % json.dumps(b)
    for a in ASSETS:
        if not (isinstance(b[a], dict) and _is_int(b[a].get("total")) and _is_int(b[a].get("free"))):
            return "balance of %s is not a whole number of 1/100 units: %s" % (a, json.dumps(b[a]))
    for t in p.get("trades", []):
        if _bad_trade(t):
            return "a recorded fill carries a value that is not an exact spec value: %s" % json.dumps(t)
    for o in p.get("open", []):
        if not all(_is_int(o.get(k)) for k in ("p", "q", "filled")):
            return "a resting order carries a non-integral value: %s" % json.dumps(o)
    if with_notif:
        for n in p.get("notif", []):
            if not (_is_int(n.get("total")) and _is_int(n.get("free"))) or _bad_trade(n.get("trade")):
                return "a notification carries a value that is not an exact spec value: %s" % json.dumps(n)
    return None


def anomaly(line):
    """Lines the projection cannot express as well-typed spec values (panic, exchange task gone,
    non-integral amounts, non-numeric ids): reported here, never shown to TLC."""
    d = _bad_ledger(line.get("post"))
    if d:
        return d
    if line.get("a") == "Reset":
        return None
    if line.get("a") == "burst":
        its = line.get("reqs")
        hang = line.get("hang", 0)
        if not isinstance(its, list) or len(its) < (1 if hang else 2) or hang not in (0, 1, 2):
            return "a burst line without its requests"
        for it in its:
            if hang and it.get("out") == "panic":
                return "the call panicked: the MockExchange::run task panicked"
            if (hang and not (it.get("a") == "open" and it.get("drop") in (1, 2))) or (not hang and it.get("drop", 0) != 0) \
                    or it.get("a") in ("kill", "Reset", "burst"):
                return "a burst may not contain %s" % it.get("a")
            d = _bad_answer(it)
            if d:
                return d
        return None
    return _bad_answer(line)


def _bad_answer(line):
    if line.get("out") not in ("ok", "rej", "query", "lost", "offline", "killed", "cancelled") or (line.get("out") == "lost") != (line.get("drop", 0) in (1, 2)):
        return "the request was not answered: %s" % line.get("out")
    if not _is_int(line.get("id")) or not _is_int(line.get("filled")) or not _is_int(line.get("rt")):
        return "the response carries a non-integral id / filled quantity / time: %s %s %s" % (line.get("id"), line.get("filled"), line.get("rt"))
    if not _is_int(line.get("echo")):
        return "the line carries no echo flag"
    if line["out"] == "ok" and line["id"] < 0:
        return "the order id of an accepted order is not a number"
    d = _bad_ledger(line.get("res"), with_notif=False)
    if d:
        return "query result: " + d
    return None


# ----------------------------------------------------------------------------- reporting
def _amt(c):
    return "%d.%02d" % (c // 100, c % 100) if c >= 0 else "-%d.%02d" % ((-c) // 100, (-c) % 100)


def _bal(b):
    return "{" + ", ".join("%s %s" % (a, _amt(b[a]["free"]) if b[a]["free"] == b[a]["total"]
                                       else "%s free/%s total" % (_amt(b[a]["free"]), _amt(b[a]["total"])))
                           for a in ASSETS) + "}"


def _req(line):
    if line["a"] == "open":
        return "%s %s %d @ %d on %s (client time %d ms)%s" % (line["kind"], line["side"], line["q"], line["p"], line["instr"], line["t"],
                                                          ", requester stopped waiting before the exchange handled it" if line.get("drop") in (1, 2)
                                                          else (", in flight when the exchange task ended" if line.get("drop") == 3 else ""))
    if line["a"] == "trades":
        return "fetch_trades(since %d ms) at client time %d ms" % (line["since"], line["t"])
    if line["a"] == "kill":
        return "the exchange task ends" + (" while the next request is in flight" if line.get("drop") == 3 else "")
    if line["a"] == "cancel":
        return "cancel request on %s at client time %d ms" % (line["instr"], line["t"])
    if line["a"] == "orders":
        return "fetch_open_orders at client time %d ms" % line["t"]
    return "%s at client time %d ms" % (line["a"], line["t"])


def _new_notifs(line, pre):
    return line["post"]["notif"][len(pre["notif"]):]


def burst_signature(line, pre, fails, j):
    """burst:<clauses>:<what> - stable and aggregating: the clauses of C08 the burst breaks and, for the
    notification clauses, which kind of notification is missing / extra / out of order (a label read off the
    line; the verdict is TLC's)."""
    its = line["reqs"]
    new = _new_notifs(line, pre)
    na = sum(1 for it in its if it["out"] == "ok")
    nb = sum(1 for n in new if n["k"] == "balance")
    nt = sum(1 for n in new if n["k"] == "trade")
    if line.get("hang"):
        what = ("nothing_announced" if nb + nt == 0 else "balance_missing" if nb < nt else "trade_missing" if nt < nb
                else "pattern") if "Notif11" in fails else "content"
        return "hangup:%s:%s" % ("+".join(sorted(fails)).lower(), what)
    if "Notif11" in fails:
        what = ("balance_missing" if nb < na else "trade_missing" if nt < na else "balance_extra" if nb > na
                else "trade_extra" if nt > na else "pattern")
    elif "NotifContent" in fails:
        ids = [n["trade"]["id"] for n in new if n["k"] == "trade"]
        per_asset = {}
        for n in new:
            if n["k"] == "balance":
                per_asset.setdefault(n["asset"], []).append(n["free"])
        # the assets the accepted orders of the burst spent, in queue order (a label only)
        spent = [(("usdt" if it["instr"] == "btc_usdt" else "btc") if it["side"] == "buy" else it["instr"].split("_")[0])
                 for it in its if it["out"] == "ok"]
        if ids != sorted(ids):
            what = "trade_order"
        elif any(v != sorted(v, reverse=True) for v in per_asset.values()) or \
                [n["asset"] for n in new if n["k"] == "balance"] != spent:
            what = "balance_order"
        else:
            what = "content"
    else:
        it = its[j - 1] if 1 <= j <= len(its) else its[-1]
        what = "%s/%s:%s" % (it["a"], it["out"], "first" if j == 1 else "later")
    return "burst:%s:%s" % ("+".join(sorted(fails)).lower(), what)


def _burst_desc(line):
    return "; ".join("%s -> %s%s" % (_req(it), it["out"], (" id %d" % it["id"]) if it["out"] == "ok" else
                                     (" (%s)" % it.get("why") if it["out"] == "rej" else "")) for it in line["reqs"])


def signature(line, fails):
    listed = "listed" if line.get("instr") in ("btc_usdt", "eth_btc") else ("unlisted" if line.get("a") == "open" else "-")
    return "%s:%s:%s:%s:%s:%s" % (line.get("a"), line.get("side"), line.get("kind"), listed, line.get("out"),
                                  "+".join(sorted(fails)))


def scenario_of(seg):
    r = seg[0]
    init = {"fee": r["fee"], "lat": r["lat"], "bal": r["cfg"]["bal"], "open": r["cfg"]["open"], "up": True}
    if r.get("late"):
        init["late"] = 1
    keys = ("a", "t", "side", "p", "q", "instr", "kind", "since", "drop")
    evs, hang = [], 0
    for l in seg[1:]:
        if l["a"] == "burst" and l.get("hang"):
            hang = l["hang"]
            for it in l["reqs"]:
                evs.append(dict({k: it[k] for k in keys}, bq=0, hg=1))
        elif l["a"] == "burst":
            for n, it in enumerate(l["reqs"]):
                evs.append(dict({k: it[k] for k in keys}, bq=1 if n else 0))
        else:
            evs.append({k: l[k] for k in keys})
    return {"init": init, "evs": evs, "hang": hang}


def validate(ctx, trace_path, mode, label):
    lines = ctx.read_trace(trace_path)
    clean = ctx.path("clean_%s.ndjson" % label.replace("/", "_"))
    found, keep = ctx.screen_anomalies(lines, clean, anomaly)
    for n, d, seg in found:
        PENDING.append((len(seg), "anomaly:" + d.split(":")[0], "%s after %s [%s, line %d]" % (
            d, ("a burst queued together: " + "; ".join(_req(it) for it in seg[-1].get("reqs", []))) if seg[-1].get("a") == "burst"
            else _req(seg[-1]) if seg[-1].get("a") != "Reset" else "building the exchange", label, n),
            {"mode": mode, "scenario": scenario_of(seg)}))
    n, bad, truncated = ctx.tlc_trace("Trace_" + MODULE, "Trace_" + MODULE + ".cfg", clean)
    why, at = {}, {}
    wp = clean + ".why"
    if os.path.exists(wp):
        for w in ctx.read_trace(wp):
            why[w["l"]] = w["f"]
            at[w["l"]] = w.get("j", 0)
    for b in bad:
        seg = ctx.segment(keep, b)
        line = keep[b - 1]
        fails = why.get(b) or ["unconsumed"]
        world = seg[0]
        if line.get("a") == "Reset":
            sig = "reset:" + "+".join(sorted(fails))
            desc = "a fresh exchange configured with %s shows %s / %d fills / orders %s [%s, line %d]" % (
                _bal(world["cfg"]["bal"]), _bal(line["post"]["bal"]), len(line["post"]["trades"]),
                json.dumps(line["post"]["open"]), label, b)
        elif line.get("a") == "burst":
            pre = seg[-2]["post"]
            new = _new_notifs(line, pre)
            sig = burst_signature(line, pre, fails, at.get(b, 0))
            desc = "fee %d%%, latency %d ms, balances %s, %d fill(s) so far: %d requests %s%s: %s; afterwards balances %s, %d fill(s), %d balance and %d trade notification(s) more (balances announced: %s); breaks %s at request %d of the burst [%s/%s, line %d]" % (
                world["fee"], world["lat"], _bal(pre["bal"]), len(pre["trades"]), len(line["reqs"]),
                ("sent without waiting for an answer, then the LAST REQUEST SENDER WAS DROPPED inside the latency window (%s; the ledger is "
                 "not observable afterwards, the figures repeat the last observation)" % ("at once" if line["hang"] == 1 else "after the exchange handled them"))
                if line.get("hang") else "QUEUED TOGETHER",
                " before the exchange task was started" if (world.get("late") and len(seg) == 2) else "", _burst_desc(line),
                _bal(line["post"]["bal"]), len(line["post"]["trades"]),
                sum(1 for n in new if n["k"] == "balance"), sum(1 for n in new if n["k"] == "trade"),
                ", ".join("%s %s" % (n["asset"], _amt(n["free"])) for n in new if n["k"] == "balance") or "none",
                "+".join(sorted(fails)), at.get(b, 0), line.get("src", label), mode, b)
        else:
            pre = seg[-2]["post"]
            sig = signature(line, fails)
            src = line.get("src", label)
            desc = "fee %d%%, latency %d ms, balances %s, %d fill(s) so far: %s -> answered %s%s, balances %s, %d fill(s), %d notification(s) more; breaks %s [%s/%s, line %d]" % (
                world["fee"], world["lat"], _bal(pre["bal"]), len(pre["trades"]), _req(line), line["out"],
                (" id %d" % line["id"]) if line["out"] == "ok" else (" (%s)" % line.get("why") if line["out"] == "rej" else ""),
                _bal(line["post"]["bal"]), len(line["post"]["trades"]), len(line["post"]["notif"]) - len(pre["notif"]),
                "+".join(sorted(fails)), src, mode, b)
        PENDING.append((len(seg), sig, desc, {"mode": mode, "scenario": scenario_of(seg)}))
    ctx.cov["traces_validated_against_impl"] += sum(1 for l in keep if l.get("a") == "Reset")
    arms = ctx.cov.setdefault("trace_lines_per_arm", {})
    bc = ctx.cov.setdefault("bursts", {"validated": 0, "requests": 0, "by_length": {}, "two_or_more_accepted_spending_one_asset": 0,
                                       "accepted_then_rejected_for_funds": 0, "query_between_two_accepted": 0,
                                       "queued_before_the_exchange_started": 0, "late_started_exchanges": 0})
    prev = reset = None
    for l in keep:
        if l.get("a") == "Reset":
            reset = l
            bc["late_started_exchanges"] += 1 if l.get("late") else 0
        if l.get("a") == "burst" and l.get("hang"):
            hc = ctx.cov.setdefault("hangups", {"validated": 0, "requests": 0, "after_timed_out_requester": 0, "fire_and_forget": 0,
                                                "at_once": 0, "after_the_exchange_handled_them": 0,
                                                "with_an_order_announced_after_the_hang_up_and_latency_above_0": 0,
                                                "on_an_exchange_started_late": 0})
            new = l["post"]["notif"][len(prev["post"]["notif"]):] if prev is not None else []
            hc["validated"] += 1
            hc["requests"] += len(l["reqs"])
            hc["after_timed_out_requester"] += any(it["drop"] == 2 for it in l["reqs"])
            hc["fire_and_forget"] += any(it["drop"] == 1 for it in l["reqs"])
            hc["at_once" if l["hang"] == 1 else "after_the_exchange_handled_them"] += 1
            lat_of = reset
            hc["with_an_order_announced_after_the_hang_up_and_latency_above_0"] += bool(new) and lat_of["lat"] > 0
            hc["on_an_exchange_started_late"] += bool(prev is not None and prev.get("a") == "Reset" and prev.get("late"))
            for it in l["reqs"]:
                k = "hangup:open/%s/lost" % it["side"]
                arms[k] = arms.get(k, 0) + 1
        elif l.get("a") == "burst":
            its = l["reqs"]
            bc["validated"] += 1
            bc["requests"] += len(its)
            bc["by_length"][str(len(its))] = bc["by_length"].get(str(len(its)), 0) + 1
            spent = [(("usdt" if it["instr"] == "btc_usdt" else "btc") if it["side"] == "buy" else it["instr"].split("_")[0])
                     if it["a"] == "open" else None for it in its]
            oks = [n for n, it in enumerate(its) if it["out"] == "ok"]
            if any(spent[a] == spent[b2] for a in oks for b2 in oks if a < b2):
                bc["two_or_more_accepted_spending_one_asset"] += 1
            if any(its[n]["out"] == "rej" and its[n].get("why") == "funds" and any(spent[a] == spent[n] for a in oks if a < n) for n in range(len(its))):
                bc["accepted_then_rejected_for_funds"] += 1
            if any(its[n]["out"] == "query" and any(a < n for a in oks) and any(a > n for a in oks) for n in range(len(its))):
                bc["query_between_two_accepted"] += 1
            if prev is not None and prev.get("a") == "Reset" and prev.get("late"):
                bc["queued_before_the_exchange_started"] += 1
            for it in its:
                k = "burst:%s/%s" % (it["a"], it["out"] if it["a"] != "open" else "%s/%s" % (it["side"], it["out"] + ("" if it["out"] == "ok" else ":" + it.get("why", "-"))))
                arms[k] = arms.get(k, 0) + 1
        prev = l
    for l in keep:
        if l.get("a") not in ("Reset", "burst"):
            k = "%s/%s" % (l["a"], l["out"] if l["a"] != "open" else "%s/%s" % (l["side"], l["out"] + ("" if l["out"] == "ok" else ":" + l.get("why", "-"))))
            arms[k] = arms.get(k, 0) + 1
    return n


def burst_bite(ctx):
    """The binding must bite: a recorded burst of two accepted orders spending one asset, with the FIRST of its
    balance notifications taken out of the observed history (what a coalescing exchange would publish), has to be
    rejected by Trace_MockExchange (Notif11). A tool error if it is not - the burst stage would be vacuous."""
    lines = ctx.read_trace(ctx.path("clean_run.ndjson"))
    for n, l in enumerate(lines):
        if l.get("a") != "burst" or lines[n - 1].get("a") != "Reset":
            continue
        its = l["reqs"]
        if len(its) == 2 and all(it["out"] == "ok" for it in its) and (its[0]["instr"], its[0]["side"]) == (its[1]["instr"], its[1]["side"]):
            bad = json.loads(json.dumps(l))
            k = len(lines[n - 1]["post"]["notif"])
            assert bad["post"]["notif"][k]["k"] == "balance"
            del bad["post"]["notif"][k]
            p = ctx.path("bite_burst.ndjson")
            with open(p, "w") as f:
                f.write(json.dumps(lines[n - 1]) + "\n" + json.dumps(l) + "\n" + json.dumps(lines[n - 1]) + "\n" + json.dumps(bad) + "\n")
            _, rejected, _ = ctx.tlc_trace("Trace_" + MODULE, "Trace_" + MODULE + ".cfg", p)
            ctx.cov["tlc_runs"][-1]["mode"] = "trace-validation (self-test: a corrupted burst must be rejected)"
            why = {w["l"]: w["f"] for w in ctx.read_trace(p + ".why")} if os.path.exists(p + ".why") else {}
            if rejected != [4] or why.get(4) != ["Notif11"]:
                raise vlib.ToolError("a burst whose first balance notification was removed was not rejected as Notif11 "
                                     "(rejected lines %s, clauses %s)" % (rejected, why))
            ctx.cov["bursts"]["corrupted_burst_rejected_as"] = "Notif11"
            ctx.cov["trace_events_validated"] -= 4      # (a self-test, not evidence about the implementation)
            return
    raise vlib.ToolError("no burst of two accepted orders on one asset right after a Reset was recorded")


def flush(ctx):
    for _, sig, desc, rp in sorted(PENDING, key=lambda x: x[0]):
        ctx.violation(sig, desc, rp)
    del PENDING[:]


# ----------------------------------------------------------------------------- harness
def harness(ctx, *args):
    """VERIF_C08_BIN=<path to a c08 binary built against a scratch copy of the repository> runs
    that binary instead (mutation experiments); evidence records the override."""
    override = os.environ.get("VERIF_C08_BIN")
    if not override:
        return ctx.harness("c08", *args)
    rc, out, dt = vlib.run([override] + [str(a) for a in args], cwd=ctx.work, timeout=1200)
    if rc != 0:
        raise vlib.ToolError("harness override %s exited %d\n%s" % (override, rc, out[-3000:]))
    ctx.cov["harness_override"] = override
    return {}


def concat(ctx, name, parts):
    """One trace file per mode (one JVM start): every line is tagged with its source."""
    p = ctx.path(name)
    with open(p, "w") as f:
        for src, path in parts:
            for l in ctx.read_trace(path):
                l["src"] = src
                f.write(json.dumps(l) + "\n")
    return p


def check(ctx):
    ctx.assumptions += ASSUMPTIONS
    if not os.environ.get("VERIF_C08_BIN"):
        ctx.build("c08")
    # every arm of open_order and every query must be taken (vacuity), checked on a small graph
    # (-coverage makes the big runs several times slower)
    ctx.tlc_actions(MODULE, "MC_MockExchange_small.cfg", ACTIONS)
    for cfg in (("MC_MockExchange.cfg",) if ctx.quick else ("MC_MockExchange_thorough.cfg", "MC_MockExchange_deep.cfg")):
        ctx.tlc_mc(MODULE, cfg, timeout=1500, coverage=False)
    # the points the property leaves open (id values, reading of the exchange clock) widened
    ctx.tlc_mc(MODULE, "MC_MockExchange_slack.cfg", timeout=900, coverage=False)
    # (i) every initial account x every request: one implementation test per arm and balance situation
    p_t, scn_t = ctx.tlc_gen("Gen_" + MODULE, "GenT_MockExchange.cfg", "transitions.ndjson")
    # (ii) simulated request sequences
    nb = 250 if ctx.quick else 5000
    p_b, scn_b = ctx.tlc_gen("Gen_" + MODULE, "GenB_MockExchange.cfg", "behaviours.ndjson", simulate=(nb, 20), timeout=900)
    # (iii) every pair of requests queued together (a burst of two), on accounts that cover none / one / both
    p_p, scn_p = ctx.tlc_gen("Gen_" + MODULE, "GenP_MockExchange.cfg" if ctx.quick else "GenP_MockExchange_thorough.cfg", "pairs.ndjson")
    queued = [("pairs", p_p, scn_p)]
    if not ctx.quick:
        # ... and every triple (two opens with a query, or a third order, queued between / after them)
        p_p3, scn_p3 = ctx.tlc_gen("Gen_" + MODULE, "GenP3_MockExchange.cfg", "triples.ndjson")
        queued.append(("triples", p_p3, scn_p3))
    ctx.sample({"kind": "TLC pair of requests queued together", "scenario": scn_p[len(scn_p) // 2]})
    ctx.sample({"kind": "TLC transition scenario", "scenario": scn_t[len(scn_t) // 3]})
    ctx.sample({"kind": "TLC simulated behaviour", "scenario": scn_b[0]})
    steps = 3000 if ctx.quick else 40000
    for mode in ("direct", "run"):
        parts = []
        for label, scn in (("transitions", p_t), ("behaviours", p_b)):
            out = ctx.path("trace_%s_%s.ndjson" % (label, mode))
            harness(ctx, "run", "--scenarios", scn, "--out", out, "--mode", mode, "--abandon", 4, "--late", 3)
            parts.append((label, out))
            ctx.cov["scenarios_replayed"] += len(scn_t) if label == "transitions" else len(scn_b)
        if mode == "run":
            for label, scn, scns in queued:
                out = ctx.path("trace_%s_run.ndjson" % label)
                harness(ctx, "run", "--scenarios", scn, "--out", out, "--mode", mode, "--late", 3)
                parts.append((label, out))
                ctx.cov["scenarios_replayed"] += len(scns)
        out = ctx.path("trace_random_%s.ndjson" % mode)
        harness(ctx, "random", "--seed", ctx.seed + (0 if mode == "direct" else 7919), "--steps", steps, "--out", out, "--mode", mode)
        parts.append(("random", out))
        if mode == "run":
            with open(out) as f:
                ctx.sample({"kind": "recorded line (random driver through MockExchange::run)", "line": json.loads(f.readlines()[3])})
        validate(ctx, concat(ctx, "trace_%s.ndjson" % mode, parts), mode, mode)
    # the self-test and the vacuity census presuppose recorded bursts that ARE behaviours of the specification: when the
    # implementation has already been found to deviate, the verdict stands and they are skipped (a deviation must end
    # in VIOLATION, never in a tool error of a self-test that re-uses the deviating recording)
    if not PENDING and not ctx.violations:
        burst_bite(ctx)
        # vacuity: bursts must really have been recorded and validated, in every shape the extension is about
        bc = ctx.cov.get("bursts", {})
        for k in ("validated", "two_or_more_accepted_spending_one_asset", "accepted_then_rejected_for_funds",
                  "query_between_two_accepted", "queued_before_the_exchange_started"):
            if not bc.get(k):
                raise vlib.ToolError("no burst of kind `%s` was recorded: the burst stage is vacuous" % k)
        hc = ctx.cov.get("hangups", {})
        for k in ("validated", "after_timed_out_requester", "fire_and_forget", "at_once", "after_the_exchange_handled_them",
                  "with_an_order_announced_after_the_hang_up_and_latency_above_0"):
            if not hc.get(k):
                raise vlib.ToolError("no hang-up of kind `%s` was recorded: the hang-up stage is vacuous" % k)
    flush(ctx)
    return ctx.finish()


def replay(ctx, rp):
    if not os.environ.get("VERIF_C08_BIN"):
        ctx.build("c08")
    scn = ctx.path("replay_scn.ndjson")
    with open(scn, "w") as f:
        f.write(json.dumps(rp["scenario"]) + "\n")
    out = ctx.path("replay_trace.ndjson")
    harness(ctx, "run", "--scenarios", scn, "--out", out, "--mode", rp["mode"])
    validate(ctx, out, rp["mode"], "replay")
    flush(ctx)
    return ctx.finish(write_evidence=False)
