"""C19 - decided on spec/EngineCore.tla (see props/enginecore.py for the shared pipeline)."""
from props import enginecore

MODULE = "EngineCore"
META = {"spec": ["EngineCore", "BarterSystem", "SystemLifecycle"]}


def check(ctx):
    # the real composition: the System API (`System::cancel_orders` / `close_positions` / ...) hands
    # exactly the command it was given - with its filter - to the engine, in order
    from props import composition
    composition.run(ctx, composition.C19_TAGS, runs=3 if ctx.quick else 20)
    # the System lifecycle (spec/SystemLifecycle.tla): every command handed over before a stop call is processed before the
    # engine stops - exactly once, in hand-over order, with the content it was given (signatures "lifecycle:cmd_...")
    from props import lifecycle
    n_before = len(ctx.violations)
    lifecycle.run(ctx, lifecycle.C19_TAGS)
    if len(ctx.violations) > n_before:     # report it now: a tool error in a later stage must not hide this verdict
        return ctx.finish()
    return enginecore.check(ctx)


def replay(ctx, rp):
    if rp.get("kind") == "system":
        from props import composition
        composition.run(ctx, composition.C19_TAGS, runs=3)
        return ctx.finish(write_evidence=False)
    if rp.get("kind") == "lifecycle":
        from props import lifecycle
        return lifecycle.replay(ctx, rp, lifecycle.C19_TAGS)
    return enginecore.replay(ctx, rp)
