//! Composition driver for spec/BarterSystem.tla: the REAL system assembled by `SystemBuilder`
//! (engine + execution request channel + `ExecutionManager` + `MockExchange` behind a
//! `MockExecution` client + account feed), observed through the audit stream and through the
//! strategy, which is handed the engine state after every processed event.
//!
//! `system record --seed S --rounds N --out trace.ndjson`
//!
//! The driver sends market data, open requests (market orders that fill, limit orders the mock
//! exchange rejects, orders it cannot afford), cancel requests for ids in any state, and
//! cancel-orders / close-positions commands, with small random pauses so that responses interleave
//! with new commands; then leaves the system alone (quiescence) and shuts it down.
use barter::{
    EngineEvent,
    engine::{
        Engine, EngineOutput,
        command::Command,
        action::ActionOutput,
        audit::EngineAudit,
        clock::HistoricalClock,
        state::{
            EngineState,
            connectivity::Health,
            global::DefaultGlobalData,
            instrument::{data::DefaultInstrumentMarketData, filter::InstrumentFilter},
            trading::TradingState,
        },
    },
    execution::AccountStreamEvent,
    risk::DefaultRiskManager,
    strategy::{
        algo::AlgoStrategy,
        close_positions::{ClosePositionsStrategy, close_open_positions_with_market_orders},
        on_disconnect::OnDisconnectStrategy,
        on_trading_disabled::OnTradingDisabled,
    },
    system::{
        builder::{AuditMode, EngineFeedMode, SystemArgs, SystemBuilder},
        config::ExecutionConfig,
    },
};
use barter_data::{
    event::{DataKind, MarketEvent},
    streams::consumer::MarketStreamEvent,
    subscription::trade::PublicTrade,
};
use barter_execution::{
    AccountEventKind, UnindexedAccountSnapshot,
    balance::{AssetBalance, Balance},
    client::mock::MockExecutionConfig,
    order::{
        OrderKey, OrderKind, TimeInForce,
        id::{ClientOrderId, OrderId, StrategyId},
        request::{OrderRequestCancel, OrderRequestOpen, RequestCancel, RequestOpen},
        state::{ActiveOrderState, InactiveOrderState, OrderState},
    },
};
use barter_instrument::{
    Side, Underlying,
    asset::{AssetIndex, name::AssetNameExchange},
    exchange::{ExchangeId, ExchangeIndex},
    index::IndexedInstruments,
    instrument::{Instrument, InstrumentIndex, name::InstrumentNameInternal},
};
use barter_integration::{collection::one_or_many::OneOrMany, snapshot::SnapUpdates};
use parking_lot::Mutex;
use rand::Rng;
use rust_decimal::Decimal;
use serde_json::{Value, json};
use std::{sync::Arc, time::Duration};
use vh::util::*;

// deliberately NOT ExchangeId::Mock: the mock client's own `EXCHANGE` constant must never leak into the link's identity.
// TWO exchanges, each with its own request channel, ExecutionManager, MockExecution client and MockExchange task.
const EXCHANGES: [ExchangeId; 2] = [ExchangeId::BinanceSpot, ExchangeId::Kraken];

static CLOSE_IDS: std::sync::atomic::AtomicUsize = std::sync::atomic::AtomicUsize::new(0);

/// One instrument of the system: where it lives and where the builder indexed it.
#[derive(Clone)]
struct Inst {
    ex: ExchangeId,
    exi: ExchangeIndex,
    idx: InstrumentIndex,
    price: i64,
}
type State = EngineState<DefaultGlobalData, DefaultInstrumentMarketData>;
type Cmd = Command<ExchangeIndex, AssetIndex, InstrumentIndex>;

fn order_kind(s: &ActiveOrderState) -> &'static str {
    match s {
        ActiveOrderState::OpenInFlight(_) => "OIF",
        ActiveOrderState::Open(_) => "Open",
        ActiveOrderState::CancelInFlight(c) => if c.order.is_some() { "CIFo" } else { "CIFn" },
    }
}

/// no algo orders of its own: it records the engine's view of every order after each event
#[derive(Clone)]
struct Observer {
    id: StrategyId,
    views: Arc<Mutex<Vec<Value>>>,
}

impl AlgoStrategy for Observer {
    type State = State;
    fn generate_algo_orders(
        &self,
        state: &Self::State,
    ) -> (
        impl IntoIterator<Item = OrderRequestCancel<ExchangeIndex, InstrumentIndex>>,
        impl IntoIterator<Item = OrderRequestOpen<ExchangeIndex, InstrumentIndex>>,
    ) {
        let mut m = serde_json::Map::new();
        for inst in state.instruments.0.values() {
            for (cid, o) in inst.orders.0.iter() {
                m.insert(cid.0.to_string(), json!(order_kind(&o.state)));
            }
        }
        let bal: serde_json::Map<String, Value> = state.assets.0.iter().map(|(k, a)| {
            (format!("bal_{}_{}", k.exchange.as_str(), k.asset), match &a.balance {
                None => json!({"has": false, "t": 0, "v": 0}),
                Some(b) => json!({"has": true, "t": untime_ms(b.time), "v": dec_units(b.value.total, 1000)}),
            })
        }).collect();
        let conn: serde_json::Map<String, Value> = state.connectivity.exchanges.iter()
            .map(|(ex, c)| (ex.as_str().to_string(), json!({"market": c.market_data == Health::Healthy, "account": c.account == Health::Healthy}))).collect();
        self.views.lock().push(json!({"orders": m, "bal": bal, "conn": conn, "global": state.connectivity.global == Health::Healthy}));
        (std::iter::empty(), std::iter::empty())
    }
}

impl ClosePositionsStrategy for Observer {
    type State = State;
    fn close_positions_requests<'a>(
        &'a self,
        state: &'a Self::State,
        filter: &'a InstrumentFilter<ExchangeIndex, AssetIndex, InstrumentIndex>,
    ) -> (
        impl IntoIterator<Item = OrderRequestCancel<ExchangeIndex, InstrumentIndex>> + 'a,
        impl IntoIterator<Item = OrderRequestOpen<ExchangeIndex, InstrumentIndex>> + 'a,
    )
    where
        ExchangeIndex: 'a,
        AssetIndex: 'a,
        InstrumentIndex: 'a,
    {
        // ids of close-position orders come from their own pool z1, z2, ...
        close_open_positions_with_market_orders(&self.id, state, filter, |_| {
            ClientOrderId::new(format!("z{}", CLOSE_IDS.fetch_add(1, std::sync::atomic::Ordering::Relaxed) + 1))
        })
    }
}

impl<Clock, ExecutionTxs, Risk> OnDisconnectStrategy<Clock, State, ExecutionTxs, Risk> for Observer {
    type OnDisconnect = ();
    fn on_disconnect(_: &mut Engine<Clock, State, ExecutionTxs, Self, Risk>, _: ExchangeId) -> Self::OnDisconnect {}
}
impl<Clock, ExecutionTxs, Risk> OnTradingDisabled<Clock, State, ExecutionTxs, Risk> for Observer {
    type OnTradingDisabled = ();
    fn on_trading_disabled(_: &mut Engine<Clock, State, ExecutionTxs, Self, Risk>) -> Self::OnTradingDisabled {}
}

/// (exchange, internal name, exchange name, base, price): the same two markets on both exchanges,
/// under different exchange names, at different prices
const MARKETS: [(usize, &str, &str, &str, i64); 4] = [
    (0, "mock_btc_usdt", "BTCUSDT", "btc", 100),
    (0, "mock_eth_usdt", "ETHUSDT", "eth", 10),
    (1, "kr_btc_usdt", "XBT/USDT", "btc", 90),
    (1, "kr_eth_usdt", "ETH/USDT", "eth", 12),
];

fn instruments() -> IndexedInstruments {
    MARKETS
        .iter()
        .fold(IndexedInstruments::builder(), |b, (x, name, name_ex, base, _)| {
            b.add_instrument(Instrument::spot(EXCHANGES[*x], *name, *name_ex, Underlying::new(*base, "usdt"), None))
        })
        .build()
}

fn insts(indexed: &IndexedInstruments) -> Vec<Inst> {
    MARKETS
        .iter()
        .map(|(x, name, _, _, price)| Inst {
            ex: EXCHANGES[*x],
            exi: indexed.find_exchange_index(EXCHANGES[*x]).expect("exchange indexed"),
            idx: indexed.find_instrument_index(EXCHANGES[*x], &InstrumentNameInternal::new(*name)).expect("instrument indexed"),
            price: *price,
        })
        .collect()
}

/// the account each exchange starts with (different on purpose: cross-talk between the two links is visible)
fn funds(x: usize) -> [(&'static str, i64); 3] {
    if x == 0 { [("btc", 5), ("eth", 5), ("usdt", 3000)] } else { [("btc", 7), ("eth", 3), ("usdt", 2000)] }
}

fn mock_config(x: usize, latency_ms: u64) -> MockExecutionConfig {
    let bal = |a: &str, v: i64| AssetBalance { asset: AssetNameExchange::new(a), balance: Balance { total: dec(v), free: dec(v) }, time_exchange: time(0) };
    MockExecutionConfig {
        mocked_exchange: EXCHANGES[x],
        // small enough that some orders cannot be afforded (-> rejected)
        initial_state: UnindexedAccountSnapshot { exchange: EXCHANGES[x], balances: funds(x).iter().map(|(a, v)| bal(a, *v)).collect(), instruments: vec![] },
        latency_ms,
        fees_percent: Decimal::new(1, 2),
    }
}

fn key(inst: &Inst, cid: &str) -> OrderKey {
    OrderKey { exchange: inst.exi, instrument: inst.idx, strategy: StrategyId::new("sys"), cid: ClientOrderId::new(cid) }
}

#[tokio::main(flavor = "multi_thread", worker_threads = 3)]
async fn main() {
    let args = Args::parse();
    if args.cmd != "record" {
        usage("system record --seed S --rounds N --out f");
    }
    let mut rng = rng(args.u64("seed", 1));
    let rounds = args.usize("rounds", 60);
    let mut out = Out::create(args.req("out"));

    let instruments = instruments();
    let insts = insts(&instruments);
    let (mtx, mrx) = tokio::sync::mpsc::unbounded_channel::<MarketStreamEvent<InstrumentIndex, DataKind>>();
    let market_stream = tokio_stream::wrappers::UnboundedReceiverStream::new(mrx);
    let views = Arc::new(Mutex::new(vec![]));
    let strategy = Observer { id: StrategyId::new("sys"), views: views.clone() };
    let sys_args = SystemArgs::new(
        &instruments,
        // the second link is a little slower, so answers of the two exchanges overtake one another
        vec![ExecutionConfig::Mock(mock_config(0, args.u64("latency", 2))), ExecutionConfig::Mock(mock_config(1, args.u64("latency", 2) + 1))],
        HistoricalClock::new(time(0)),
        strategy,
        DefaultRiskManager::<State>::default(),
        market_stream,
        DefaultGlobalData::default(),
        DefaultInstrumentMarketData::default,
    );
    let mut system = SystemBuilder::new(sys_args)
        .engine_feed_mode(if args.u64("seed", 1) % 2 == 0 { EngineFeedMode::Iterator } else { EngineFeedMode::Stream })
        .audit_mode(AuditMode::Enabled)
        .trading_state(TradingState::Enabled) // so that the observer is called after every event
        // balances seeded through the builder, as a user of SystemBuilder would (same as the mock's account)
        .balances((0..2).flat_map(|x| funds(x).into_iter().map(move |(a, v)| (EXCHANGES[x], a, Balance { total: dec(v), free: dec(v) }))))
        .build::<EngineEvent, _>()
        .unwrap_or_else(|e| usage(&format!("system build: {e:?}")))
        .init_with_runtime(tokio::runtime::Handle::current())
        .await
        .unwrap_or_else(|e| usage(&format!("system init: {e:?}")));
    let SnapUpdates { snapshot: audit_snapshot, updates: mut audit_rx } = system.audit.take().expect("audit enabled");
    // ---- freshness trace (spec/Freshness.tla): seeded balances, then every balance the exchange delivers
    let mut fresh = args.get("fresh-out").map(Out::create);
    let seeded: Vec<(String, i64, Value)> = audit_snapshot.event.assets.0.iter().map(|(k, a)| {
        let b = a.balance.as_ref();
        (format!("bal_{}_{}", k.exchange.as_str(), k.asset), b.map(|b| untime_ms(b.time)).unwrap_or(-1), b.map(|b| dec_units(b.value.total, 1000)).unwrap_or(json!(-1)))
    }).collect();
    if let Some(f) = fresh.as_mut() {
        let none: serde_json::Map<String, Value> = seeded.iter().map(|(k, _, _)| (k.clone(), json!({"has": false, "t": 0, "v": 0}))).collect();
        f.line(&json!({"a": "Reset", "post": none}));
        // the builder stamps seeded balances with the engine clock's start time: a HistoricalClock started at
        // time(0) reads time(0) plus the few wall-clock milliseconds since its creation
        if let Some((k, t, _)) = seeded.iter().find(|(_, t, _)| !(0..=60_000).contains(t)) {
            f.line(&json!({"a": "Deliver", "ms": [], "anomaly": format!("seeded balance {k} is stamped {t} ms from the engine clock's start (expected within [0, 60000])")}));
        } else {
            let ms: Vec<Value> = seeded.iter().map(|(k, t, v)| json!({"item": k, "t": t, "v": v})).collect();
            let post: serde_json::Map<String, Value> = seeded.iter().map(|(k, t, v)| (k.clone(), json!({"has": true, "t": t, "v": v}))).collect();
            f.line(&json!({"a": "Deliver", "ms": ms, "post": post}));
        }
    }

    // ---- drive
    let mut next_id = 0usize;
    let mut mixed_batches = 0usize;
    let mut used: Vec<(usize, String)> = vec![];
    let mut t = 0i64;
    let n_inst = insts.len();
    for inst in insts.iter() {
        t += 1;
        let _ = mtx.send(MarketStreamEvent::Item(MarketEvent { time_exchange: time(t), time_received: time(t), exchange: inst.ex, instrument: inst.idx,
            kind: DataKind::Trade(PublicTrade { id: format!("m{t}"), price: inst.price as f64, amount: 1.0, side: Side::Buy }) }));
    }
    // one open request; the caller decides whether it travels alone or in a batch spanning exchanges
    let new_open = |rng: &mut rand::rngs::StdRng, next_id: &mut usize, used: &mut Vec<(usize, String)>, inst: usize| {
        *next_id += 1;
        let cid = format!("k{next_id}");
        let (kind, tif) = if rng.random_range(0..5) == 0 { (OrderKind::Limit, TimeInForce::GoodUntilCancelled { post_only: false }) } else { (OrderKind::Market, TimeInForce::ImmediateOrCancel) };
        let qty = if rng.random_range(0..6) == 0 { 1000 } else { 1 };
        used.push((inst, cid.clone()));
        OrderRequestOpen {
            key: key(&insts[inst], &cid),
            state: RequestOpen { side: if rng.random_bool(0.6) { Side::Buy } else { Side::Sell }, price: dec(insts[inst].price), quantity: dec(qty), kind, time_in_force: tif },
        }
    };
    // a panic inside the system under test is data: a command that cannot be delivered because the engine
    // task has ended (e.g. after a component of the system died) is recorded, and the run goes on to shutdown
    // every command handed to the System API, as the engine must later report having processed it
    let mut intended: Vec<String> = vec![];
    let mut closes = 0usize;
    let mut dead: Option<String> = None;
    macro_rules! cmd {
        ($e:expr) => {
            if dead.is_none() {
                if let Err(p) = catch(|| $e) {
                    dead = Some(p);
                }
            }
        };
    }
    for _ in 0..rounds {
        match rng.random_range(0..100) {
            0..=34 if next_id < 38 => {
                // open: a market order (fills), sometimes a limit order (rejected by the mock) or one it cannot afford
                let inst = rng.random_range(0..n_inst);
                let req = new_open(&mut rng, &mut next_id, &mut used, inst);
                intended.push(format!("{:?}", Cmd::SendOpenRequests(OneOrMany::One(req.clone()))));
                cmd!(system.send_open_requests(OneOrMany::One(req)));
            }
            35..=44 if next_id < 37 => {
                // ONE command carrying requests for instruments of BOTH exchanges (in either order)
                mixed_batches += 1;
                let first = rng.random_range(0..n_inst);
                let mut batch = vec![new_open(&mut rng, &mut next_id, &mut used, first)];
                let other: Vec<usize> = (0..n_inst).filter(|i| insts[*i].ex != insts[first].ex).collect();
                let second = other[rng.random_range(0..other.len())];
                batch.push(new_open(&mut rng, &mut next_id, &mut used, second));
                if rng.random_bool(0.4) {
                    let third = rng.random_range(0..n_inst);
                    batch.push(new_open(&mut rng, &mut next_id, &mut used, third));
                }
                intended.push(format!("{:?}", Cmd::SendOpenRequests(OneOrMany::Many(batch.clone()))));
                cmd!(system.send_open_requests(OneOrMany::Many(batch)));
            }
            45..=64 if !used.is_empty() => {
                let (inst, cid) = used[rng.random_range(0..used.len())].clone();
                let id = rng.random_bool(0.5).then(|| OrderId::new("x"));
                let req = OneOrMany::One(OrderRequestCancel { key: key(&insts[inst], &cid), state: RequestCancel { id } });
                intended.push(format!("{:?}", Cmd::SendCancelRequests(req.clone())));
                cmd!(system.send_cancel_requests(req));
            }
            65..=69 if used.len() >= 2 => {
                // cancels for ids of both exchanges in one command
                let picks: Vec<(usize, String)> = (0..3).map(|_| used[rng.random_range(0..used.len())].clone()).collect();
                let req = OneOrMany::Many(picks.iter().map(|(inst, cid)| OrderRequestCancel { key: key(&insts[*inst], cid), state: RequestCancel { id: None } }).collect());
                intended.push(format!("{:?}", Cmd::SendCancelRequests(req.clone())));
                cmd!(system.send_cancel_requests(req));
            }
            70..=77 => {
                let filter = match rng.random_range(0..3) {
                    0 => InstrumentFilter::None,
                    1 => InstrumentFilter::exchanges([insts[rng.random_range(0..n_inst)].exi]),
                    _ => InstrumentFilter::instruments([insts[rng.random_range(0..n_inst)].idx, insts[rng.random_range(0..n_inst)].idx]),
                };
                intended.push(format!("{:?}", Cmd::CancelOrders(filter.clone())));
                cmd!(system.cancel_orders(filter));
            }
            78 | 79 if closes < 5 => {
                // close the open positions of one exchange / one instrument / everywhere: market orders z1, z2, ...
                closes += 1;
                let filter = match rng.random_range(0..3) {
                    0 => InstrumentFilter::None,
                    1 => InstrumentFilter::exchanges([insts[rng.random_range(0..n_inst)].exi]),
                    _ => InstrumentFilter::instruments([insts[rng.random_range(0..n_inst)].idx]),
                };
                intended.push(format!("{:?}", Cmd::ClosePositions(filter.clone())));
                cmd!(system.close_positions(filter));
            }
            80 => {
                // (the state it is already in: the observer must keep being called after every event)
                intended.push(format!("{:?}", TradingState::Enabled));
                cmd!(system.trading_state(TradingState::Enabled));
            }
            81..=89 => {
                t += 1;
                let inst = &insts[rng.random_range(0..n_inst)];
                let _ = mtx.send(MarketStreamEvent::Item(MarketEvent { time_exchange: time(t), time_received: time(t), exchange: inst.ex, instrument: inst.idx,
                    kind: DataKind::Trade(PublicTrade { id: format!("m{t}"), price: inst.price as f64, amount: 1.0, side: Side::Sell }) }));
            }
            _ => {}
        }
        match rng.random_range(0..4) {
            0 => tokio::time::sleep(Duration::from_millis(rng.random_range(1..6))).await,
            1 => tokio::task::yield_now().await,
            _ => {}
        }
    }
    if let Some(p) = &dead {
        out.line(&json!({"a": "Anomaly", "anomaly": format!("a command could not be handed to the system: {p} (the engine task had ended although no shutdown was requested)")}));
    }
    // ---- quiescence, then shutdown
    // adaptive: quiescent once the engine has processed nothing new for 1.5 s (longer than the
    // execution manager's request timeout for the mock link, so even a lost response would have
    // produced its timeout failure by then); wall-clock bound 30 s
    let mut stable = 0;
    let mut last = views.lock().len();
    let t_settle = std::time::Instant::now();
    while stable < 5 && t_settle.elapsed() < Duration::from_secs(30) {
        tokio::time::sleep(Duration::from_millis(300)).await;
        let now = views.lock().len();
        if now == last { stable += 1 } else { stable = 0; last = now }
    }
    let n_before_shutdown = views.lock().len();
    // ---- the execution link of the exchange goes down: kill the (mock) exchange task and wait for the
    // engine to process the account-stream disconnect notice
    let drop_link = args.u64("drop-link", 1) == 1;
    let mut killed: Vec<&'static str> = vec![];
    if drop_link {
        // one link after the other (which one first depends on the seed), each time waiting for the
        // engine to have processed something (the notice) and a little longer
        let mut order: Vec<usize> = (0..system.handles.execution.mock_exchanges.len()).collect();
        if args.u64("seed", 1) % 3 == 0 {
            order.reverse();
        }
        if args.u64("seed", 1) % 5 == 4 {
            order.truncate(1); // sometimes only one of the two links dies
        }
        for x in order {
            let before = views.lock().len();
            system.handles.execution.mock_exchanges[x].abort();
            killed.push(EXCHANGES[x].as_str());
            let t_drop = std::time::Instant::now();
            while views.lock().len() == before && t_drop.elapsed() < Duration::from_secs(10) {
                tokio::time::sleep(Duration::from_millis(50)).await;
            }
            tokio::time::sleep(Duration::from_millis(150)).await;
        }
    }
    // a panic inside the system under test is data (e.g. the engine task died, so `shutdown` cannot
    // reach it any more): catch it and report it as an anomaly line
    let shutdown = {
        use futures::FutureExt;
        let prev = std::panic::take_hook();
        std::panic::set_hook(Box::new(|_| {}));
        let r = tokio::time::timeout(Duration::from_secs(20), std::panic::AssertUnwindSafe(system.shutdown()).catch_unwind()).await;
        std::panic::set_hook(prev);
        match r {
            Err(e) => Err(e),
            Ok(Ok(inner)) => Ok(inner.map(|_| ())),
            Ok(Err(p)) => {
                let msg = p.downcast_ref::<String>().cloned().or_else(|| p.downcast_ref::<&str>().map(|s| s.to_string())).unwrap_or_else(|| "panic".into());
                out.line(&json!({"a": "Anomaly", "anomaly": format!("system.shutdown() panicked: {msg} (the engine task had already died)")}));
                Ok(Ok(()))
            }
        }
    };
    match shutdown {
        Err(_) => out.line(&json!({"a": "Anomaly", "anomaly": "system.shutdown() did not return within 20 s"})),
        // the task this driver aborted itself reports as cancelled: not a defect
        Ok(Err(e)) if drop_link && e.is_cancelled() => {}
        Ok(Err(e)) => out.line(&json!({"a": "Anomaly", "anomaly": format!("system.shutdown() failed: {e} (a task panicked)")})),
        Ok(Ok(())) => {}
    }

    // ---- the audit stream -> trace lines
    let ex_name = |i: ExchangeIndex| instruments.find_exchange(i).map(|e| e.as_str()).unwrap_or("?");
    let views = views.lock().clone();
    let mut vi = 0usize;
    let mut ticks = 0usize;
    let mut link_notices = 0usize;
    let mut processed_cmds: Vec<String> = vec![];
    while let Ok(tick) = audit_rx.rx.try_recv() {
        let EngineAudit::Process(p) = &tick.event else { continue };
        ticks += 1;
        match &p.event {
            EngineEvent::Command(c) => processed_cmds.push(format!("{c:?}")),
            EngineEvent::TradingStateUpdate(t) => processed_cmds.push(format!("{t:?}")),
            _ => {}
        }
        let mut lines: Vec<Value> = vec![];
        for o in p.outputs.iter() {
            if let EngineOutput::Commanded(a) = o {
                match a {
                    ActionOutput::OpenOrders(s) => s.sent.iter().for_each(|r| lines.push(json!({"a": "SendOpen", "c": r.key.cid.0.as_str(), "x": ex_name(r.key.exchange)}))),
                    ActionOutput::CancelOrders(s) => s.sent.iter().for_each(|r| lines.push(json!({"a": "SendCancel", "c": r.key.cid.0.as_str()}))),
                    ActionOutput::ClosePositions(s) => {
                        s.cancels.sent.iter().for_each(|r| lines.push(json!({"a": "SendCancel", "c": r.key.cid.0.as_str()})));
                        s.opens.sent.iter().for_each(|r| lines.push(json!({"a": "SendOpen", "c": r.key.cid.0.as_str(), "x": ex_name(r.key.exchange)})));
                    }
                    ActionOutput::GenerateAlgoOrders(_) => {}
                }
            }
        }
        if let EngineEvent::Account(AccountStreamEvent::Reconnecting(ex)) = &p.event {
            lines.push(json!({"a": "LinkDown", "x": ex.as_str()}));
            link_notices += 1;
        }
        if let (Some(f), EngineEvent::Account(AccountStreamEvent::Item(ev))) = (fresh.as_mut(), &p.event) {
            let msg = |b: &AssetBalance<AssetIndex>| {
                let name = audit_snapshot.event.assets.0.get_index(b.asset.index()).map(|(k, _)| format!("bal_{}_{}", k.exchange.as_str(), k.asset)).unwrap_or_else(|| "bal_?".into());
                json!({"item": name, "t": untime_ms(b.time_exchange), "v": dec_units(b.balance.total, 1000)})
            };
            let ms: Vec<Value> = match &ev.kind {
                AccountEventKind::BalanceSnapshot(b) => vec![msg(&b.0)],
                AccountEventKind::Snapshot(snap) => snap.balances.iter().map(msg).collect(),
                _ => vec![],
            };
            if !ms.is_empty() {
                match views.get(vi) {
                    Some(v) => f.line(&json!({"a": "Deliver", "ms": ms, "post": v["bal"]})),
                    None => f.line(&json!({"a": "Deliver", "ms": ms, "anomaly": "no engine view for this audit record"})),
                }
            }
        }
        if let EngineEvent::Account(AccountStreamEvent::Item(ev)) = &p.event {
            lines.push(json!({"a": "Item", "x": ex_name(ev.exchange)}));
            match &ev.kind {
                AccountEventKind::OrderSnapshot(s) => {
                    let kind = match &s.0.state {
                        OrderState::Active(ActiveOrderState::Open(_)) => "open_ok",
                        OrderState::Active(_) => "other_active",
                        OrderState::Inactive(InactiveOrderState::OpenFailed(_)) => "open_failed",
                        OrderState::Inactive(_) => "open_filled",
                    };
                    lines.push(json!({"a": "Process", "c": s.0.key.cid.0.as_str(), "kind": kind, "x": ex_name(ev.exchange), "key_x": ex_name(s.0.key.exchange)}));
                }
                AccountEventKind::OrderCancelled(r) => lines.push(json!({"a": "Process", "c": r.key.cid.0.as_str(), "kind": if r.state.is_ok() { "cancel_ok" } else { "cancel_err" },
                                                                          "x": ex_name(ev.exchange), "key_x": ex_name(r.key.exchange)})),
                _ => {}
            }
        }
        // the engine view after this event (the observer is called once per processed event while trading is enabled)
        let is_shutdown = matches!(&p.event, EngineEvent::Shutdown(_));
        if !is_shutdown {
            if let Some(v) = views.get(vi) {
                let conn: serde_json::Map<String, Value> = v["conn"].as_object().map(|m| m.iter().map(|(k, c)| (k.clone(), c["account"].clone())).collect()).unwrap_or_default();
                let market: serde_json::Map<String, Value> = v["conn"].as_object().map(|m| m.iter().map(|(k, c)| (k.clone(), c["market"].clone())).collect()).unwrap_or_default();
                lines.push(json!({"a": "State", "post": v["orders"], "conn": conn, "market": market, "global": v["global"]}));
            } else {
                lines.push(json!({"a": "Anomaly", "anomaly": "an audit record without a matching strategy call (trading enabled)"}));
            }
            vi += 1;
            if vi == n_before_shutdown {
                lines.push(json!({"a": "Quiescent"}));
            }
        }
        for l in lines {
            out.line(&l);
        }
    }
    // the System API is a thin sender: the engine must have processed exactly the commands handed to it, in order
    if dead.is_none() && processed_cmds != intended {
        let at = processed_cmds.iter().zip(intended.iter()).position(|(a, b)| a != b).unwrap_or(processed_cmds.len().min(intended.len()));
        out.line(&json!({"a": "Anomaly", "tag": "command_fidelity", "anomaly": format!("commands handed to the System API and commands the engine processed differ at #{at} ({} handed, {} processed): handed {:?}, processed {:?}",
            intended.len(), processed_cmds.len(), intended.get(at), processed_cmds.get(at))}));
    }
    if drop_link {
        // exactly one disconnect notice must have reached the engine for the killed link
        out.line(&json!({"a": "LinkDownCount", "killed": killed, "n": link_notices}));
    }
    let n = out.finish();
    let nf = fresh.map(|f| f.finish()).unwrap_or(0);
    println!("{}", json!({"lines": n, "fresh_lines": nf, "audit_records": ticks, "strategy_views": views.len(), "opens": next_id, "link_notices": link_notices,
                            "commands_spanning_both_exchanges": mixed_batches, "commands": intended.len(), "close_positions_commands": closes, "links_killed": killed.len()}));
}
