SPECIFICATION GSpecR
CONSTANTS
  Universe <- U9
  MaxLen = 9
INVARIANTS Dense Unique Inverse Resolve OrderFree Sorted Aligned RoundTrip OnlyOwn Emit
CHECK_DEADLOCK FALSE
