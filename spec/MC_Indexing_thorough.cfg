SPECIFICATION Spec
CONSTANTS
  Universe <- U9
  MaxLen = 3
INVARIANTS Dense Unique Inverse Resolve OrderFree Sorted Aligned RoundTrip OnlyOwn Outbound Inbound
CHECK_DEADLOCK FALSE
