--------------------------- MODULE Trace_Backtest ---------------------------
(* Trace validation (impl -> spec) for C20: the per-run observation log of a  *)
(* real `backtest()` must be a behaviour of Backtest.                         *)
(*                                                                            *)
(* One file holds many runs, one after the other; every line has the fields   *)
(*   a     "Reset" | "Market" | "Disc" | "Account" | "End" | "Fail" (the      *)
(*         backtest returned the error of its failed data source; Reset.fail  *)
(*         = [k]: the source was made to fail after k items)                  *)
(*   id    dataset index carried by the market event the engine processed     *)
(*   tag   data-source tag carried by the event (which stream it came from)   *)
(*   kind  account event kind ("snapshot" | "order" | "balance" | "trade")    *)
(*   k     the order (= dataset index it was opened on) the account event is  *)
(*         about, 0 for the snapshot (order responses carry the client order  *)
(*         id, trades the exchange's order number; a balance snapshot does    *)
(*         not say which order caused it: the j-th one is labelled with the   *)
(*         j-th order, i.e. "no more balance snapshots than orders sent")     *)
(*   sent  orders recorded in flight in the engine state BEFORE this event    *)
(*   nc,na number of dataset items / account events the engine state has seen *)
(*         AFTER this event                                                   *)
(*   tsk   (trade / balance) the dataset item at whose exchange time the      *)
(*         event's timestamp lies (within the slack; 0: at none) ; ck: the    *)
(*         scenario makes that timestamp schedule-independent (gated source / *)
(*         paused clock over datasets spaced an hour apart), so it is judged  *)
(*   n, recs, acts   (Reset) the run's parameters ; sumok (End) the returned  *)
(*         summary equals the summary of the run's own final engine state     *)
(*                                                                            *)
(* Only the engine's steps are observable (the strategy object is handed the  *)
(* engine state after every processed event).  The feed, the forwarder cursor *)
(* and the exchange's pending set are hidden: the trace step composes the     *)
(* silent task step that must have happened (Forward / ExchangeRespond /      *)
(* SendShutdown, each as late as possible) with the spec's own engine step -  *)
(* DoStep(DoForward(r)) etc.  Pushing every feed item just before it is       *)
(* popped is complete: the feed is FIFO, pushes are enabled from the moment   *)
(* their cause exists until the engine stops, so a behaviour of Backtest with *)
(* the observed sequence of engine steps exists iff the lazy one does.        *)
(* A line that is not such a step is recorded in `bad` with the failed        *)
(* clauses; the state is re-synchronised and validation continues.            *)
EXTENDS Backtest, Json, IOUtils

Rec == ndJsonDeserialize(IOEnv.TRACE)

VARIABLES l, bad, cur
tvars == <<run, l, bad, cur>>

TraceParams == (1 :> [n |-> 0, recs |-> {}, acts |-> {}, fatalAt |-> {}, srcFailAt |-> {}])

SetOf(s) == {s[j] : j \in 1..Len(s)}
POf(e)   == [n |-> e.n, recs |-> SetOf(e.recs), acts |-> SetOf(e.acts), fatalAt |-> {},
             srcFailAt |-> SetOf(e.fail)]
R        == run[1]
Put(r)   == run' = (1 :> r)

TInit == /\ l = 1
         /\ bad = <<>>
         /\ cur = 0
         /\ run = (1 :> InitRun(TraceParams[1]))

\* ---- the lazy hidden step followed by the spec's engine step ----------------------------
\* PostOf: the state after the line if it is a step of Backtest (the hidden push, then DoStep);
\* Fails: the set of failed clauses, empty iff the line is such a step and `post` satisfies the
\* invariants of Backtest.  (`post` is bound once per line - see TStep.)
Fwd(r) == IF CanForward(r) THEN DoForward(r) ELSE r
MarketCan(r)  == r.feed = <<>> /\ CanForward(r)
AcctCan(r, x) == r.feed = <<>> /\ CanRespond(r, x)
EndCan(r)     == r.feed = <<>> /\ CanSendShutdown(r)
FailCan(r)    == r.feed = <<>> /\ CanSourceFail(r)

PostOf(r, e) ==
    CASE e.a \in {"Market", "Disc"} -> IF MarketCan(r) THEN DoStep(DoForward(r)) ELSE r
      [] e.a = "Account" -> IF AcctCan(r, Acct(e.k, e.kind)) THEN DoStep(DoRespond(r, Acct(e.k, e.kind))) ELSE r
      [] e.a = "End"     -> IF EndCan(r) THEN DoEngineShutdown(DoStep(DoSendShutdown(r))) ELSE r
      [] e.a = "Fail"    -> IF FailCan(r) THEN DoSourceFail(r) ELSE r

\* The invariants of Backtest are evaluated on the implementation's states at every line that is
\* not a plain market step and at every 100th line (they cost O(dataset) each; a market step is
\* rejected by its own clauses - wrong id, wrong kind, counts, in-flight orders, stream).
InvDue == Rec[l].a # "Market" \/ l % 100 = 0

Counts(post, e) == IF e.nc # Len(post.consumed) \/ e.na # Len(post.applied) THEN {"state-count"} ELSE {}
InvFails(post)  == IF InvDue => Inv1(post) THEN {} ELSE {"invariant"}

MarketFails(r, post, e) ==
       (IF MarketCan(r) THEN {} ELSE {"nothing-left-to-forward"})
  \cup (IF MarketCan(r)
        THEN (IF e.a = "Market" /\ DataItem(r.p, r.cursor + 1).t = "m" /\ e.id # r.cursor + 1
              THEN {IF e.id <= r.cursor THEN "repeated-item" ELSE "skipped-item"} ELSE {})
          \cup (IF (e.a = "Market") # (DataItem(r.p, r.cursor + 1).t = "m") THEN {"wrong-item-kind"} ELSE {})
          \cup Counts(post, e) \cup InvFails(post)
        ELSE {})
  \cup (IF e.sent = r.sent THEN {} ELSE {"orders-in-flight"})
  \cup (IF e.tag = cur THEN {} ELSE {"foreign-stream"})

\* the timestamp of a fill / balance snapshot is the reading of THIS run's clock when the order
\* was sent (e.tsk: the dataset item whose exchange time the stamp lies at, within the slack)
ClockFails(r, e) ==
    IF e.ck /\ e.kind \in {"trade", "balance"}
       /\ ~(\E j \in 1..Len(r.sent) : r.sent[j] = e.k /\ r.stamps[j] = e.tsk)
    THEN {"foreign-clock"} ELSE {}

AcctFails(r, post, e) ==
       (IF AcctCan(r, Acct(e.k, e.kind)) THEN Counts(post, e) \cup InvFails(post) ELSE {"unexpected-account-event"})
  \cup (IF e.sent = r.sent THEN {} ELSE {"orders-in-flight"})
  \cup ClockFails(r, e)

EndFails(r, post, e) ==
       (IF EndCan(r) THEN Counts(post, e) \cup InvFails(post) ELSE {"shutdown-before-dataset-consumed"})
  \cup (IF IsPrefix(e.sent, r.sent) /\ Len(r.sent) <= Len(e.sent) + 1 THEN {} ELSE {"orders-in-flight"})
  \cup (IF e.sumok THEN {} ELSE {"summary-not-from-own-engine"})

\* the backtest returned the forwarder's error (no summary): the run's data source must have been
\* made to fail, and exactly after the items the engine has seen
FailFails(r, post, e) ==
    IF FailCan(r) THEN Counts(post, e) \cup InvFails(post) ELSE {"error-not-at-the-source-failure"}

Fails(r, post, e) == CASE e.a \in {"Market", "Disc"} -> MarketFails(r, post, e)
                       [] e.a = "Account"            -> AcctFails(r, post, e)
                       [] e.a = "End"                -> EndFails(r, post, e)
                       [] e.a = "Fail"               -> FailFails(r, post, e)

\* ---- re-synchronisation after a rejected line ---------------------------------------------
Resync(r, e) ==
    CASE e.a \in {"Market", "Disc"} ->
            IF e.a = "Market" /\ e.id > r.cursor /\ e.id <= r.p.n /\ r.phase = "run"
            THEN DoStep(DoForward([r EXCEPT !.cursor = e.id - 1, !.feed = <<>>,
                                            !.consumed = SubSeq(Dataset(r.p), 1, e.id - 1)]))
            ELSE IF e.a = "Disc" /\ MarketCan(r) THEN DoStep(DoForward(r))
            ELSE r
      [] e.a = "Account" -> [r EXCEPT !.applied = Append(@, Acct(e.k, e.kind)),
                                      !.exch = @ \ {Acct(e.k, e.kind)}]
      [] e.a = "End"     -> [r EXCEPT !.phase = "done", !.feed = <<>>]
      [] e.a = "Fail"    -> [r EXCEPT !.phase = "failed", !.feed = <<>>]

TReset == /\ Rec[l].a = "Reset"
          /\ Put(InitRun(POf(Rec[l])))
          /\ cur' = Rec[l].tag
          /\ UNCHANGED bad

\* one line = one step; post and the failed clauses are bound once (singleton sets)
TStep == /\ Rec[l].a # "Reset"
         /\ \E post \in {PostOf(R, Rec[l])} :
            \E f \in {Fails(R, post, Rec[l])} :
               IF f = {}
               THEN Put(post) /\ UNCHANGED <<bad, cur>>
               ELSE /\ Put(Resync(R, Rec[l]))
                    /\ bad' = Append(bad, <<l, f>>)
                    /\ UNCHANGED cur

TNext == /\ l <= Len(Rec)
         /\ l' = l + 1
         /\ (TReset \/ TStep)

TSpec == TInit /\ [][TNext]_tvars

\* the action properties of Backtest, re-checked on every accepted implementation step
TProps == [][(Rec[l].a # "Reset" /\ bad' = bad) =>
               /\ Mono1(run[1], run'[1])
               /\ run'[1].p = run[1].p]_tvars

\* one state per line: the line number identifies the state (keeps fingerprinting O(1))
TView == <<l, Len(bad)>>

Done == l = Len(Rec) + 1 => PrintT(<<"TRACE_END", ToJson(bad)>>)
Post == PrintT(<<"TRACE_DONE", TLCGet("stats").diameter, Len(Rec)>>)
=============================================================================
