SPECIFICATION GSpecP
CONSTANTS
  Times = {1}
  Prices = {2}
  Qtys = {1, 3}
  NegQtys = {}
  BalInit = {300, 600, 900}
  FeePcts = {50}
  Lats = {2}
  Sinces = {0, 3}
  OpenCids = {"o1", "o3"}
  MaxTrades = 3
  ClockSlack = FALSE
  IdSlack = 0
  OrderSubsets = FALSE
  MaxLen = 3
INVARIANT Emit
CHECK_DEADLOCK FALSE
