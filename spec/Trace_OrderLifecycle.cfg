SPECIFICATION TSpec
CONSTANTS
  CID = {"c1", "c2", "c3"}
  QTY = {1, 2, 3}
  SV = {1, 2}
  TIME = {0}
  OID = {1}
INVARIANT Done
PROPERTIES TProps
POSTCONDITION Post
CHECK_DEADLOCK FALSE
