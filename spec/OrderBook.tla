------------------------------ MODULE OrderBook ------------------------------
(***************************************************************************)
(* The local L2 order book of barter-data (C05; its update function is     *)
(* re-used by BinanceL2 for C06).                                          *)
(*                                                                         *)
(* Code transcribed: barter-data/src/books/mod.rs                          *)
(*   OrderBook::update(OrderBookEvent::Snapshot(b))   -> Snapshot          *)
(*   OrderBook::update(OrderBookEvent::Update(b))     -> Update            *)
(*   OrderBook::new -> OrderBookSide::{bids,asks}: the event's level list  *)
(*        is SORTED by price (bids descending, asks ascending) with        *)
(*        sort_unstable_by before it is applied                            *)
(*   OrderBookSide::upsert -> upsert_single: the sorted list is folded     *)
(*        left to right; amount 0 removes the level (absent: no-op), any   *)
(*        other amount replaces / inserts it                               *)
(*   bids()/asks().levels(), mid_price(), volume_weighed_mid_price(),      *)
(*   snapshot(depth), sequence                 -> Levels, Mid, VWMid, Depth*)
(*   barter-data/src/books/manager.rs OrderBookL2Manager::run applies      *)
(*        every streamed event of an instrument to that instrument's book  *)
(*                                                                         *)
(* The reference is the one the property names: a side of the book is a    *)
(* function from a finite set of prices to positive amounts.               *)
(*                                                                         *)
(* Several entries with the SAME price inside one level list: the book is  *)
(* the price -> amount map of the list folded left to right, so the LAST   *)
(* entry of a price wins (set-then-delete deletes, delete-then-set sets).  *)
(* The code sorts the list by price before folding it; the sort must       *)
(* therefore keep equal prices in list order (StableArrangement).          *)
(* Deliberately nondeterministic (DESIGN 5.4) - and nothing else:          *)
(*   * lists LONGER than StableUpTo entries (cfg: 20): the code sorts with *)
(*     sort_unstable_by, which is an insertion sort - order preserving -   *)
(*     only up to 20 elements; beyond that the relative order in which     *)
(*     equal prices are applied is not fixed, and Update may use any       *)
(*     price-sorted permutation of the list (AllArrangements).             *)
(* Environment assumption: snapshots carry distinct prices and positive    *)
(* amounts (OrderBook::new neither de-duplicates nor filters) - CleanList. *)
(* Not modelled: time_engine (the property does not mention it).           *)
(***************************************************************************)
EXTENDS Integers, Sequences, FiniteSets, TLC, Rational

CONSTANTS PRICE,     \* finite set of positive integers
          AMOUNT,    \* finite set of naturals containing 0 (0 = delete)
          SEQS,      \* sequence numbers events may carry
          MaxLong,   \* MC only: longest level list of the "heavy" side of an update
          MaxShort,  \* MC only: longest level list of the other side
          MaxSnap,   \* MC only: longest level list per side of a snapshot
          StableUpTo \* longest level list whose equal prices are applied in list order (the code: 20)

VARIABLES bids,      \* price -> amount (finite partial function on PRICE, amounts > 0)
          asks,      \* price -> amount
          seq,       \* sequence of the last applied event
          last       \* the event that produced this state (observation only)

vars == <<bids, asks, seq, last>>

(***************************************************************************)
(* Values: levels, level lists, maps, books                                *)
(***************************************************************************)
Lv(p, a)  == [p |-> p, a |-> a]
LEVEL     == [p : PRICE, a : AMOUNT]
Lists(n)  == UNION {[1..k -> LEVEL] : k \in 0..n}

EmptyMap  == << >>                                   \* the function with empty domain
PricesOf(list) == {list[j].p : j \in DOMAIN list}
Without(m, p) == [q \in DOMAIN m \ {p} |-> m[q]]

\* snapshots: distinct prices, positive amounts (environment assumption)
CleanList(list) == /\ \A j, k \in DOMAIN list : j # k => list[j].p # list[k].p
                   /\ \A j \in DOMAIN list : list[j].a > 0
CleanLists(n) == {l \in Lists(n) : CleanList(l)}

MapOfList(list) == [p \in PricesOf(list) |-> list[CHOOSE j \in DOMAIN list : list[j].p = p].a]

\* upsert_single: (exists, 0) remove | (exists, a) replace | (absent, 0) nothing | (absent, a) insert
ApplyLevel(m, lv) ==
  IF lv.a = 0
  THEN Without(m, lv.p)
  ELSE [q \in DOMAIN m \cup {lv.p} |-> IF q = lv.p THEN lv.a ELSE m[q]]

\* OrderBookSide::upsert: for_each over the list, left to right
RECURSIVE Fold(_, _)
Fold(m, list) == IF list = << >> THEN m ELSE Fold(ApplyLevel(m, Head(list)), Tail(list))

\* OrderBookSide::{bids,asks}: sort_unstable_by price (bids reversed) - any permutation of the
\* list that is ordered by price; entries of equal price in any relative order
InSideOrder(q, side) ==
  \A j \in 1..(Len(q) - 1) : IF side = "bids" THEN q[j].p >= q[j + 1].p ELSE q[j].p <= q[j + 1].p

\* all of them, built front to back: the next element is ANY remaining entry that carries the best
\* remaining price  ( = {q \in permutations of list : InSideOrder(q, side)}, checked by ArrangementsOK )
RECURSIVE Arrange(_, _, _)
Arrange(list, I, side) ==
  IF I = {} THEN {<< >>}
  ELSE LET ps   == {list[j].p : j \in I}
           best == IF side = "bids" THEN CHOOSE x \in ps : \A y \in ps : y <= x
                                    ELSE CHOOSE x \in ps : \A y \in ps : x <= y
       IN UNION {{<<list[j]>> \o q : q \in Arrange(list, I \ {j}, side)} : j \in {k \in I : list[k].p = best}}

AllArrangements(list, side) == Arrange(list, DOMAIN list, side)

\* the order-preserving one: among the remaining entries of the best price, the earliest in the list
RECURSIVE StableFrom(_, _, _)
StableFrom(list, I, side) ==
  IF I = {} THEN << >>
  ELSE LET ps   == {list[j].p : j \in I}
           best == IF side = "bids" THEN CHOOSE x \in ps : \A y \in ps : y <= x
                                    ELSE CHOOSE x \in ps : \A y \in ps : x <= y
           c    == {k \in I : list[k].p = best}
           j    == CHOOSE k \in c : \A k2 \in c : k <= k2
       IN <<list[j]>> \o StableFrom(list, I \ {j}, side)
StableArrangement(list, side) == StableFrom(list, DOMAIN list, side)

SortedArrangements(list, side) ==
  IF Len(list) <= StableUpTo THEN {StableArrangement(list, side)} ELSE AllArrangements(list, side)

ArrangementsOK(list, side) ==
  /\ StableArrangement(list, side) \in AllArrangements(list, side)
  /\ AllArrangements(list, side) =
    {q \in {[j \in DOMAIN list |-> list[f[j]]] : f \in Permutations(DOMAIN list)} : InSideOrder(q, side)}

UpdateSide(m, list, side) == {Fold(m, q) : q \in SortedArrangements(list, side)}

\* The same set, stated as the property states it (used as a cross-check, LastWins below): every
\* price of the list ends as its LAST entry says (lists longer than StableUpTo: as one of its entries
\* says); other prices are untouched.
AmountsFor(list, p) ==
  LET ks == {k \in DOMAIN list : list[k].p = p} IN
  IF Len(list) <= StableUpTo THEN {list[CHOOSE k \in ks : \A k2 \in ks : k2 <= k].a}
                             ELSE {list[j].a : j \in ks}
Overwrite(m, c) ==       \* c : touched price -> final amount (0 = absent)
  [q \in ((DOMAIN m) \ {p \in DOMAIN c : c[p] = 0}) \cup {p \in DOMAIN c : c[p] # 0}
     |-> IF q \in DOMAIN c THEN c[q] ELSE m[q]]
UpdateSideByPrice(m, list) ==
  {Overwrite(m, c) : c \in {d \in [PricesOf(list) -> AMOUNT] : \A p \in PricesOf(list) : d[p] \in AmountsFor(list, p)}}

MkBook(b, a, s) == [bids |-> b, asks |-> a, seq |-> s]
EmptyBook == MkBook(EmptyMap, EmptyMap, 0)            \* OrderBook::default()

\* OrderBook::update, Update arm: sequence, then upsert_bids, then upsert_asks (independent sides)
UpdateResults(b, bl, al, s) ==
  {MkBook(nb, na, s) : nb \in UpdateSide(b.bids, bl, "bids"), na \in UpdateSide(b.asks, al, "asks")}

\* OrderBook::update, Snapshot arm: *self = snapshot
SnapshotResult(bl, al, s) == MkBook(MapOfList(bl), MapOfList(al), s)

(***************************************************************************)
(* Derived views (what consumers read)                                     *)
(***************************************************************************)
MaxOf(S) == CHOOSE x \in S : \A y \in S : y <= x
MinOf(S) == CHOOSE x \in S : \A y \in S : x <= y
Best(m, side) == IF side = "bids" THEN MaxOf(DOMAIN m) ELSE MinOf(DOMAIN m)

\* levels(): bids descending, asks ascending
RECURSIVE Levels(_, _)
Levels(m, side) ==
  IF DOMAIN m = {} THEN << >>
  ELSE LET p == Best(m, side) IN <<Lv(p, m[p])>> \o Levels(Without(m, p), side)

HasBids(b) == DOMAIN b.bids # {}
HasAsks(b) == DOMAIN b.asks # {}
IsEmpty(b) == ~HasBids(b) /\ ~HasAsks(b)
BestBid(b) == LET p == Best(b.bids, "bids") IN Lv(p, b.bids[p])      \* only if HasBids(b)
BestAsk(b) == LET p == Best(b.asks, "asks") IN Lv(p, b.asks[p])      \* only if HasAsks(b)

\* mid_price(): average of the best prices; one-sided book: that side's best price; empty book:
\* None (callers test IsEmpty first; the JSON form of None is "none")
Mid(b) ==
  CASE HasBids(b) /\ HasAsks(b)  -> Frac(BestBid(b).p + BestAsk(b).p, 2)
    [] HasBids(b) /\ ~HasAsks(b) -> R(BestBid(b).p)
    [] ~HasBids(b) /\ HasAsks(b) -> R(BestAsk(b).p)

\* volume_weighed_mid_price(): (bid.p * ask.a + ask.p * bid.a) / (bid.a + ask.a)
VWMid(b) ==
  CASE HasBids(b) /\ HasAsks(b)  -> LET bb == BestBid(b)  ba == BestAsk(b)
                                    IN Frac(bb.p * ba.a + ba.p * bb.a, bb.a + ba.a)
    [] HasBids(b) /\ ~HasAsks(b) -> R(BestBid(b).p)
    [] ~HasBids(b) /\ HasAsks(b) -> R(BestAsk(b).p)

Take(sq, d) == SubSeq(sq, 1, IF d < Len(sq) THEN d ELSE Len(sq))
\* snapshot(depth): the first `depth` levels of each side, same sequence
Depth(b, d) == [bids |-> Take(Levels(b.bids, "bids"), d), asks |-> Take(Levels(b.asks, "asks"), d), seq |-> b.seq]

(***************************************************************************)
(* Behaviour                                                               *)
(***************************************************************************)
Book == MkBook(bids, asks, seq)

Ev(k, bl, al, s) == [k |-> k, b |-> bl, a |-> al, s |-> s]
NoEvent == Ev("Init", << >>, << >>, 0)

Init == /\ bids = EmptyMap /\ asks = EmptyMap /\ seq = 0
        /\ last = NoEvent

Snapshot(bl, al, s) ==
  /\ CleanList(bl) /\ CleanList(al)
  /\ LET r == SnapshotResult(bl, al, s) IN bids' = r.bids /\ asks' = r.asks /\ seq' = r.seq
  /\ last' = Ev("Snapshot", bl, al, s)

Update(bl, al, s) ==
  /\ \E r \in UpdateResults(Book, bl, al, s) : bids' = r.bids /\ asks' = r.asks /\ seq' = r.seq
  /\ last' = Ev("Update", bl, al, s)

\* OrderBookL2Manager::run: a reconnect notice or an event of an instrument without a configured
\* book is skipped (`continue`); events of other instruments go to other books
ManagerSkip == /\ UNCHANGED <<bids, asks, seq>>
               /\ last' = Ev("Noop", << >>, << >>, seq)

\* bounded event universes for the exhaustive runs
SnapshotA      == \E bl \in CleanLists(MaxSnap), al \in CleanLists(MaxSnap), s \in SEQS : Snapshot(bl, al, s)
UpdateBidHeavy == \E bl \in Lists(MaxLong), al \in Lists(MaxShort), s \in SEQS : Update(bl, al, s)
UpdateAskHeavy == \E bl \in Lists(MaxShort), al \in Lists(MaxLong), s \in SEQS : Update(bl, al, s)

Next == SnapshotA \/ UpdateBidHeavy \/ UpdateAskHeavy \/ ManagerSkip

Spec == Init /\ [][Next]_vars

(***************************************************************************)
(* The property C05                                                        *)
(***************************************************************************)
IsSide(m) == /\ DOMAIN m \subseteq PRICE
             /\ \A p \in DOMAIN m : m[p] \in AMOUNT \ {0}

TypeOK == IsSide(bids) /\ IsSide(asks) /\ seq \in SEQS \cup {0}

\* a level vector (as read from the implementation) is that of a map: strictly ordered, so no
\* price twice; no zero amounts
StrictVector(v, side) ==
  /\ \A j \in 1..(Len(v) - 1) : IF side = "bids" THEN v[j].p > v[j + 1].p ELSE v[j].p < v[j + 1].p
  /\ \A j \in DOMAIN v : v[j].a # 0

VectorIsMap(v, m) == /\ PricesOf(v) = DOMAIN m
                     /\ \A j \in DOMAIN v : v[j].a = m[v[j].p]

Strict == /\ StrictVector(Levels(bids, "bids"), "bids") /\ VectorIsMap(Levels(bids, "bids"), bids)
          /\ StrictVector(Levels(asks, "asks"), "asks") /\ VectorIsMap(Levels(asks, "asks"), asks)

\* best bid / ask, mid, depth are those of the map
DerivedOK ==
  /\ (HasBids(Book) => BestBid(Book) = Head(Levels(bids, "bids")) /\ \A p \in DOMAIN bids : p <= BestBid(Book).p)
  /\ (HasAsks(Book) => BestAsk(Book) = Head(Levels(asks, "asks")) /\ \A p \in DOMAIN asks : p >= BestAsk(Book).p)
  /\ (~IsEmpty(Book) => IsRational(Mid(Book)) /\ IsRational(VWMid(Book)))
  /\ (HasBids(Book) /\ HasAsks(Book) =>
        \* both mids lie between the two best prices
        LET lo == IF BestBid(Book).p <= BestAsk(Book).p THEN BestBid(Book).p ELSE BestAsk(Book).p
            hi == IF BestBid(Book).p <= BestAsk(Book).p THEN BestAsk(Book).p ELSE BestBid(Book).p
        IN /\ Leq(R(lo), VWMid(Book)) /\ Leq(VWMid(Book), R(hi))
           /\ Leq(R(lo), Mid(Book)) /\ Leq(Mid(Book), R(hi)))
  /\ \A d \in 0..(Cardinality(PRICE) + 1) :
        /\ Len(Depth(Book, d).bids) = (IF d < Cardinality(DOMAIN bids) THEN d ELSE Cardinality(DOMAIN bids))
        /\ Len(Depth(Book, d).asks) = (IF d < Cardinality(DOMAIN asks) THEN d ELSE Cardinality(DOMAIN asks))
        /\ Depth(Book, d).seq = seq

\* the book's sequence is that of the last applied event
SeqIsLastA == seq' = last'.s

\* a snapshot replaces the book
SnapshotReplacesA ==
  last'.k = "Snapshot" => bids' = MapOfList(last'.b) /\ asks' = MapOfList(last'.a)

\* an update, price by price (the statement's wording): untouched prices keep their level; a price
\* whose entries all say 0 is absent afterwards; a price whose entries all say a > 0 holds a;
\* a price given several different amounts ends as one of them says
PointwiseSide(m, m2, list) ==
  /\ \A p \in PRICE \ PricesOf(list) : (p \in DOMAIN m <=> p \in DOMAIN m2) /\ (p \in DOMAIN m => m2[p] = m[p])
  /\ \A p \in PricesOf(list) :
        /\ p \in DOMAIN m2 => m2[p] \in AmountsFor(list, p) \ {0}
        /\ p \notin DOMAIN m2 => 0 \in AmountsFor(list, p)

UpdatePointwiseA ==
  last'.k = "Update" => PointwiseSide(bids, bids', last'.b) /\ PointwiseSide(asks, asks', last'.a)

\* the two formulations of an update (sort-then-fold as the code / last entry per price wins) agree
LastWinsA ==
  last'.k = "Update" => /\ UpdateSide(bids, last'.b, "bids") = UpdateSideByPrice(bids, last'.b)
                        /\ UpdateSide(asks, last'.a, "asks") = UpdateSideByPrice(asks, last'.a)
                        /\ ArrangementsOK(last'.b, "bids") /\ ArrangementsOK(last'.a, "asks")

\* ... and as a constant-level fact over the whole small universe (evaluated once per TLC run; the
\* guard keeps it out of the wide trace / simulation configurations)
MapsOver(P) == UNION {[S -> AMOUNT \ {0}] : S \in SUBSET P}     \* (a parameter: TLC evaluates zero-arity
                                                                  \*  constant definitions eagerly)
ASSUME FormulationsAgree ==
  Cardinality(PRICE) <= 3 =>
    \A l \in Lists(MaxLong) : \A side \in {"bids", "asks"} :
       /\ ArrangementsOK(l, side)
       /\ \A m \in MapsOver(PRICE) : UpdateSide(m, l, side) = UpdateSideByPrice(m, l)

StepProps == SeqIsLastA /\ SnapshotReplacesA /\ UpdatePointwiseA

SeqIsLast        == [][SeqIsLastA]_vars
SnapshotReplaces == [][SnapshotReplacesA]_vars
UpdatePointwise  == [][UpdatePointwiseA]_vars
LastWins         == [][LastWinsA]_vars

View == <<bids, asks, seq>>
=============================================================================
