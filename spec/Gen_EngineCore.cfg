SPECIFICATION GSpec
CONSTANTS
  CIDS = {"c1", "c2", "x"}
  EVENTS <- MCEvents
  ENVS <- MCEnvs
  MaxSeq = 100
  MaxLen = 30
INVARIANT Emit ConnIff
PROPERTIES SentDelivered SentInFlight FailedNeither NoPhantomInFlight DisabledSilent Scope ConnStep
CHECK_DEADLOCK FALSE
