---------------------------- MODULE Connectivity ----------------------------
(***************************************************************************)
(* C14 for ANY set of exchanges: the connectivity state machine of the      *)
(* engine state on its own.                                                 *)
(*                                                                         *)
(* Code transcribed: barter/src/engine/state/connectivity/mod.rs            *)
(*   generate_empty_indexed_connectivity_states   -> Init                   *)
(*   ConnectivityStates::update_from_market_event  -> MarketItem(e)         *)
(*   ConnectivityStates::update_from_account_event -> AccountItem(e)        *)
(*   ConnectivityStates::update_from_market_reconnecting  -> MarketDown(e)  *)
(*   ConnectivityStates::update_from_account_reconnecting -> AccountDown(e) *)
(* One disjunct per code path.  The two update_from_*_event functions have  *)
(* two early returns each (global already Healthy; that link already        *)
(* Healthy) and one path that writes: the link becomes Healthy and global   *)
(* is set to Healthy if now every link of every exchange is - and is NOT    *)
(* written otherwise (it keeps its value).  The two *_reconnecting setters  *)
(* write unconditionally.                                                   *)
(*                                                                         *)
(* EXCH is any NON-EMPTY set (the proof in Connectivity_proofs.tla does not *)
(* even use finiteness; Init of the code has one entry per exchange of the  *)
(* instrument index; for the empty set ConnIff is FALSE in the code's       *)
(* initial state - see ExchNonEmpty).                                       *)
(* Nothing is left nondeterministic except the                              *)
(* environment's choice of the next notice/item and of its exchange         *)
(* (\E e \in EXCH in Next) - the property constrains the response to every  *)
(* such choice.  An item / notice naming an exchange outside EXCH panics in *)
(* the code (connectivity_mut) and is outside the property.                 *)
(*                                                                         *)
(* Who uses this module                                                     *)
(*   TLC       MC_Connectivity*.cfg          |EXCH| = 1..4, exhaustive      *)
(*   TLAPS     Connectivity_proofs.tla       Spec => [](TypeOK /\ ConnIff)  *)
(*                                           for arbitrary EXCH             *)
(*   Apalache  MC_Connectivity_apa.tla       the same induction, second     *)
(*                                           engine, |EXCH| <= 4            *)
(*   TLC       MC_EngineCore_refines.tla     EngineCore (the spec the real  *)
(*                                           Engine is bound to by traces)  *)
(*                                           implements Spec (NEX = 3)      *)
(* The @type comments are Apalache's annotations; TLC and TLAPS ignore them.*)
(***************************************************************************)
CONSTANT
  \* @type: Set(EX);
  EXCH

\* at least one exchange (DESIGN section 6, C14 "Open"): with NO exchange the code starts - and stays - with global
\* Reconnecting although all (zero) links are healthy; such an engine has no instrument and receives no event
ASSUME ExchNonEmpty == EXCH # {}

VARIABLES
  \* @type: Str;
  global,
  \* @type: EX -> { market: Str, account: Str };
  link

vars == <<global, link>>

Health    == {"Healthy", "Reconnecting"}
LinkState == [market : Health, account : Health]

\* @type: (EX -> { market: Str, account: Str }) => Bool;
AllHealthyIn(l) == \A x \in EXCH : l[x].market = "Healthy" /\ l[x].account = "Healthy"

Init == /\ global = "Reconnecting"
        /\ link = [e \in EXCH |-> [market |-> "Reconnecting", account |-> "Reconnecting"]]

(***************************************************************************)
(* update_from_market_event                                                 *)
(***************************************************************************)
\* `if self.global == Health::Healthy { return }`
MarketItemGlobalHealthy(e) == global = "Healthy" /\ UNCHANGED vars
\* `if state.market_data == Health::Healthy { return }`
MarketItemLinkHealthy(e) == global # "Healthy" /\ link[e].market = "Healthy" /\ UNCHANGED vars
\* `state.market_data = Healthy; if all(all_healthy) { self.global = Healthy }`
MarketItemHeals(e) ==
  /\ global # "Healthy" /\ link[e].market # "Healthy"
  /\ link' = [link EXCEPT ![e] = [market |-> "Healthy", account |-> link[e].account]]
  /\ global' = IF AllHealthyIn(link') THEN "Healthy" ELSE global
MarketItem(e) == MarketItemGlobalHealthy(e) \/ MarketItemLinkHealthy(e) \/ MarketItemHeals(e)

(***************************************************************************)
(* update_from_account_event                                                *)
(***************************************************************************)
AccountItemGlobalHealthy(e) == global = "Healthy" /\ UNCHANGED vars
AccountItemLinkHealthy(e) == global # "Healthy" /\ link[e].account = "Healthy" /\ UNCHANGED vars
AccountItemHeals(e) ==
  /\ global # "Healthy" /\ link[e].account # "Healthy"
  /\ link' = [link EXCEPT ![e] = [market |-> link[e].market, account |-> "Healthy"]]
  /\ global' = IF AllHealthyIn(link') THEN "Healthy" ELSE global
AccountItem(e) == AccountItemGlobalHealthy(e) \/ AccountItemLinkHealthy(e) \/ AccountItemHeals(e)

(***************************************************************************)
(* update_from_market_reconnecting / update_from_account_reconnecting       *)
(***************************************************************************)
MarketDown(e) ==
  /\ global' = "Reconnecting"
  /\ link' = [link EXCEPT ![e] = [market |-> "Reconnecting", account |-> link[e].account]]
AccountDown(e) ==
  /\ global' = "Reconnecting"
  /\ link' = [link EXCEPT ![e] = [market |-> link[e].market, account |-> "Reconnecting"]]

Next == \E e \in EXCH : MarketItem(e) \/ AccountItem(e) \/ MarketDown(e) \/ AccountDown(e)

Spec == Init /\ [][Next]_vars

(***************************************************************************)
(* Properties (C14)                                                         *)
(***************************************************************************)
TypeOK == global \in Health /\ link \in [EXCH -> LinkState]

\* global connectivity is healthy exactly when every exchange's market-data link and account link are
ConnIff == (global = "Healthy") <=> (\A e \in EXCH : link[e].market = "Healthy" /\ link[e].account = "Healthy")

Inv == TypeOK /\ ConnIff

\* a notice / an item of exchange e touches exactly that link: no other exchange, not the other link of e
ExactlyThatLinkA ==
  \A e \in EXCH :
     /\ (MarketItem(e) \/ MarketDown(e)
           => link'[e].account = link[e].account /\ \A x \in EXCH \ {e} : link'[x] = link[x])
     /\ (AccountItem(e) \/ AccountDown(e)
           => link'[e].market = link[e].market /\ \A x \in EXCH \ {e} : link'[x] = link[x])
\* a disconnect notice marks that link (and global health) as reconnecting
DownMarksA ==
  \A e \in EXCH :
     /\ (MarketDown(e)  => link'[e].market  = "Reconnecting" /\ global' = "Reconnecting")
     /\ (AccountDown(e) => link'[e].account = "Reconnecting" /\ global' = "Reconnecting")
\* whatever happened before (in particular: after X-Down(e)), the next X-item of e leaves that link Healthy
\* (needs Inv: the early return on a Healthy global is right only because then every link is Healthy)
HealedByNextA ==
  \A e \in EXCH :
     /\ (MarketItem(e)  => link'[e].market  = "Healthy")
     /\ (AccountItem(e) => link'[e].account = "Healthy")

ExactlyThatLink == [][ExactlyThatLinkA]_vars
DownMarks       == [][DownMarksA]_vars
HealedByNext    == [][HealedByNextA]_vars

\* the "after X-Down(e)" reading of HealedByNext over whole behaviours: between a X-Down(e) and the next X-item of e
\* the link is Reconnecting, from that item on (until the next Down) it is Healthy - as a step property on a history-free
\* state this is: the link's health changes ONLY by its own Down (-> Reconnecting) and its own item (-> Healthy)
OnlyOwnEventsA ==
  \A e \in EXCH :
     /\ (link'[e].market # link[e].market =>
           (MarketDown(e) /\ link'[e].market = "Reconnecting") \/ (MarketItem(e) /\ link'[e].market = "Healthy"))
     /\ (link'[e].account # link[e].account =>
           (AccountDown(e) /\ link'[e].account = "Reconnecting") \/ (AccountItem(e) /\ link'[e].account = "Healthy"))
OnlyOwnEvents == [][OnlyOwnEventsA]_vars

(***************************************************************************)
(* For the inductive checks (Apalache --init=IndInit, TLC MC_*_ind.cfg):    *)
(* start anywhere inside the invariant.                                     *)
(***************************************************************************)
IndInit == /\ global \in Health
           /\ link \in [EXCH -> LinkState]
           /\ ConnIff
IndSpec == IndInit /\ [][Next]_vars
=============================================================================
