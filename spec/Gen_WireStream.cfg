SPECIFICATION Spec
CONSTANTS
  MaxFrames = 5
  MaxTrades = 3
  Needs = {2}
INVARIANT Emit
CHECK_DEADLOCK FALSE
