SPECIFICATION SpecBuild
CONSTANTS
  Universe <- U7
  MaxLen = 2
INVARIANTS Dense Unique Inverse Resolve OrderFree Sorted Aligned
CHECK_DEADLOCK FALSE
