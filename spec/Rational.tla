------------------------------ MODULE Rational ------------------------------
(* Exact fractions for TLC (which has only 32-bit integers): a rational is   *)
(* <<n, d>> with d > 0 and gcd(|n|, d) = 1, so equal values are equal tuples.*)
(* Domains must be chosen so that no intermediate exceeds 2^31 - TLC reports *)
(* an overflow as an error, which the checker treats as a tool error.        *)
EXTENDS Integers

RECURSIVE GCD(_, _)
GCD(a, b) == IF b = 0 THEN a ELSE GCD(b, a % b)

AbsI(x) == IF x < 0 THEN -x ELSE x

Norm(n, d) ==
  LET s == IF d < 0 THEN -1 ELSE 1
      g == GCD(AbsI(n), AbsI(d))
  IN IF n = 0 THEN <<0, 1>> ELSE <<(s * n) \div g, (s * d) \div g>>

R(i)        == <<i, 1>>                       \* integer -> rational
Frac(n, d)  == Norm(n, d)                     \* d # 0
Zero        == <<0, 1>>
One         == <<1, 1>>

Add(a, b)   == Norm(a[1] * b[2] + b[1] * a[2], a[2] * b[2])
Neg(a)      == <<-a[1], a[2]>>
Sub(a, b)   == Add(a, Neg(b))
Mul(a, b)   == Norm(a[1] * b[1], a[2] * b[2])
Div(a, b)   == Norm(a[1] * b[2], a[2] * b[1]) \* b # 0
Abs(a)      == <<AbsI(a[1]), a[2]>>

Lt(a, b)    == a[1] * b[2] < b[1] * a[2]
Leq(a, b)   == a[1] * b[2] <= b[1] * a[2]
Gt(a, b)    == Lt(b, a)
Geq(a, b)   == Leq(b, a)
IsZero(a)   == a[1] = 0
IsNeg(a)    == a[1] < 0
IsPos(a)    == a[1] > 0
Sign(a)     == IF a[1] > 0 THEN 1 ELSE IF a[1] < 0 THEN -1 ELSE 0
RMin(a, b)  == IF Leq(a, b) THEN a ELSE b
RMax(a, b)  == IF Leq(a, b) THEN b ELSE a

IsRational(a) == a[2] > 0 /\ (a[1] = 0 => a[2] = 1) /\ GCD(AbsI(a[1]), a[2]) = 1

\* JSON shape understood by the harness comparator (vh::cmp): {"n":..,"d":..}
RJ(a) == [n |-> a[1], d |-> a[2]]
=============================================================================
