SPECIFICATION SpecUnfairAnswer
CONSTANTS
  CID = {"c1"}
  EXCH = {"x1"}
  TRADED = {"x1"}
  MaxSends = 2
  MaxKills = 0
  MaxMkt = 0
INVARIANTS TypeOK AtMostOnce InFlightBacked
PROPERTY Resolved
CHECK_DEADLOCK FALSE
