---------------------------- MODULE MC_BinanceL2 ----------------------------
(* Bounded worlds for the exhaustive runs of BinanceL2.                       *)
EXTENDS BinanceL2
CONSTANT MCM          \* number of elementary changes

\* every evolution of MCM changes over PRICE x AMOUNT on both sides
NoLevel == [side |-> "n", p |-> CHOOSE p \in PRICE : TRUE, a |-> 0]        \* an id that changes no level
AllEvolutions == [1..MCM -> [side : {"b", "a"}, p : PRICE, a : AMOUNT] \cup {NoLevel}]

\* five fixed evolutions (sequencing is independent of book content): set / overwrite / delete /
\* delete-absent on both sides
C(s, p, a) == [side |-> s, p |-> p, a |-> a]
FewEvolutions ==
  { [j \in 1..MCM |-> CASE j % 4 = 1 -> C("b", 1, 1) [] j % 4 = 2 -> C("a", 2, 1) [] j % 4 = 3 -> C("b", 1, 0) [] OTHER -> C("a", 2, 2)],
    [j \in 1..MCM |-> CASE j % 3 = 1 -> C("a", 1, 2) [] j % 3 = 2 -> C("a", 1, 0) [] OTHER -> C("b", 2, 1)],
    [j \in 1..MCM |-> IF j % 2 = 1 THEN C("b", 2, 2) ELSE C("b", 1, 0)],
    \* with ids that change no level: grouped on their own they give depth updates with empty b and a
    [j \in 1..MCM |-> IF j \in {2, 3} THEN NoLevel ELSE IF j = 1 THEN C("b", 1, 1) ELSE C("a", 2, 1)],
    [j \in 1..MCM |-> IF j % 2 = 1 THEN NoLevel ELSE C("a", 1, 2)] }

\* two of them (one with level-less ids) for the runs whose subject is not the book content
TwoEvolutions ==
  { [j \in 1..MCM |-> CASE j % 4 = 1 -> C("b", 1, 1) [] j % 4 = 2 -> C("a", 2, 1) [] j % 4 = 3 -> C("b", 1, 0) [] OTHER -> C("a", 2, 2)],
    [j \in 1..MCM |-> IF j \in {2, 3} THEN NoLevel ELSE IF j = 1 THEN C("b", 1, 1) ELSE C("a", 2, 1)] }
=============================================================================
