SPECIFICATION Spec
CONSTANTS
  NMarkets = 3
  Conns <- QuickConns
  KeyOffs = {1}
  PRICE = {6}
  AMOUNT = {5}
  TIME = {1}
  DupKinds = {0}
  MaxBatch = 2
INVARIANTS TypeOK KeysDistinct
PROPERTIES Attribution RejectUnsubscribed FieldsPreserved Quiet
CHECK_DEADLOCK FALSE
