---------------------------- MODULE ExecManager ----------------------------
(***************************************************************************)
(* The per-exchange execution manager of barter (C07): every execution     *)
(* request it accepts is answered exactly once - with the exchange         *)
(* client's own response if that arrives within the request timeout,       *)
(* otherwise with a timeout failure - and the answer carries the request's *)
(* exchange, instrument and client order id (opens: side, price, quantity, *)
(* kind, time in force as well).                                           *)
(*                                                                         *)
(* Code transcribed: barter/src/execution/manager.rs                       *)
(*   ExecutionManager::run, `request_stream.next()` arm, Open/Cancel       *)
(*        -> Accept(r, s)   a RequestFuture = tokio::time::timeout(T,      *)
(*                          client future) carrying the original request   *)
(*                          is pushed into in_flight_{opens,cancels}       *)
(*   `next_open_response` / `next_cancel_response` arm, Ok(response)       *)
(*        -> ClientResponds(r)  process_open_response /                    *)
(*                          process_cancel_response build the event        *)
(*   same arms, Err(request) (barter/src/execution/request.rs maps the     *)
(*   elapsed timeout to Err(original request))                             *)
(*        -> TimeoutFires(r)    process_open_timeout /                     *)
(*                          process_cancel_timeout build the event         *)
(*   `request_stream.next()` arm, Shutdown | None (stream ended)           *)
(*        -> Shutdown       the loop breaks, in-flight futures are dropped *)
(*   the runtime's clock -> Advance(t)                                     *)
(*   a stalled executor  -> Stall(t)   time passes while the manager task  *)
(*                          is NOT scheduled (busy thread, long poll of     *)
(*                          another task): due instants are passed, the    *)
(*                          elapsed timers are all delivered in one turn   *)
(*                                                                         *)
(* Virtual time: `now` is an integer instant.  A request accepted at `at`  *)
(* whose client takes `d` to answer (NEVER = it never does) has its        *)
(* response due at at+d and its deadline at at+T.  Time is *urgent*: it    *)
(* cannot pass an instant at which a pending request is due (the real      *)
(* manager is a single task on a runtime that only advances the clock when *)
(* nothing is runnable), so every event happens exactly at its instant -   *)
(* except after Stall(t), which jumps over due instants: the requests it   *)
(* passed (`lagged`) are answered at the end of the jump, before time      *)
(* moves on.  WHICH event a request gets is still decided by its delay     *)
(* against the timeout, never by when the manager got to look: a response  *)
(* that was ready within the timeout must be delivered as the response.    *)
(*                                                                         *)
(* Left nondeterministic, because the property leaves it open (DESIGN 5.4):*)
(*  - a response completing at exactly the deadline: ClientResponds and    *)
(*    TimeoutFires are both enabled (tokio's Timeout happens to poll the   *)
(*    response first);                                                     *)
(*  - the order of events that are due at the same instant (select!        *)
(*    randomises its branches; FuturesUnordered has no order);             *)
(*  - a response that completed AFTER the deadline while the manager was   *)
(*    not scheduled (response instant and deadline inside one Stall), if   *)
(*    LateResponseOK: response or timeout failure.  A timeout is a lower   *)
(*    bound on the waiting of an observer that is not scheduled; the real  *)
(*    tokio::time::Timeout polls the response first and delivers it.  With *)
(*    LateResponseOK = FALSE only the timeout failure is allowed there.    *)
(*  - Shutdown at any instant: it is outside "while running", pending      *)
(*    requests are then dropped unanswered;                                *)
(*  - the environment: which requests arrive when, and what the client     *)
(*    does with each (the script chosen by Accept).                        *)
(* Nothing else: kind, instant and every field of the emitted event are a  *)
(* function of the request's script.                                       *)
(*                                                                         *)
(* Environment assumptions: client order ids of one batch are distinct;    *)
(* the client echoes the key and (opens) the order fields of the request   *)
(* it was given, reports 0 <= filled <= quantity, and its own errors are   *)
(* not Connectivity(Timeout) (else response and timeout failure are the    *)
(* same event); request keys are configured in the indexer (otherwise the  *)
(* manager panics by design).                                              *)
(***************************************************************************)
EXTENDS Integers, Sequences, FiniteSets, TLC

CONSTANTS REQ,      \* request ids (one per client order id)
          T,        \* request timeout (a duration >= 0; 0: due at the accept instant)
          ACCEPT,   \* instants at which the model checker lets requests arrive
          DELAY,    \* client response delays (durations >= 0), NEVER is added
          EX,       \* the exchange index of this manager
          INST,     \* instrument indices configured for this exchange
          SIDE,     \* sides of opens
          PRICE,    \* prices of opens
          QTY,      \* quantities of opens (positive)
          BUNDLE,   \* abstract values for (order kind, time in force)
          STALL,    \* instants the model checker lets a stalled executor jump to
          LateResponseOK, \* see the header: a late response observed together with the deadline
          NoTimeout \* the manager is configured with a maximal request timeout (Duration::MAX or
                    \* a duration beyond every instant): T is infinite, TimeoutFires is never
                    \* enabled and every accepted request is answered by the client's own
                    \* response, however late; a request the client never answers has no due instant

NEVER == -1

VARIABLES now,      \* current virtual instant
          running,  \* the select loop has not broken
          req,      \* [REQ -> script]: what was accepted and what the client will do
          pending,  \* ids whose RequestFuture is in flight
          out,      \* sequence of events sent on the response channel
          lagged    \* ids whose due instant was passed while the manager was not scheduled

vars == <<now, running, req, pending, out, lagged>>

(***************************************************************************)
(* Scripts: a request as accepted plus the client's scripted behaviour.    *)
(* All scripts have the same fields (cancels leave the open-only ones      *)
(* blank) so that recorded traces can be read uniformly.                   *)
(***************************************************************************)
NoReq == [k |-> "none", at |-> 0, d |-> 0, res |-> "none", inst |-> 0,
          side |-> "none", price |-> 0, qty |-> 0, b |-> "none", fill |-> 0]

Accepted(r) == req[r].k # "none"

IsScript(s, t) ==
    /\ s.at = t
    /\ s.d \in DELAY \cup {NEVER}
    /\ s.inst \in INST
    /\ \/ /\ s.k = "open"
          /\ s.side \in SIDE /\ s.price \in PRICE /\ s.qty \in QTY /\ s.b \in BUNDLE
          /\ \/ s.d # NEVER /\ s.res = "ok" /\ s.fill \in 0..s.qty
             \/ s.d # NEVER /\ s.res = "err" /\ s.fill = 0
             \/ s.d = NEVER /\ s.res = "none" /\ s.fill = 0
       \/ /\ s.k = "cancel"
          /\ s.side = "none" /\ s.price = 0 /\ s.qty = 0 /\ s.b = "none" /\ s.fill = 0
          /\ \/ s.d # NEVER /\ s.res \in {"ok", "err"}
             \/ s.d = NEVER /\ s.res = "none"

\* the finite set of scripts the model checker / scenario generator draws from
Scripts(t) ==
    {s \in [k : {"open", "cancel"}, at : {t}, d : DELAY \cup {NEVER}, res : {"ok", "err", "none"},
            inst : INST, side : SIDE \cup {"none"}, price : PRICE \cup {0}, qty : QTY \cup {0},
            b : BUNDLE \cup {"none"}, fill : 0..(IF QTY = {} THEN 0 ELSE CHOOSE q \in QTY : \A p \in QTY : p <= q)]
       : IsScript(s, t)}

(***************************************************************************)
(* Instants                                                                *)
(***************************************************************************)
Deadline(r) == req[r].at + T
RespAt(r)   == req[r].at + req[r].d                     \* meaningful iff d # NEVER
HasDue(r)   == ~NoTimeout \/ req[r].d # NEVER             \* something is going to happen for r
Due(r)      == IF req[r].d # NEVER /\ (NoTimeout \/ RespAt(r) < Deadline(r)) THEN RespAt(r) ELSE Deadline(r)
                                                         \* meaningful iff HasDue(r)

(***************************************************************************)
(* The event the manager builds.  `k` = "resp" (process_*_response) or     *)
(* "timeout" (process_*_timeout).                                          *)
(*   ex, kex   AccountEvent.exchange and key.exchange                      *)
(*   st        Open | FullyFilled | OpenFailed | Cancelled | CancelFailed  *)
(*   err       none | rejected (the client's own error) | timeout          *)
(*   fill, oid the Open meta of an active open / the Cancelled id          *)
(***************************************************************************)
EventOf(r, kind) ==
    LET s    == req[r]
        full == s.k = "open" /\ s.res = "ok" /\ s.fill = s.qty     \* quantity_remaining is zero
        base == [ex |-> EX, kex |-> EX, inst |-> s.inst,
                 side |-> s.side, price |-> s.price, qty |-> s.qty, b |-> s.b,
                 st |-> "none", err |-> "none", fill |-> 0, oid |-> 0]
    IN  IF s.k = "open"
        THEN IF kind = "timeout"  THEN [base EXCEPT !.st = "OpenFailed", !.err = "timeout"]
             ELSE IF s.res = "err" THEN [base EXCEPT !.st = "OpenFailed", !.err = "rejected"]
             ELSE IF full         THEN [base EXCEPT !.st = "FullyFilled"]
             ELSE                      [base EXCEPT !.st = "Open", !.fill = s.fill, !.oid = r]
        ELSE IF kind = "timeout"  THEN [base EXCEPT !.st = "CancelFailed", !.err = "timeout"]
             ELSE IF s.res = "err" THEN [base EXCEPT !.st = "CancelFailed", !.err = "rejected"]
             ELSE                      [base EXCEPT !.st = "Cancelled", !.oid = r]

Emit(r, kind) == out' = Append(out, [id |-> r, k |-> kind, at |-> now, ev |-> EventOf(r, kind)])

Answered(r) == \E i \in 1..Len(out) : out[i].id = r

(***************************************************************************)
(* Actions                                                                 *)
(***************************************************************************)
Init == /\ now = 0
        /\ running = TRUE
        /\ req = [r \in REQ |-> NoReq]
        /\ pending = {}
        /\ out = <<>>
        /\ lagged = {}

\* request_stream.next() yields Open/Cancel: the request future is created now
Accept(r, s) ==
    /\ running
    /\ ~Accepted(r)
    /\ IsScript(s, now)
    /\ req' = [req EXCEPT ![r] = s]
    /\ pending' = pending \cup {r}
    /\ UNCHANGED <<now, running, out, lagged>>

\* the client's future has completed, no later than the deadline (urgency: now = RespAt(r)
\* unless a Stall passed it; then RespAt(r) > Deadline(r) is possible, see LateResponseOK)
CanRespond(r) == /\ running /\ r \in pending
                 /\ req[r].d # NEVER
                 /\ now >= RespAt(r)
                 /\ (~NoTimeout /\ RespAt(r) > Deadline(r) => LateResponseOK)

ClientResponds(r) ==
    /\ CanRespond(r)
    /\ Emit(r, "resp")
    /\ pending' = pending \ {r}
    /\ UNCHANGED <<now, running, req, lagged>>

\* the timeout elapses and the client's future has not completed earlier
CanTimeout(r) == /\ running /\ r \in pending
                 /\ ~NoTimeout
                 /\ now >= Deadline(r)
                 /\ (req[r].d = NEVER \/ RespAt(r) >= Deadline(r))

TimeoutFires(r) ==
    /\ CanTimeout(r)
    /\ Emit(r, "timeout")
    /\ pending' = pending \ {r}
    /\ UNCHANGED <<now, running, req, lagged>>

\* time passes, but never beyond an instant at which a pending request is due
CanAdvance(t) == /\ t > now
                 /\ \A r \in pending : HasDue(r) => t <= Due(r)

Advance(t) ==
    /\ CanAdvance(t)
    /\ now' = t
    /\ UNCHANGED <<running, req, pending, out, lagged>>

\* time passes while the manager task is not scheduled: due instants may be passed; what was
\* passed is remembered, and (CanAdvance) must be answered before time moves on normally
Stall(t) ==
    /\ t > now
    /\ now' = t
    /\ lagged' = lagged \cup {r \in pending : HasDue(r) /\ Due(r) < t}
    /\ UNCHANGED <<running, req, pending, out>>

\* ExecutionRequest::Shutdown or the end of the request stream
Shutdown ==
    /\ running
    /\ running' = FALSE
    /\ pending' = {}
    /\ UNCHANGED <<now, req, out, lagged>>

(***************************************************************************)
(* The model checker's next-state relation.  Requests arrive at the        *)
(* instants of ACCEPT, numbered in order of acceptance (ids are symmetric);*)
(* time moves to the next interesting instant: a due instant or an arrival *)
(* instant - so the state space is finite without a constraint.            *)
(***************************************************************************)
NextNew == CHOOSE r \in REQ : ~Accepted(r) /\ \A q \in REQ : ~Accepted(q) => r <= q

Targets == {Due(r) : r \in {p \in pending : HasDue(p)}}
           \cup {t \in ACCEPT : running /\ \E r \in REQ : ~Accepted(r)}

AcceptAny  == \E r \in REQ : /\ ~Accepted(r) /\ r = NextNew
                             /\ now \in ACCEPT
                             /\ \E s \in Scripts(now) : Accept(r, s)
RespondAny == \E r \in REQ : ClientResponds(r)
TimeoutAny == \E r \in REQ : TimeoutFires(r)
AdvanceAny == \E t \in Targets : Advance(t)
StallAny   == \E t \in STALL : Stall(t)

Next == AcceptAny \/ RespondAny \/ TimeoutAny \/ AdvanceAny \/ StallAny \/ Shutdown

Spec == Init /\ [][Next]_vars

\* weak fairness of the clock and of every request future (not of the environment)
FairSpec == /\ Spec
            /\ WF_vars(AdvanceAny)
            /\ \A r \in REQ : WF_vars(ClientResponds(r)) /\ WF_vars(TimeoutFires(r))

(***************************************************************************)
(* C07                                                                     *)
(***************************************************************************)
TypeOK == /\ now \in Nat
          /\ running \in BOOLEAN
          /\ pending \subseteq REQ /\ lagged \subseteq REQ
          /\ \A r \in REQ : req[r] = NoReq \/ IsScript(req[r], req[r].at)
          /\ \A i \in 1..Len(out) : out[i].id \in REQ /\ out[i].k \in {"resp", "timeout"}

\* never two events for one request
AtMostOne == Cardinality({out[i].id : i \in 1..Len(out)}) = Len(out)
             \* i.e.  \A i, j \in 1..Len(out) : out[i].id = out[j].id => i = j

\* never neither (safety half): while running an accepted request is in flight or answered -
\* not both - and nothing in flight is overdue
ExactlyOnce == /\ \A r \in REQ : r \in pending => Accepted(r) /\ ~Answered(r)
               /\ \A r \in REQ : Answered(r) => Accepted(r)
               /\ running => \A r \in REQ : Accepted(r) => (r \in pending \/ Answered(r))
               /\ \A r \in pending \ lagged : HasDue(r) => now <= Due(r)

\* the response iff it completed before the deadline, the timeout failure iff after; either at
\* equality (and, if LateResponseOK, for a late response passed together with its deadline by a
\* Stall); each at its own instant - or, when a Stall passed that instant, not before it
AtOK(e, due) == e.at >= due /\ (e.id \notin lagged => e.at = due)
Kind == \A i \in 1..Len(out) :
          LET e == out[i]
              s == req[e.id]
          IN  /\ e.k = "resp"    => /\ s.d # NEVER
                                    /\ (NoTimeout \/ s.d <= T \/ (LateResponseOK /\ e.id \in lagged))
                                    /\ AtOK(e, s.at + s.d)
              /\ e.k = "timeout" => /\ ~NoTimeout
                                    /\ (s.d = NEVER \/ s.d >= T)
                                    /\ AtOK(e, s.at + T)

\* right exchange, instrument, order id; opens carry the request's order fields; the state is the
\* client's answer (zero remaining => FullyFilled) or the timeout failure
Attribution ==
    \A i \in 1..Len(out) :
      LET e == out[i].ev
          s == req[out[i].id]
          k == out[i].k
      IN  /\ e.ex = EX /\ e.kex = EX /\ e.inst = s.inst
          /\ s.k = "open" => e.side = s.side /\ e.price = s.price /\ e.qty = s.qty /\ e.b = s.b
          /\ (e.err = "timeout") <=> (k = "timeout")
          /\ s.k = "open" /\ k = "timeout" => e.st = "OpenFailed"
          /\ s.k = "cancel" /\ k = "timeout" => e.st = "CancelFailed"
          /\ s.k = "open" /\ k = "resp" =>
                \/ s.res = "err" /\ e.st = "OpenFailed" /\ e.err = "rejected"
                \/ s.res = "ok" /\ s.fill = s.qty /\ e.st = "FullyFilled"
                \/ s.res = "ok" /\ s.fill < s.qty /\ e.st = "Open" /\ e.fill = s.fill /\ e.oid = out[i].id
          /\ s.k = "cancel" /\ k = "resp" =>
                \/ s.res = "err" /\ e.st = "CancelFailed" /\ e.err = "rejected"
                \/ s.res = "ok" /\ e.st = "Cancelled" /\ e.oid = out[i].id

\* the accepted request is never rewritten, the response channel only grows, time never runs back
StableStep == /\ \A r \in REQ : Accepted(r) => req'[r] = req[r]
              /\ Len(out') >= Len(out) /\ SubSeq(out', 1, Len(out)) = out
              /\ now' >= now
Stable == [][StableStep]_vars

\* never neither (liveness half): every request in flight is eventually answered, unless the
\* manager is shut down first
Answers == \A r \in REQ : (r \in pending /\ HasDue(r)) ~> (Answered(r) \/ ~running)

=============================================================================
