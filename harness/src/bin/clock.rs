//! The engine clock — conformance driver (spec/Clock.tla, attached to C20).
//!
//! `clock run    --scenarios f.ndjson --results r.ndjson [--tick-us 1500]`
//!      spec -> impl: TLC-generated behaviours of Clock (Gen_Clock) replayed into real
//!      `HistoricalClock` objects and real `Engine`s; after every step every reading of every handle
//!      is compared with what the specification expects (exchange time held, aliasing, restart point)
//!      as an interval computed from the wall-clock measurements taken around the calls.
//! `clock random --seed S --segments N --out trace.ndjson`
//!      impl -> spec: a seeded driver (several independent clocks, clones, late / equal / newer /
//!      untimed events of every kind of the decision table, sleeps of a few ms, clocks installed in
//!      real engines) recorded in integer milliseconds for spec/Trace_Clock.tla.
//!
//! A handle of the specification is either a bare `HistoricalClock` (driven through
//! `Processor::process(&EngineEvent)`, read through `EngineClock::time`) or the clock installed in a
//! real `Engine` (driven through `process_with_audit(&mut engine, event)`, read through
//! `engine.clock.time()`, `engine.time()`, the audit tick's context time, the trading summary
//! generator's `time_engine_now`, and `engine.meta.time_start` at construction), or the clock handed to a
//! real `SystemBuilder` (no execution links, balances seeded through the builder: `build()` stamps the seeded
//! balances with `clock.time()` and constructs the engine - two more readings; the engine it built is then
//! driven and read like the other engines).  A clone is `HistoricalClock::clone` of the real object,
//! whatever hosts it.
use barter::{
    EngineEvent,
    engine::{
        Engine, Processor,
        clock::{EngineClock, HistoricalClock},
        command::Command,
        process_with_audit,
        execution_tx::MultiExchangeTxMap,
        state::{global::DefaultGlobalData, instrument::{data::DefaultInstrumentMarketData, filter::InstrumentFilter}, trading::TradingState},
    },
    execution::AccountStreamEvent,
    risk::DefaultRiskManager,
    strategy::DefaultStrategy,
    system::builder::{SystemArgs, SystemBuilder},
};
use barter_data::{
    books::Level,
    event::{DataKind, MarketEvent},
    streams::consumer::MarketStreamEvent,
    subscription::{book::OrderBookL1, candle::Candle, liquidation::Liquidation, trade::PublicTrade},
};
use barter_execution::{
    AccountEvent, AccountEventKind, AccountSnapshot, InstrumentAccountSnapshot,
    balance::{AssetBalance, Balance},
    error::{ApiError, ConnectivityError, OrderError},
    order::{
        Order, OrderKey, OrderKind, TimeInForce,
        id::{ClientOrderId, OrderId},
        request::{OrderRequestCancel, OrderResponseCancel, RequestCancel},
        state::{CancelInFlight, Cancelled, InactiveOrderState, Open, OpenInFlight, OrderState},
    },
    trade::{AssetFees, Trade, TradeId},
};
use barter_instrument::{Side, asset::AssetIndex, exchange::ExchangeIndex, instrument::InstrumentIndex};
use barter_integration::{collection::one_or_many::OneOrMany, snapshot::Snapshot};
use chrono::{DateTime, Duration, Utc};
use parking_lot::Mutex;
use rand::{Rng, rngs::StdRng};
use rust_decimal::Decimal;
use serde_json::{Value, json};
use std::{collections::HashMap, sync::Arc, time::Instant};
use vh::{engine_kit::*, util::*, world2};

const TIMED: [&str; 7] = ["MarketItem", "Balance", "OrderOpen", "OrderCancelInFlightOpen", "OrderCancelled", "CancelOk", "Trade"];
const UNTIMED: [&str; 11] = [
    "MarketReconnecting", "AccountReconnecting", "OrderOpenInFlight", "OrderCancelInFlightNone", "OrderFullyFilled", "OrderOpenFailed",
    "OrderExpired", "CancelErr", "Shutdown", "Command", "TradingState",
];
const ITEM_KINDS: [&str; 9] = [
    "Balance", "OrderOpenInFlight", "OrderOpen", "OrderCancelInFlightOpen", "OrderCancelInFlightNone", "OrderCancelled", "OrderFullyFilled",
    "OrderOpenFailed", "OrderExpired",
];

// ------------------------------------------------------------------------------------------
// abstract event {kind, t, items} -> real EngineEvent.  `tm` maps a specification time to an
// instant; `salt` varies everything the decision table does not look at (instrument, exchange,
// payload kind, ids, the OTHER timestamps an event carries: time_received, the book's
// last_update_time, a candle's close_time ... are decoys set hours away from the exchange time).
// ------------------------------------------------------------------------------------------
type Ord_ = Order<ExchangeIndex, InstrumentIndex, OrderState<AssetIndex, InstrumentIndex>>;

fn order_state(kind: &str, at: DateTime<Utc>, salt: u64) -> OrderState<AssetIndex, InstrumentIndex> {
    let id = OrderId::new(format!("o{}", salt % 3));
    let open = Open::new(id.clone(), at, dec((salt % 2) as i64));
    match kind {
        "OrderOpenInFlight" => OrderState::active(OpenInFlight),
        "OrderOpen" => OrderState::active(open),
        "OrderCancelInFlightOpen" => OrderState::active(CancelInFlight { order: Some(open) }),
        "OrderCancelInFlightNone" => OrderState::active(CancelInFlight { order: None }),
        "OrderCancelled" => OrderState::inactive(Cancelled::new(id, at)),
        "OrderFullyFilled" => OrderState::fully_filled(),
        "OrderOpenFailed" => OrderState::inactive(InactiveOrderState::OpenFailed(match salt % 3 {
            0 => OrderError::Connectivity(ConnectivityError::Timeout),
            1 => OrderError::Rejected(ApiError::RateLimit),
            _ => OrderError::Rejected(ApiError::OrderRejected("no".into())),
        })),
        "OrderExpired" => OrderState::expired(),
        k => usage(&format!("bad order kind {k}")),
    }
}

fn key(inst: usize, salt: u64) -> OrderKey {
    OrderKey {
        exchange: ExchangeIndex(world2::EX_OF[inst]),
        instrument: InstrumentIndex(inst),
        strategy: strategy_id(),
        cid: ClientOrderId::new(format!("k{}", salt % 4)),
    }
}

fn order(kind: &str, at: DateTime<Utc>, inst: usize, salt: u64) -> Ord_ {
    Order {
        key: key(inst, salt),
        side: if salt % 2 == 0 { Side::Buy } else { Side::Sell },
        price: dec(10),
        quantity: dec(3),
        kind: OrderKind::Limit,
        time_in_force: TimeInForce::GoodUntilCancelled { post_only: false },
        state: order_state(kind, at, salt),
    }
}

fn balance(at: DateTime<Utc>, ex: usize, salt: u64) -> AssetBalance<AssetIndex> {
    // the assets of an exchange: exchange 0 has assets 0..=3, exchange 1 has 4, 5
    let asset = if ex == 0 { (salt % 4) as usize } else { 4 + (salt % 2) as usize };
    AssetBalance { asset: AssetIndex(asset), balance: Balance::new(dec(100 + (salt % 7) as i64), dec(100)), time_exchange: at }
}

fn make_event(ev: &Value, tm: &dyn Fn(i64) -> DateTime<Utc>, salt: u64) -> EngineEvent<DataKind> {
    let kind = s(ev, "kind");
    let at = tm(i(ev, "t"));
    let decoy = at + Duration::hours(5 + (salt % 3) as i64);
    let inst = (salt % world2::N_INST as u64) as usize;
    let ex = world2::EX_OF[inst];
    let account = |kind| EngineEvent::Account(AccountStreamEvent::Item(AccountEvent { exchange: ExchangeIndex(ex), kind }));
    match kind {
        "MarketItem" => EngineEvent::Market(MarketStreamEvent::Item(MarketEvent {
            time_exchange: at,
            time_received: decoy,
            exchange: world2::EXCHANGES[ex],
            instrument: InstrumentIndex(inst),
            kind: match (salt / 7) % 4 {
                0 => DataKind::Trade(PublicTrade { id: format!("m{salt}"), price: 10.0 + (salt % 5) as f64, amount: 1.0, side: Side::Buy }),
                1 => DataKind::OrderBookL1(OrderBookL1 {
                    last_update_time: decoy,
                    best_bid: Some(Level::new(dec(9), dec(1))),
                    best_ask: Some(Level::new(dec(11), dec(1))),
                }),
                2 => DataKind::Candle(Candle { close_time: decoy, open: 1.0, high: 2.0, low: 0.5, close: 1.5, volume: 3.0, trade_count: 2 }),
                _ => DataKind::Liquidation(Liquidation { side: Side::Sell, price: 10.0, quantity: 1.0, time: decoy }),
            },
        })),
        "MarketReconnecting" => EngineEvent::Market(MarketStreamEvent::Reconnecting(world2::EXCHANGES[ex])),
        "AccountReconnecting" => EngineEvent::Account(AccountStreamEvent::Reconnecting(world2::EXCHANGES[ex])),
        "Snapshot" => {
            let items = ev["items"].as_array().expect("items");
            let mut balances = vec![];
            let mut orders: Vec<Ord_> = vec![];
            for (n, it) in items.iter().enumerate() {
                let at = tm(i(it, "t"));
                match s(it, "kind") {
                    "Balance" => balances.push(balance(at, ex, salt + n as u64)),
                    k => orders.push(order(k, at, inst, salt + n as u64)),
                }
            }
            // the orders in one or in several instrument entries of the exchange; entries without orders beside them
            let insts: Vec<usize> = (0..world2::N_INST).filter(|n| world2::EX_OF[*n] == ex).collect();
            let mut instruments: Vec<InstrumentAccountSnapshot> = vec![];
            if salt % 2 == 0 {
                instruments.push(InstrumentAccountSnapshot { instrument: InstrumentIndex(inst), orders });
                if salt % 4 == 0 && insts.len() > 1 {
                    let other = insts[(insts.iter().position(|x| *x == inst).unwrap() + 1) % insts.len()];
                    instruments.insert(0, InstrumentAccountSnapshot { instrument: InstrumentIndex(other), orders: vec![] });
                }
            } else {
                for (n, mut o) in orders.into_iter().enumerate() {
                    let at_inst = insts[(n + salt as usize) % insts.len()];
                    o.key.instrument = InstrumentIndex(at_inst);
                    instruments.push(InstrumentAccountSnapshot { instrument: InstrumentIndex(at_inst), orders: vec![o] });
                }
            }
            account(AccountEventKind::Snapshot(AccountSnapshot { exchange: ExchangeIndex(ex), balances, instruments }))
        }
        "Balance" => account(AccountEventKind::BalanceSnapshot(Snapshot(balance(at, ex, salt)))),
        k if k.starts_with("Order") => account(AccountEventKind::OrderSnapshot(Snapshot(order(k, at, inst, salt)))),
        "CancelOk" => account(AccountEventKind::OrderCancelled(OrderResponseCancel {
            key: key(inst, salt),
            state: Ok(Cancelled::new(OrderId::new("o1"), at)),
        })),
        "CancelErr" => account(AccountEventKind::OrderCancelled(OrderResponseCancel {
            key: key(inst, salt),
            state: Err(match (salt / 5) % 4 {
                0 => OrderError::Connectivity(ConnectivityError::Timeout),
                1 => OrderError::Rejected(ApiError::OrderAlreadyCancelled),
                2 => OrderError::Rejected(ApiError::OrderAlreadyFullyFilled),
                _ => OrderError::Rejected(ApiError::RateLimit),
            }),
        })),
        "Trade" => account(AccountEventKind::Trade(Trade {
            id: TradeId::new(format!("t{salt}")),
            order_id: OrderId::new("o1"),
            instrument: InstrumentIndex(inst),
            strategy: strategy_id(),
            time_exchange: at,
            side: if salt % 2 == 0 { Side::Buy } else { Side::Sell },
            price: dec(10 + (salt % 3) as i64),
            quantity: dec(1 + (salt % 2) as i64),
            fees: AssetFees::quote_fees(dec(0)),
        })),
        "Shutdown" => EngineEvent::shutdown(),
        "Command" => EngineEvent::Command(match (salt / 3) % 3 {
            0 => Command::CancelOrders(InstrumentFilter::None),
            1 => Command::ClosePositions(InstrumentFilter::None),
            _ => Command::SendCancelRequests(OneOrMany::One(OrderRequestCancel { key: key(inst, salt), state: RequestCancel { id: None } })),
        }),
        "TradingState" => EngineEvent::TradingStateUpdate(if salt % 2 == 0 { TradingState::Enabled } else { TradingState::Disabled }),
        k => usage(&format!("unknown event kind {k}")),
    }
}

// ------------------------------------------------------------------------------------------
// hosts
// ------------------------------------------------------------------------------------------
type SysEng = Engine<HistoricalClock, world2::State, MultiExchangeTxMap, DefaultStrategy<world2::State>, DefaultRiskManager<world2::State>>;

enum Host {
    Bare(HistoricalClock),
    Eng(Box<Eng>),
    Sys(Box<SysEng>),
}

/// which host a new handle gets: 0 bare, 1 engine (Engine::new), 2 system (SystemBuilder::build)
const VIAS: [&str; 3] = ["bare", "engine", "system"];

/// one reading: (source, value, wall before, wall after)
type Reading = (&'static str, DateTime<Utc>, DateTime<Utc>, DateTime<Utc>);

fn engine_parts() -> (world2::State, barter::engine::execution_tx::MultiExchangeTxMap<FaultyTx>, ScriptStrategy, ScriptRisk) {
    let links = Links::new();
    (
        world2::engine_state(TradingState::Disabled),
        links.tx_map(&vec!["healthy".to_string(); world2::EXCHANGES.len()]),
        ScriptStrategy { id: strategy_id(), script: Arc::new(Mutex::new(Script::default())), fresh_close_cids: None },
        ScriptRisk::default(),
    )
}

impl Host {
    /// host `clock` (bare or inside a new real Engine); the engine reads its clock once at construction
    /// (`meta.time_start`): returned as a reading
    fn install(clock: HistoricalClock, kind: usize) -> (Host, Vec<Reading>) {
        match kind {
            0 => (Host::Bare(clock), vec![]),
            1 => {
                let (state, txs, strategy, risk) = engine_parts();
                let w0 = Utc::now();
                let e: Eng = Engine::new(clock, state, txs, strategy, risk);
                let w1 = Utc::now();
                let start = e.meta.time_start;
                (Host::Eng(Box::new(e)), vec![("engine.meta.time_start", start, w0, w1)])
            }
            _ => {
                let instruments = world2::instruments();
                let args = SystemArgs::new(
                    &instruments,
                    vec![],
                    clock,
                    DefaultStrategy::<world2::State>::default(),
                    DefaultRiskManager::<world2::State>::default(),
                    futures::stream::empty::<MarketStreamEvent<InstrumentIndex, DataKind>>(),
                    DefaultGlobalData::default(),
                    DefaultInstrumentMarketData::default,
                );
                let funds = Balance::new(dec(50), dec(50));
                let builder = SystemBuilder::new(args).balances([(world2::EXCHANGES[0], "btc", funds), (world2::EXCHANGES[1], "usdt", funds)]);
                let w0 = Utc::now();
                let build = builder.build::<EngineEvent<DataKind>, DefaultInstrumentMarketData>().unwrap_or_else(|e| usage(&format!("system build: {e:?}")));
                let w1 = Utc::now();
                let e: SysEng = build.engine;
                world2::assert_layout(&e.state);
                let mut readings = vec![("engine.meta.time_start", e.meta.time_start, w0, w1)];
                // every balance the builder seeded carries the clock's reading at build
                for a in e.state.assets.0.values() {
                    if let Some(b) = a.balance.as_ref() {
                        if b.value.total == dec(50) {
                            readings.push(("system.seeded-balance.time", b.time, w0, w1));
                        }
                    }
                }
                if readings.len() != 3 {
                    usage("system build: the two seeded balances were not found in the engine state");
                }
                (Host::Sys(Box::new(e)), readings)
            }
        }
    }
    fn clock(&self) -> &HistoricalClock {
        match self {
            Host::Bare(c) => c,
            Host::Eng(e) => &e.clock,
            Host::Sys(e) => &e.clock,
        }
    }
    fn via(&self) -> &'static str {
        match self {
            Host::Bare(_) => VIAS[0],
            Host::Eng(_) => VIAS[1],
            Host::Sys(_) => VIAS[2],
        }
    }
    /// process one event; returns the wall-clock bracket of the call and, for an engine, the audit tick's time
    fn process(&mut self, ev: EngineEvent<DataKind>) -> Result<(DateTime<Utc>, DateTime<Utc>, Option<DateTime<Utc>>), String> {
        match self {
            Host::Bare(c) => catch(|| {
                let w0 = Utc::now();
                c.process(&ev);
                let w1 = Utc::now();
                (w0, w1, None)
            }),
            Host::Eng(e) => catch(|| {
                let w0 = Utc::now();
                let tick = process_with_audit(&mut **e, ev);
                let w1 = Utc::now();
                (w0, w1, Some(tick.context.time))
            }),
            Host::Sys(e) => catch(|| {
                let w0 = Utc::now();
                let tick = process_with_audit(&mut **e, ev);
                let w1 = Utc::now();
                (w0, w1, Some(tick.context.time))
            }),
        }
    }
    fn sources(&self) -> &'static [&'static str] {
        match self {
            Host::Bare(_) => &["clock.time"],
            Host::Eng(_) | Host::Sys(_) => &["engine.clock.time", "engine.time", "summary.time_engine_now"],
        }
    }
    fn read(&self, src: &'static str) -> Result<Reading, String> {
        catch(|| {
            let r0 = Utc::now();
            let v = match (self, src) {
                (Host::Bare(c), _) => c.time(),
                (Host::Eng(e), "engine.clock.time") => e.clock.time(),
                (Host::Eng(e), "engine.time") => e.time(),
                (Host::Eng(e), _) => e.trading_summary_generator(Decimal::ZERO).time_engine_now,
                (Host::Sys(e), "engine.clock.time") => e.clock.time(),
                (Host::Sys(e), "engine.time") => e.time(),
                (Host::Sys(e), _) => e.trading_summary_generator(Decimal::ZERO).time_engine_now,
            };
            let r1 = Utc::now();
            (src, v, r0, r1)
        })
    }
    /// direct fact: the summary's session start is the engine's own start reading
    fn summary_start_is_engine_start(&self) -> bool {
        match self {
            Host::Bare(_) => true,
            Host::Eng(e) => e.trading_summary_generator(Decimal::ZERO).time_engine_start == e.meta.time_start,
            Host::Sys(e) => e.trading_summary_generator(Decimal::ZERO).time_engine_start == e.meta.time_start,
        }
    }
}

fn ns(d: Duration) -> i64 {
    d.num_nanoseconds().unwrap_or(i64::MAX)
}

// ------------------------------------------------------------------------------------------
// spec -> impl
// ------------------------------------------------------------------------------------------
/// specification time t -> instant: hours apart, with microseconds (as venues state them)
fn tm_replay(t: i64) -> DateTime<Utc> {
    time(0) + Duration::hours(t) + Duration::microseconds(137 + 3 * t)
}

const SLACK_NS: i64 = 250_000; // wall-clock disturbances below this are absorbed; above DISTURB_NS the scenario is re-run
const DISTURB_NS: i64 = 200_000;

struct Obj {
    generation: i64,
    w0: DateTime<Utc>,
    w1: DateTime<Utc>,
}

/// Ok(counters) | Err((step, error, signature parts))
fn replay_one(scn: &Value, n: usize, tick: std::time::Duration, cov: &mut HashMap<String, u64>) -> Result<bool, (usize, String, Value)> {
    let steps = scn["steps"].as_array().expect("steps");
    let mut hosts: HashMap<i64, Host> = HashMap::new();
    let mut objs: HashMap<i64, Obj> = HashMap::new();
    let (u0, i0) = (Utc::now(), Instant::now());
    let mut disturbed = false;
    for (k, st) in steps.iter().enumerate() {
        let step = &st["step"];
        let (a, h, g) = (s(step, "a"), i(step, "h"), i(step, "g"));
        let salt = (n * 131 + k * 17) as u64;
        let fail = |e: String, src: &str, dir: &str| (k + 1, e, json!({"a": a, "kind": s(&step["ev"], "kind"), "rel": st["rel"], "src": src, "dir": dir}));
        let mut pending: Vec<(i64, Reading)> = vec![];
        // ---- the call
        let (w0, w1) = match a {
            "New" => {
                let seed = tm_replay(i(step, "n"));
                let w0 = Utc::now();
                let c = HistoricalClock::new(seed);
                let w1 = Utc::now();
                let (host, start) = Host::install(c, (n + h as usize) % 3);
                *cov.entry(format!("new:{}", host.via())).or_default() += 1;
                hosts.insert(h, host);
                pending.extend(start.into_iter().map(|r| (h, r)));
                (w0, w1)
            }
            "Clone" => {
                let c = hosts.get(&h).ok_or_else(|| fail("tool: clone of an unknown handle".into(), "-", "tool"))?.clock().clone();
                let (host, start) = Host::install(c, (n + k + g as usize) % 3);
                *cov.entry(format!("clone:{}->{}", hosts[&h].via(), host.via())).or_default() += 1;
                hosts.insert(g, host);
                pending.extend(start.into_iter().map(|r| (g, r)));
                let w = Utc::now();
                (w, w)
            }
            "Process" => {
                let ev = make_event(&step["ev"], &tm_replay, salt);
                let host = hosts.get_mut(&h).ok_or_else(|| fail("tool: process through an unknown handle".into(), "-", "tool"))?;
                *cov.entry(format!("process:{}:{}:{}", host.via(), s(&step["ev"], "kind"), st["rel"].as_str().unwrap_or("-"))).or_default() += 1;
                let (w0, w1, tick_time) = host.process(ev).map_err(|p| fail(format!("panic in process: {p}"), "process", "panic"))?;
                pending.extend(tick_time.map(|t| (h, ("audit.tick.context.time", t, w0, w1))));
                (w0, w1)
            }
            "WallAdvance" => {
                std::thread::sleep(tick * i(step, "n") as u32);
                let w = Utc::now();
                (w, w)
            }
            x => usage(&format!("unknown step {x}")),
        };
        // ---- what the specification expects of every handle after the step
        let exp = st["exp"].as_array().expect("exp");
        for (hi, e) in exp.iter().enumerate() {
            let (h2, o) = (hi as i64 + 1, i(e, "o"));
            if (o != 0) != hosts.contains_key(&h2) {
                return Err(fail(format!("tool: handle {h2} in use in the specification: {}, in the harness: {}", o != 0, hosts.contains_key(&h2)), "-", "tool"));
            }
            if o == 0 {
                continue;
            }
            let generation = i(e, "gen");
            match objs.get_mut(&o) {
                Some(ob) if ob.generation == generation => {}
                Some(ob) => *ob = Obj { generation, w0, w1 },
                None => {
                    objs.insert(o, Obj { generation, w0, w1 });
                }
            }
        }
        // ---- readings: those taken inside the call, then every source of every handle
        for (h2, host) in hosts.iter() {
            for src in host.sources() {
                pending.push((*h2, host.read(src).map_err(|p| fail(format!("panic in {src}: {p}"), src, "panic"))?));
            }
            if !host.summary_start_is_engine_start() {
                return Err(fail(format!("handle {h2}: the summary generator's time_engine_start is not the engine's meta.time_start"), "summary.time_engine_start", "start"));
            }
        }
        for (h2, (src, v, r0, r1)) in pending {
            let e = &exp[h2 as usize - 1];
            let ob = &objs[&i(e, "o")];
            let ex = tm_replay(i(e, "ex"));
            let got = ns(v - ex);
            // elapsed part: at least the wall time between the end of the restarting call and the start of the read (and at
            // least the ticks the specification counts: WallAdvance sleeps at least that long), at most the wall time
            // between the start of the restarting call and the end of the read
            let spec_ticks = i(e, "time") - i(e, "ex");
            let lo = ns(r0 - ob.w1).max(spec_ticks * tick.as_nanos() as i64).max(0) - SLACK_NS;
            let hi = ns(r1 - ob.w0) + SLACK_NS;
            *cov.entry(format!("read:{src}")).or_default() += 1;
            if got < 0 || got < lo || got > hi {
                if (ns(Utc::now() - u0) - i0.elapsed().as_nanos() as i64).abs() > DISTURB_NS {
                    disturbed = true;
                    break;
                }
                let dir = if got < 0 { "below-exchange-time" } else if got > hi { "ahead" } else { "behind" };
                return Err(fail(
                    format!(
                        "handle {h2} (object {}, {}) read through {src}: {v:?} = exchange time {} h {:+.6} ms; the specification holds exchange time {} h (restart count {}) and the measured elapsed part lies in [{:.6}, {:.6}] ms",
                        i(e, "o"), hosts[&h2].via(), i(e, "ex"), got as f64 / 1e6, i(e, "ex"), i(e, "gen"), (lo + SLACK_NS) as f64 / 1e6, (hi - SLACK_NS) as f64 / 1e6
                    ),
                    src,
                    dir,
                ));
            }
        }
        if disturbed || (ns(Utc::now() - u0) - i0.elapsed().as_nanos() as i64).abs() > DISTURB_NS {
            return Ok(false);
        }
    }
    Ok(true)
}

fn cmd_run(args: &Args) {
    let scns = read_ndjson(args.req("scenarios"));
    let mut out = Out::create(args.req("results"));
    let tick = std::time::Duration::from_micros(args.u64("tick-us", 1500));
    let mut cov: HashMap<String, u64> = HashMap::new();
    let (mut failed, mut unjudged, mut steps) = (0, 0, 0);
    for (n, scn) in scns.iter().enumerate() {
        let mut verdict = None;
        for _attempt in 0..4 {
            match replay_one(scn, n, tick, &mut cov) {
                Ok(true) => {
                    verdict = Some(json!({"scn": n, "ok": true}));
                    break;
                }
                Ok(false) => continue, // the machine's clock was disturbed (stepped) during the scenario: measure again
                Err((step, error, sig)) => {
                    verdict = Some(json!({"scn": n, "ok": false, "step": step, "error": error, "sig": sig, "event": scn["steps"][step - 1]["step"]}));
                    break;
                }
            }
        }
        steps += scn["steps"].as_array().map(|a| a.len()).unwrap_or(0);
        match verdict {
            Some(v) => {
                if v["ok"] == json!(false) {
                    failed += 1;
                }
                out.line(&v);
            }
            None => {
                unjudged += 1;
                out.line(&json!({"scn": n, "ok": true, "unjudged": true}));
            }
        }
    }
    out.finish();
    println!("{}", json!({"scenarios": scns.len(), "steps": steps, "failed": failed, "unjudged": unjudged, "covered": cov}));
}

// ------------------------------------------------------------------------------------------
// impl -> spec
// ------------------------------------------------------------------------------------------
struct Rec {
    out: Out,
    base: DateTime<Utc>, // millisecond aligned start of the recording
    cov: HashMap<String, u64>,
    seg: Vec<Value>, // the lines of the segment being recorded (written when the segment is complete and undisturbed)
}

impl Rec {
    fn wall(&self, t: DateTime<Utc>) -> i64 {
        (t - self.base).num_milliseconds() // base is aligned and t >= base: this is the floor
    }
    fn line(&mut self, a: &str, h: i64, g: i64, n: i64, ev: &Value, lo: DateTime<Utc>, hi: DateTime<Utc>, v: i64, src: &str, via: &str) {
        let l = json!({"a": a, "h": h, "g": g, "n": n, "ev": ev, "lo": self.wall(lo), "hi": self.wall(hi), "v": v, "src": src, "via": via});
        self.seg.push(l);
    }
    fn flush(&mut self, keep: bool) {
        for l in std::mem::take(&mut self.seg) {
            if keep {
                self.out.line(&l);
            }
        }
    }
    fn read_line(&mut self, h: i64, r: Reading, via: &str) {
        let (src, v, r0, r1) = r;
        // floor to whole milliseconds from the harness epoch
        let ms = (v - time(0)).num_microseconds().unwrap_or(i64::MAX).div_euclid(1000);
        *self.cov.entry(format!("read:{src}")).or_default() += 1;
        self.line("Read", h, 0, 0, &no_event(), r0, r1, ms, src, via);
    }
    fn anomaly(&mut self, what: String) {
        self.seg.push(json!({"a": "Anomaly", "anomaly": what}));
    }
}

fn no_event() -> Value {
    json!({"kind": "-", "t": 0, "items": []})
}

fn random_event(rng: &mut StdRng, pick_t: &mut dyn FnMut(&mut StdRng) -> i64) -> Value {
    match rng.random_range(0..10) {
        0..=4 => json!({"kind": TIMED[rng.random_range(0..TIMED.len())], "t": pick_t(rng), "items": []}),
        5..=6 => json!({"kind": UNTIMED[rng.random_range(0..UNTIMED.len())], "t": 0, "items": []}),
        _ => {
            let n = rng.random_range(0..4);
            let items: Vec<Value> = (0..n)
                .map(|_| {
                    let k = ITEM_KINDS[rng.random_range(0..ITEM_KINDS.len())];
                    let timed = TIMED.contains(&k);
                    json!({"kind": k, "t": if timed { pick_t(rng) } else { 0 }})
                })
                .collect();
            json!({"kind": "Snapshot", "t": 0, "items": items})
        }
    }
}

fn cmd_random(args: &Args) {
    let mut rng = rng(args.u64("seed", 1));
    let segments = args.usize("segments", 40);
    let ops = args.usize("ops", 40);
    let max_handles = 6i64;
    let now = Utc::now();
    let base = now - Duration::nanoseconds(now.timestamp_subsec_nanos() as i64 % 1_000_000) - Duration::milliseconds(1);
    let mut rec = Rec { out: Out::create(args.req("out")), base, cov: HashMap::new(), seg: vec![] };
    let (mut discarded, mut seg) = (0usize, 0usize);
    let tm = |t: i64| time_ms(t);
    let mut n_ops = 0usize;
    while seg < segments {
        let (u0, i0) = (Utc::now(), Instant::now());
        let w = Utc::now();
        rec.line("Reset", 0, 0, 0, &no_event(), w, w, 0, "-", "-");
        let mut hosts: HashMap<i64, Host> = HashMap::new();
        // exchange times of this segment: a grid 20 ms apart (offset per segment), so that equal and late times recur
        let off = 1000 + (seg as i64 % 50) * 1000;
        let mut used: Vec<i64> = vec![];
        let mut pick_t = move |rng: &mut StdRng| -> i64 {
            if !used.is_empty() && rng.random_range(0..10) < 4 {
                used[rng.random_range(0..used.len())] // a time seen before: equal to or older than the time held
            } else {
                let t = off + 20 * rng.random_range(0..40);
                used.push(t);
                t
            }
        };
        let mut aborted = false;
        for op in 0..ops {
            let salt = (seg * 1009 + op * 31) as u64 + rng.random_range(0..1000u64);
            let free: Vec<i64> = (1..=max_handles).filter(|h| !hosts.contains_key(h)).collect();
            let live: Vec<i64> = { let mut v: Vec<i64> = hosts.keys().copied().collect(); v.sort(); v };
            let roll = rng.random_range(0..100);
            let mut touched: Option<i64> = None;
            if live.is_empty() || (roll < 6 && !free.is_empty()) {
                // ---- New
                let h = free[rng.random_range(0..free.len())];
                let seed = pick_t(&mut rng);
                let w0 = Utc::now();
                let c = HistoricalClock::new(tm(seed));
                let w1 = Utc::now();
                let (host, start) = Host::install(c, rng.random_range(0..3));
                rec.line("New", h, 0, seed, &no_event(), w0, w1, 0, "-", host.via());
                *rec.cov.entry(format!("new:{}", host.via())).or_default() += 1;
                for r in start {
                    rec.read_line(h, r, host.via());
                }
                hosts.insert(h, host);
                touched = Some(h);
            } else if roll < 14 && !free.is_empty() {
                // ---- Clone
                let h = live[rng.random_range(0..live.len())];
                let g = free[rng.random_range(0..free.len())];
                let c = hosts[&h].clock().clone();
                let w = Utc::now();
                let (host, start) = Host::install(c, rng.random_range(0..3));
                rec.line("Clone", h, g, 0, &no_event(), w, w, 0, "-", host.via());
                *rec.cov.entry(format!("clone:{}->{}", hosts[&h].via(), host.via())).or_default() += 1;
                for r in start {
                    rec.read_line(g, r, host.via());
                }
                hosts.insert(g, host);
                touched = Some(g);
            } else if roll < 40 {
                // ---- let the wall clock run
                std::thread::sleep(std::time::Duration::from_micros(rng.random_range(1500..5000)));
                *rec.cov.entry("sleeps".into()).or_default() += 1;
            } else {
                // ---- Process
                let h = live[rng.random_range(0..live.len())];
                let ev = random_event(&mut rng, &mut pick_t);
                let real = make_event(&ev, &tm, salt);
                let host = hosts.get_mut(&h).unwrap();
                let via = host.via();
                *rec.cov.entry(format!("process:{}:{}", via, s(&ev, "kind"))).or_default() += 1;
                match host.process(real) {
                    Ok((w0, w1, tick)) => {
                        rec.line("Process", h, 0, 0, &ev, w0, w1, 0, "-", via);
                        if let Some(t) = tick {
                            rec.read_line(h, ("audit.tick.context.time", t, w0, w1), via);
                        }
                    }
                    Err(p) => {
                        rec.anomaly(format!("panic: processing {ev} through a {via} clock: {p}"));
                        aborted = true;
                    }
                }
                touched = Some(h);
            }
            n_ops += 1;
            if aborted {
                break;
            }
            // ---- readings: the handle just used (if any) and one other, one source each
            let live: Vec<i64> = { let mut v: Vec<i64> = hosts.keys().copied().collect(); v.sort(); v };
            let mut to_read: Vec<i64> = touched.into_iter().collect();
            if !live.is_empty() {
                let other = live[rng.random_range(0..live.len())];
                if !to_read.contains(&other) {
                    to_read.push(other);
                }
            }
            for h in to_read {
                let host = &hosts[&h];
                let srcs = host.sources();
                let src = srcs[rng.random_range(0..srcs.len())];
                match host.read(src) {
                    Ok(r) => rec.read_line(h, r, host.via()),
                    Err(p) => {
                        rec.anomaly(format!("panic: reading {src}: {p}"));
                        aborted = true;
                    }
                }
                if !host.summary_start_is_engine_start() {
                    rec.anomaly("summary-start: the summary generator's time_engine_start is not the engine's meta.time_start".into());
                    aborted = true;
                }
            }
            if aborted {
                break;
            }
        }
        // the machine's wall clock against the monotonic clock over the segment: a segment during which it stepped is
        // not a measurement (recorded again, a bounded number of times)
        let disturbed = (ns(Utc::now() - u0) - i0.elapsed().as_nanos() as i64).abs() > DISTURB_NS;
        if disturbed && !aborted && discarded < segments {
            discarded += 1;
            rec.flush(false);
            continue;
        }
        rec.flush(true);
        seg += 1;
    }
    let cov = std::mem::take(&mut rec.cov);
    let lines = rec.out.finish();
    println!("{}", json!({"lines": lines, "ops": n_ops, "segments": segments, "segments_discarded_wall_clock_disturbed": discarded, "covered": cov}));
}

fn main() {
    let args = Args::parse();
    match args.cmd.as_str() {
        "run" => cmd_run(&args),
        "random" => cmd_random(&args),
        c => usage(&format!("unknown command {c}")),
    }
}
