------------------------------ MODULE MC_Stats ------------------------------
(* Model constants of Stats for TLC (a .cfg file cannot write negative      *)
(* numbers, so the value sets are defined here and substituted with `<-`).  *)
EXTENDS Stats

PnLsQuick    == {-2, -1, 0, 1, 3}           \* returns {-2,-1,0,1,3}/10 with cost 10
ValsQuick    == {-3, -1, 0, 2, 1000}        \* repeats allowed, mixed magnitude
ValsThorough == {-3, -1, 0, 2, 7, 1000}
\* the ratio figures: exit-time increments in seconds (equal times; one second; exactly the custom
\* two-hour interval; more than a day; more than a year - so that scaling goes up, nowhere, down)
GapsQuick    == {0, 7200, 40000000}
GapsSmall    == {0, 7200}
PnLsRatio    == {-2, -1, 0, 1}              \* two different losses, break-even, the return 1/10 = rf
\* risk-free returns: none, one tenth (the return 1/10 exists: excess exactly zero), negative
RFsQuick     == {<<0, 1>>, <<1, 10>>, <<-1, 10>>}
RFsZero      == {<<0, 1>>}
=============================================================================
