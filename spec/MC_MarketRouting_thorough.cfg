SPECIFICATION Spec
CONSTANTS
  NMarkets = 5
  Conns <- Routes
  KeyOffs = {2}
  PRICE = {6, 10}
  AMOUNT = {5}
  TIME = {1}
  DupKinds = {0, 1, 2}
  MaxBatch = 1
INVARIANTS TypeOK KeysDistinct
PROPERTIES Attribution RejectUnsubscribed FieldsPreserved Quiet
CHECK_DEADLOCK FALSE
