"""C18 - reported drawdowns are the peak-to-trough declines of the value curve (spec/Drawdown.tla)."""
import json

import vlib
from props import stats_common as sc

MODULE = "Drawdown"
META = {
    "level_text": "reference-model enumeration + replay",
    "level_note": "TLC checks, on every curve of the bounded model, that the running generator equals the reference "
                  "peak-to-trough decomposition and the decomposition's own laws (classic max drawdown, recovery only by "
                  "exceeding the peak, one drawdown per running maximum); every curve is emitted with its reference "
                  "drawdowns and replayed into DrawdownGenerator / MaxDrawdownGenerator / MeanDrawdownGenerator and both "
                  "tear-sheet generators. Trusted: TLC, spec/Rational.tla, the projection functions in harness/src/stats_driver.rs (bins c16/c17/c18), the assumptions listed in the evidence file.",
    "technique": "TLC exhaustive + simulation (Pattern B: exact rationals replayed into the implementation)",
}
ASSUMPTIONS = [
    "the first value of a curve, hence every running maximum, is positive; later values may be zero or negative (depth may exceed 1); times are non-decreasing (equal consecutive timestamps are legitimate "
    "input, a drawdown may have zero duration)",
    "reset() of the tear sheet generators (instrument: reset(start time); asset: reset(first balance of the new session)) "
    "starts a new session: every figure reported afterwards is that of a freshly initialised generator fed the remainder only",
    "the generators are serialisable: a serde_json store/restore at any point (spec action Persist, a stutter) must show the same "
    "figures and leave every later figure unchanged",
    "reading the current drawdown (DrawdownGenerator::generate on the live object, any time, any number of times) must not "
    "change any later figure (ReadingIsPure); the tear sheets' own generate() folds into Max/Mean by design, so after a live "
    "tear-sheet read only the current drawdown / peak are still judged on that object",
    "generate() of a tear sheet is called once per behaviour (it folds the current drawdown into mean/max at every call): "
    "each prefix is judged on a clone of the generator",
    "several reported drawdowns of equal largest depth: any of them may be reported as the maximum",
    "mean duration is an integer number of milliseconds in the implementation: accepted within +- count ms of the exact mean",
    "drawdown depths: exact up to decimal rounding (1e-18 relative, vh::cmp::json_match)",
    "model time t is concretised as t * unit ms (unit in {1, 7, 1000, 86400000}), values as v * 10^e (e in {-6, 0, 6})",
]


def signature(r):
    return "%s:%s" % (r.get("mode", "?"), sc.field_of(r["error"]).replace(" ", "_"))


def judge(ctx, results, scns, label):
    for r in results:
        if r["ok"]:
            ctx.cov["traces_validated_against_impl"] += 1
            continue
        scn = scns[r["scn"]]
        ev = r.get("event", {})
        desc = "curve (t,v) %s [unit %s ms, values x1e%s; previous session before reset(): %s] in mode %s: at point #%d %s; shown before the point: %s [%s]" % (
            ev.get("curve"), r.get("variant", {}).get("unit_ms"), r.get("variant", {}).get("e10"), r.get("variant", {}).get("prelude_pts") or "none", r.get("mode"),
            r["step"] + 1, r["error"], json.dumps(r["pre"]), label)
        ctx.violation(signature(r), desc, sc.replay_object(scn, r, ctx.seed, mode=r.get("mode")))


def corrupt(scn):
    # pretend the first completed / current drawdown started one tick later
    for p in scn["pts"]:
        c = p["exp"]["cur"]
        if isinstance(c, dict):
            c["start"] += 1
            return
    raise vlib.ToolError("binding self-test: scenario without a drawdown")


def validate(ctx, trace_path, label):
    """impl -> spec: a recorded trace against Trace_Drawdown (the spec's own AddPoint + Conf)."""
    lines = ctx.read_trace(trace_path)
    clean = ctx.path("clean_%s.ndjson" % label)
    found, keep = ctx.screen_anomalies(lines, clean, lambda l: ("the call panicked: %s" % l["post"]["panic"]) if "panic" in l.get("post", {}) else None)
    for n, d, _ in found:
        seg = session_of(lines, n)
        ctx.violation("trace:%s:panic" % seg[0].get("mode"), "%s on curve %s [%s, line %d]" % (d, points_of(seg), label, n), trace_replay(seg))
    n, bad, _ = ctx.tlc_trace("Trace_" + MODULE, "Trace_Drawdown.cfg", clean)
    for b in bad:
        seg = session_of(keep, b)
        line = keep[b - 1]
        desc = "curve (t,v) %s in mode %s: after the last point the implementation shows %s, which is not the reference decomposition of the curve [%s, line %d]" % (
            points_of(seg), line.get("mode"), json.dumps(line["post"]), label, b)
        ctx.violation("trace:%s" % line.get("mode"), desc, trace_replay(seg))
    curves = sum(1 for l in keep if l.get("a") == "Reset")
    ctx.cov["traces_validated_against_impl"] += curves
    return keep


def session_of(lines, idx1):
    """the lines up to 1-based idx1 that the same implementation object has seen: back to the last Reset that
    created a FRESH generator (rs = 0); Resets with rs = 1 are calls of the public reset() on the live object"""
    start = idx1 - 1
    while start > 0 and not (lines[start].get("a") == "Reset" and lines[start].get("rs", 0) == 0):
        start -= 1
    return lines[start:idx1]


def points_of(seg):
    """[t, v] per point, [t, v, f] with f: 1 the current drawdown was read on the live generator after it,
    2 the generators were stored and restored after it, 3 both; "reset" = the public reset() was called"""
    pts = []
    for n, l in enumerate(seg):
        if l.get("a") == "AddPoint":
            pts.append([l["t"], l["v"]])
        elif l.get("a") in ("Read", "Persist") and pts and isinstance(pts[-1], list):
            f = (pts[-1][2] if len(pts[-1]) > 2 else 0) | (1 if l["a"] == "Read" else 2)
            pts[-1] = pts[-1][:2] + [f]
        elif l.get("a") == "Reset" and n > 0:
            pts.append("reset")
    return pts


def trace_replay(seg):
    return {"kind": "trace", "mode": seg[0].get("mode"), "init_ctor": seg[0].get("ic", 0), "points": points_of(seg)}


def selftest_trace(ctx, keep):
    """No vacuity in the impl -> spec direction: one logged figure is changed by hand; the line must be rejected."""
    lines = json.loads(json.dumps(keep[:300]))
    target = next((n for n, l in enumerate(lines, 1) if l["a"] == "AddPoint" and l["post"]["cur"]["has"]), None)
    if target is None:
        raise vlib.ToolError("trace self-test: no drawdown in the first 300 lines")
    lines[target - 1]["post"]["cur"]["start"] += 1
    p = ctx.path("selftest_trace.ndjson")
    with open(p, "w") as f:
        for l in lines:
            f.write(json.dumps(l) + "\n")
    _, bad, _ = ctx.tlc_trace("Trace_" + MODULE, "Trace_Drawdown.cfg", p)
    if target not in bad:
        raise vlib.ToolError("trace self-test: corrupted line %d was accepted by Trace_Drawdown (rejected: %s)" % (target, bad[:10]))
    ctx.cov.setdefault("binding_selftests", []).append({"trace": "cur.start + 1 at line %d" % target, "rejected_lines": bad[:10]})
    ctx.cov["tlc_runs"][-1]["selftest"] = True
    ctx.cov["trace_events_validated"] -= len(lines)


def check(ctx):
    ctx.assumptions += ASSUMPTIONS
    ctx.build("c18")
    ctx.tlc_actions(MODULE, "MC_Drawdown_small.cfg", ["AddPointAny", "ReadCurrentAny", "PersistAny", "ResetAny"])
    if ctx.quick:
        ctx.tlc_mc(MODULE, "MC_Drawdown.cfg", timeout=900, coverage=False)        # <= 4 points, irregular time steps
        ctx.tlc_mc(MODULE, "MC_Drawdown_long.cfg", timeout=900, coverage=False)   # all curves of <= 6 points over 1..4
    else:
        ctx.tlc_mc(MODULE, "MC_Drawdown_thorough.cfg", timeout=2400, coverage=False)       # <= 5 points over 1..5, irregular steps
        ctx.tlc_mc(MODULE, "MC_Drawdown_long_thorough.cfg", timeout=2400, coverage=False)  # all curves of <= 7 points over 1..4
    # every curve of the bounded model (equal neighbours, recovery exactly to the peak, ...)
    p_t, scn_t = ctx.tlc_gen("Gen_" + MODULE, "GenT_Drawdown.cfg" if ctx.quick else "GenT_Drawdown_thorough.cfg", "all.ndjson", timeout=900)
    # every short curve with equal consecutive timestamps allowed
    p_0, scn_0 = ctx.tlc_gen("Gen_" + MODULE, "GenT0_Drawdown.cfg" if ctx.quick else "GenT0_Drawdown_thorough.cfg", "all_eqt.ndjson", timeout=900)
    # longer random curves, wider values, irregular time steps
    p_r, scn_r = ctx.tlc_gen("Gen_" + MODULE, "GenR_Drawdown.cfg", "sim.ndjson", simulate=(500 if ctx.quick else 8000, 40), timeout=900)
    ctx.sample({"kind": "TLC enumerated curve with reference drawdowns per point", "scenario": scn_t[len(scn_t) // 3]})
    ctx.sample({"kind": "TLC simulated curve", "scenario": scn_r[0]})
    with_dd = next(s for s in scn_r if any(isinstance(p["exp"]["cur"], dict) for p in s["pts"]))
    sc.selftest_binding(ctx, "c18", with_dd, corrupt, "current")
    arms = {}
    for label, p, scns in (("enumerated", p_t, scn_t), ("enumerated-equal-times", p_0, scn_0), ("simulated", p_r, scn_r)):
        info, results = sc.run_replay(ctx, "c18", p, label)
        judge(ctx, results, scns, label)
        ctx.cov["scenarios_replayed"] += len(scns)
        for k, v in info.get("arm_hits", {}).items():
            arms[k] = arms.get(k, 0) + v
    # (runs cut short by a violation exercise fewer arms: vacuity is only judged on a clean run)
    if not ctx.violations and not all(arms.get(k) for k in ("point_completes_a_drawdown", "drawdown_in_progress", "max_tie", "live_read", "equal_consecutive_times", "decline_through_zero",
                                                            "store_restore", "reset")):
        raise vlib.ToolError("vacuous run: an arm of the drawdown decomposition was never exercised: %s" % arms)
    # impl -> spec: seeded random curves recorded from the implementation, validated by TLC
    out = ctx.path("trace_random.ndjson")
    ctx.harness("c18", "random", "--seed", ctx.seed, "--steps", 3000 if ctx.quick else 30000, "--out", out)
    keep = validate(ctx, out, "random")
    selftest_trace(ctx, keep)
    return ctx.finish(extra={"arm_hits": arms})


def replay(ctx, rp):
    ctx.build("c18")
    p = ctx.path("replay_scn.ndjson")
    if rp.get("kind") == "trace":
        with open(p, "w") as f:
            f.write(json.dumps(rp["points"]) + "\n")
        out = ctx.path("replay_trace.ndjson")
        ctx.harness("c18", "points", "--in", p, "--mode", rp["mode"], "--init_ctor", rp.get("init_ctor", 0), "--out", out)
        validate(ctx, out, "replay")
        return ctx.finish(write_evidence=False)
    with open(p, "w") as f:
        f.write(json.dumps(rp["scenario"]) + "\n")
    ctx.seed = rp.get("seed", ctx.seed)
    extra = ("--mode", rp["mode"]) if rp.get("mode") else ()
    _, results = sc.run_replay(ctx, "c18", p, "replay", extra)
    judge(ctx, results, [rp["scenario"]], "replay")
    return ctx.finish(write_evidence=False)
