SPECIFICATION Spec
CONSTANTS
  Times = {0}
  Prices = {1, 2}
  Qtys = {1, 2, 3}
  BalInit = {300, 600}
  FeePcts = {0, 50}
  Lats = {2}
  Sinces = {1}
  OpenCids = {"o1"}
  MaxTrades = 3
  ClockSlack = FALSE
  IdSlack = 0
INVARIANT Inv
PROPERTIES AcceptIff ExactDebit RejectPure FreshIdsStep OneFill Notif11 QueriesReflect ConfigFixed Clock
VIEW View
CHECK_DEADLOCK FALSE
