SPECIFICATION G16
CONSTANTS
  Instr = {"i0", "i3"}
  Asset = {"a0", "a5"}
  PnLs <- PnLsQuick
  Costs = {10}
  Bals = {5, 7}
  Vals = {}
  MaxClosed = 4
  MaxBal = 0
  MaxVals = 0
INVARIANT Emit16
CHECK_DEADLOCK FALSE
