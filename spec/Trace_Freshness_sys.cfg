SPECIFICATION TSpec
CONSTANTS
  ITEMS = {"bal_binance_spot_btc", "bal_binance_spot_eth", "bal_binance_spot_usdt", "bal_kraken_btc", "bal_kraken_eth", "bal_kraken_usdt"}
  TIMES = {1}
  VALUES = {1}
INVARIANT Done
POSTCONDITION Post
CHECK_DEADLOCK FALSE
