"""Shared orchestration of the statistics checks C16 / C17 / C18 (Pattern B of notes/HOWTO.md).

TLC emits behaviours that carry the batch / reference value of every reported figure after
every step; the harness (harness/src/stats_driver.rs through the thin bins c16, c17, c18)
replays them into the real running accumulators and writes one result line per scenario run.
"""
import copy
import json
import re

import vlib


def run_replay(ctx, binname, scn_path, label, extra=()):
    """harness replay of one scenario file -> (summary info, result lines)"""
    out = ctx.path("results_%s.ndjson" % label.replace("/", "_"))
    info = ctx.harness(binname, "replay", "--scenarios", scn_path, "--out", out, "--seed", ctx.seed, *extra)
    if info.get("tool_errors"):
        raise vlib.ToolError("harness %s could not realise planned inputs (not a verdict on this property): %s"
                             % (binname, info["tool_errors"][:3]))
    return info, ctx.read_results(out)


def replay_object(scn, r, seed, **kw):
    """enough to re-run exactly the failing scenario run: the scenario with its variant pinned"""
    s = copy.deepcopy(scn)
    s["vidx"] = r.get("vidx", r["scn"])
    if "variant" in r:
        s["variant"] = r["variant"]
    rp = {"scenario": s, "seed": seed}
    rp.update(kw)
    return rp


def kind(tok):
    tok = tok.strip().strip('"')
    if tok in ("none", "MAX", "MIN"):
        return tok
    if re.match(r"^-?[\d./e]+$", tok):
        return "num"
    return "other"


def field_of(error):
    """'summary.instruments.i0.win_rate: expected ..' -> 'win_rate' ; keys such as i0 / a3 dropped"""
    path = error.split(":")[0].strip()
    parts = [p for p in re.split(r"[.\[]", path) if p and not re.match(r"^(i\d|a\d|\d+\]?|summary|instruments)$", p)]
    return ".".join(parts) or path


def selftest_binding(ctx, binname, scn, corrupt, must_mention, extra=()):
    """No vacuity: one expectation of a real scenario is corrupted by hand; the harness must reject
    the run on that field (a binding that accepts it compares nothing)."""
    bad = copy.deepcopy(scn)
    corrupt(bad)
    p = ctx.path("selftest_%s.ndjson" % binname)
    with open(p, "w") as f:
        f.write(json.dumps(bad) + "\n")
    _, res = run_replay(ctx, binname, p, "selftest_" + binname, extra)
    # (on an implementation that is itself wrong the run may be rejected earlier for another field:
    #  that is still a rejection - the verdict on the implementation comes from the real runs)
    hit = [r for r in res if not r["ok"]]
    if not hit:
        raise vlib.ToolError("binding self-test: a corrupted expectation (%s) was NOT rejected by %s" % (must_mention, binname))
    ctx.cov.setdefault("binding_selftests", []).append({"bin": binname, "corrupted": must_mention,
                                                        "rejected_on_that_field": any(must_mention in r["error"] for r in hit),
                                                        "rejected_with": hit[0]["error"][:200]})
    # the self-test run is not evidence about the implementation
    ctx.cov["harness_runs"][-1]["selftest"] = True
