SPECIFICATION FairSpec
CONSTANTS
  REQ = {1, 2}
  T = 0
  ACCEPT = {0, 1}
  DELAY = {0, 1, 2}
  EX = 0
  INST = {0}
  SIDE = {"buy"}
  PRICE = {10}
  QTY = {1}
  BUNDLE = {"lim"}
  STALL = {2}
  LateResponseOK = TRUE
  NoTimeout = FALSE
INVARIANTS TypeOK AtMostOne ExactlyOnce Kind Attribution
PROPERTIES Answers Stable
CHECK_DEADLOCK FALSE
