"""C16 - tear-sheet PnL, win rate and profit factor match the closed positions (spec/Stats.tla)."""
import json
import re

import vlib
from props import stats_common as sc

MODULE = "Stats"
META = {
    "level_text": "reference-model enumeration + replay",
    "level_note": "TLC checks the batch definitions of the tear sheet (win-rate / profit-factor conventions, order-freedom, "
                  "per-key isolation, accumulators+calculators = batch) on every bounded history and emits every history "
                  "with the exact summary after every event; they are replayed into TearSheetGenerator, "
                  "TradingSummaryGenerator and, as fills, into a real Engine whose trading summary is generated. Trusted: TLC, spec/Rational.tla, the projection functions in harness/src/stats_driver.rs (bins c16/c17/c18), the assumptions listed in the evidence file.",
    "technique": "TLC exhaustive + simulation (Pattern B: exact rationals replayed into the implementation)",
}
ASSUMPTIONS = [
    "a closed position is (pnl, cost = price_entry_average * quantity_abs_max > 0); the harness realises it with varying "
    "side, price x quantity factorisation, fees, partial closes and scale 10^e (e in {-3,0,3}); returns are scale-free",
    "profit factor conventions as documented on ProfitFactor::calculate: none when gross profit and gross loss are both "
    "zero, Decimal::MAX with profits and no losses, Decimal::MIN with losses and no profits",
    "win rate / profit factor compared up to decimal rounding (1e-18 relative); PnL exactly representable",
    "instrument sheets are compared on pnl, win_rate, profit_factor; asset sheets on balance_end (drawdown fields: C18; "
    "Sharpe/Sortino/Calmar/rate of return: out of scope)",
    "engine mode: consecutive closed positions of one instrument are chained, where the numbers allow it exactly, by CROSSING "
    "fills (the closing fill is over-sized and opens the next position on the other side: long->short->long..); the position "
    "closed by such a fill belongs to the instrument's history like any other",
    "direct / summary modes: exit times are non-decreasing per instrument only - across instruments they may be equal or "
    "reported late (behind another key's exit, a balance update or TradingSummaryGenerator::update_time_now)",
    "the tear-sheet generators are serialisable: a serde_json store/restore of every running generator between two events "
    "(spec action Persist, a stutter) must leave the generated summary, now and later, unchanged",
    "engine mode: producing the closed position from fills is C02's subject - a deviation there is a tool error, not a C16 verdict",
]
MODES = ("direct", "summary", "engine")


def signature(r):
    m = re.search(r"expected (.+?), got (.+)$", r["error"])
    if not m:
        return "%s" % sc.field_of(r["error"]).replace(" ", "_")
    return "%s:%s->%s" % (sc.field_of(r["error"]), sc.kind(m.group(1).split(" ")[0]), sc.kind(m.group(2).split(" ")[0]))


def history(scn, upto):
    h = {}
    for e in scn["evs"][:upto + 1]:
        if e["a"] == "AddClosed":
            h.setdefault(e["k"], []).append("%+d/%d" % (e["x"], e["y"]))
        elif e["a"] == "AddBalance":
            h.setdefault(e["k"], []).append(e["x"])
    return h


def judge(ctx, results, scns, label, counts):
    for r in results:
        if r["ok"]:
            ctx.cov["traces_validated_against_impl"] += 1
            continue
        scn = scns[r["scn"]]
        sig = signature(r)
        counts.setdefault(sig, {}).setdefault(r.get("mode"), 0)
        counts[sig][r.get("mode")] += 1
        desc = "histories (pnl/cost per closed position, balances) %s: after event #%d %s the generated summary has %s; summary before: %s [mode %s, scale 1e%s, %s]" % (
            json.dumps(history(scn, r["step"])), r["step"] + 1, json.dumps(r["event"]), r["error"],
            json.dumps(r["pre"].get("instruments") if isinstance(r["pre"], dict) else r["pre"]),
            r.get("mode"), r.get("variant", {}).get("e10"), label)
        ctx.violation(sig, desc, sc.replay_object(scn, r, ctx.seed, mode=r.get("mode")))


def corrupt(scn):
    e = scn["evs"][0]["exp"]["instruments"]
    k = sorted(e)[0]
    e[k]["pnl"]["n"] += e[k]["pnl"]["d"]            # PnL + 1


def check(ctx):
    ctx.assumptions += ASSUMPTIONS
    ctx.build("c16")
    # (-coverage makes TLC several times slower here: vacuity is checked on the small configuration)
    ctx.tlc_actions("MC_" + MODULE, "MC_Stats_C16_small.cfg", ["AddClosedAny", "AddBalanceAny", "GenerateAny", "PersistAny"])
    ctx.tlc_mc("MC_" + MODULE, "MC_Stats_C16.cfg" if ctx.quick else "MC_Stats_C16_thorough.cfg", timeout=2400, coverage=False)
    gens = [("enumerated", "GenT_Stats_C16.cfg", None)]
    if not ctx.quick:
        gens.append(("enumerated-long", "GenT_Stats_C16_thorough.cfg", None))
    gens.append(("simulated", "GenR_Stats_C16.cfg", (400 if ctx.quick else 5000, 40)))
    files = []
    for label, cfg, sim in gens:
        p, scns = ctx.tlc_gen("Gen_" + MODULE, cfg, label + ".ndjson", simulate=sim, timeout=1200)
        files.append((label, p, scns))
    ctx.sample({"kind": "TLC enumerated history with the exact summary after every event", "scenario": files[0][2][len(files[0][2]) // 2]})
    ctx.sample({"kind": "TLC simulated behaviour (closed positions, balances, Generate)", "scenario": files[-1][2][0]})
    sc.selftest_binding(ctx, "c16", files[0][2][0], corrupt, ".pnl", ("--mode", "direct"))
    counts, arms = {}, {}
    for mode in MODES:
        for label, p, scns in files:
            info, results = sc.run_replay(ctx, "c16", p, "%s_%s" % (label, mode), ("--mode", mode))
            judge(ctx, results, scns, label, counts)
            ctx.cov["scenarios_replayed"] += len(scns)
            for k, v in info.get("arm_hits", {}).items():
                arms[k] = arms.get(k, 0) + v
    # (runs cut short by a violation exercise fewer arms: vacuity is only judged on a clean run)
    if not ctx.violations and not all(arms.get(k) for k in ("win", "loss", "break_even", "balance", "generate_event", "keyed_by_name",
                                                            "crossing_fill", "equal_exit_time", "late_reported_exit", "clock_update", "store_restore")):
        raise vlib.ToolError("vacuous run: a kind of event was never replayed: %s" % arms)
    return ctx.finish(extra={"arm_hits": arms, "violations_by_signature_and_mode": counts})


def replay(ctx, rp):
    ctx.build("c16")
    p = ctx.path("replay_scn.ndjson")
    with open(p, "w") as f:
        f.write(json.dumps(rp["scenario"]) + "\n")
    ctx.seed = rp.get("seed", ctx.seed)
    _, results = sc.run_replay(ctx, "c16", p, "replay", ("--mode", rp.get("mode", "direct")))
    judge(ctx, results, [rp["scenario"]], "replay", {})
    return ctx.finish(write_evidence=False)
