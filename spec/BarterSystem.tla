---------------------------- MODULE BarterSystem ----------------------------
(***************************************************************************)
(* Composition of the components specified separately:                      *)
(*   Engine (order lifecycle of OrderLifecycle.tla, on kinds)               *)
(*     --ExecutionRequest-->  request channel of one exchange               *)
(*     --> ExecutionManager (ExecManager.tla: accept, response or timeout,  *)
(*         exactly one account event per accepted request)                  *)
(*     --AccountEvent--> feed FIFO --> Engine::process                      *)
(* plus unsolicited exchange reports (fills / cancellations by the venue).  *)
(*                                                                         *)
(* Purpose: the closing sentence of C07 - "an order the engine shows as in  *)
(* flight is always eventually resolved" - is a LIVENESS property of the    *)
(* composition: C03 puts the marker, C07 answers every request exactly      *)
(* once, C01 removes the marker when the answer is processed.  Checked by   *)
(* TLC under weak fairness of the manager, the client/timeout race and the  *)
(* engine loop.                                                             *)
(*                                                                         *)
(* Code: barter/src/engine/mod.rs (process), action/send_requests.rs,       *)
(* execution/manager.rs (run: select over request stream / in-flight        *)
(* futures with tokio::time::timeout), engine/state/order/mod.rs.           *)
(***************************************************************************)
EXTENDS Integers, Sequences, FiniteSets, TLC

CONSTANTS CID,        \* client order ids
          MaxSends    \* bound on requests the engine may send per id (keeps the model finite)

VARIABLES orders,     \* [CID -> {"U","OIF","Open","CIFn","CIFo"}]   engine view
          chan,       \* request channel engine -> execution manager (FIFO)
          pending,    \* requests accepted by the manager, awaiting response or timeout
          feed,       \* account events on their way to the engine (FIFO)
          sends,      \* [CID -> Nat] requests sent so far per id
          answered    \* ghost: number of account events produced per request serial

vars == <<orders, chan, pending, feed, sends, answered>>

Req(k, c, n) == [k |-> k, c |-> c, n |-> n]              \* n = serial number of the request
InFlight(c) == orders[c] \in {"OIF", "CIFn", "CIFo"}

Init == /\ orders = [c \in CID |-> "U"]
        /\ chan = <<>> /\ pending = {} /\ feed = <<>>
        /\ sends = [c \in CID |-> 0]
        /\ answered = [r \in {} |-> 0]

Serial(c) == sends[c] + 1

(* ---- engine: strategy / commands send requests and mark them in flight (C03) ---- *)
EngineSendOpen(c) ==
  /\ orders[c] = "U" /\ sends[c] < MaxSends
  /\ orders' = [orders EXCEPT ![c] = "OIF"]
  /\ chan' = Append(chan, Req("open", c, Serial(c)))
  /\ sends' = [sends EXCEPT ![c] = @ + 1]
  /\ UNCHANGED <<pending, feed, answered>>

\* (a cancel may be sent for an order that has meanwhile been resolved: the request still travels,
\*  the engine's view of an untracked or already-cancelling order does not change)
EngineSendCancel(c) ==
  /\ sends[c] > 0 /\ sends[c] < MaxSends
  /\ orders' = [orders EXCEPT ![c] = CASE @ = "OIF" -> "CIFn" [] @ = "Open" -> "CIFo" [] OTHER -> @]
  /\ chan' = Append(chan, Req("cancel", c, Serial(c)))
  /\ sends' = [sends EXCEPT ![c] = @ + 1]
  /\ UNCHANGED <<pending, feed, answered>>

(* ---- execution manager (C07): accept, then exactly one of response / timeout ---- *)
MgrAccept ==
  /\ chan # <<>>
  /\ pending' = pending \cup {Head(chan)}
  /\ chan' = Tail(chan)
  /\ UNCHANGED <<orders, feed, sends, answered>>

Emit(r, ev) == /\ pending' = pending \ {r}
               /\ feed' = Append(feed, ev)
               /\ answered' = (r :> 1) @@ answered
               /\ UNCHANGED <<orders, chan, sends>>

\* the client's own answer: open -> open on the book / filled / rejected ; cancel -> ok / err
ClientResponds(r) ==
  /\ r \in pending
  /\ \E res \in (IF r.k = "open" THEN {"open_ok", "open_filled", "open_failed"} ELSE {"cancel_ok", "cancel_err"}) :
        Emit(r, [c |-> r.c, kind |-> res])
\* no answer before the deadline: a timeout failure
TimeoutFires(r) ==
  /\ r \in pending
  /\ Emit(r, [c |-> r.c, kind |-> IF r.k = "open" THEN "open_failed" ELSE "cancel_err"])

(* ---- the venue reports on its own: an open order fills or is cancelled there ---- *)
VenueReport(c) ==
  /\ orders[c] \in {"Open", "CIFo"} /\ Len(feed) < 2
  /\ \E k \in {"open_filled", "venue_cancelled"} : feed' = Append(feed, [c |-> c, kind |-> k])
  /\ UNCHANGED <<orders, chan, pending, sends, answered>>

(* ---- engine processes one account event (C01's transitions on kinds) ---- *)
After(k, ev) ==
  CASE ev = "open_ok"      -> (CASE k \in {"CIFn", "CIFo"} -> "CIFo" [] OTHER -> "Open")
    [] ev \in {"open_filled", "open_failed", "venue_cancelled"} -> "U"
    [] ev = "cancel_ok"    -> "U"
    [] ev = "cancel_err"   -> (CASE k = "CIFo" -> "Open" [] k = "CIFn" -> "U" [] OTHER -> k)

EngineProcess ==
  /\ feed # <<>>
  /\ LET e == Head(feed) IN orders' = [orders EXCEPT ![e.c] = After(@, e.kind)]
  /\ feed' = Tail(feed)
  /\ UNCHANGED <<chan, pending, sends, answered>>

Next == \/ \E c \in CID : EngineSendOpen(c) \/ EngineSendCancel(c) \/ VenueReport(c)
        \/ MgrAccept
        \/ \E r \in pending : ClientResponds(r) \/ TimeoutFires(r)
        \/ EngineProcess

Answer(r) == ClientResponds(r) \/ TimeoutFires(r)

Spec == /\ Init /\ [][Next]_vars
        /\ WF_vars(MgrAccept)
        /\ WF_vars(EngineProcess)
        /\ \A c \in CID, n \in 1..MaxSends, k \in {"open", "cancel"} : WF_vars(Answer(Req(k, c, n)))

\* the same system without fairness of the response/timeout race: used only to show that
\* `Resolved` is not vacuous (TLC must find a counterexample: a request that is never answered)
SpecUnfairAnswer == Init /\ [][Next]_vars /\ WF_vars(MgrAccept) /\ WF_vars(EngineProcess)

(***************************************************************************)
(* Properties                                                               *)
(***************************************************************************)
TypeOK == /\ orders \in [CID -> {"U", "OIF", "Open", "CIFn", "CIFo"}]
          /\ \A r \in pending : r.k \in {"open", "cancel"}

\* never two account events for one request (C07 AtMostOne, by construction of Emit)
AtMostOnce == \A r \in DOMAIN answered : answered[r] = 1

\* an in-flight marker always has a request on its way or an answer on its way
InFlightBacked ==
  \A c \in CID : InFlight(c) =>
     \/ \E j \in 1..Len(chan) : chan[j].c = c
     \/ \E r \in pending : r.c = c
     \/ \E j \in 1..Len(feed) : feed[j].c = c

\* C07, last sentence: an order shown as in flight is always eventually resolved
Resolved == \A c \in CID : InFlight(c) ~> ~InFlight(c)
=============================================================================
