-------------------------- MODULE Trace_BarterSystem --------------------------
(* Trace validation of the REAL composition (SystemBuilder: engine + request    *)
(* channel + ExecutionManager + MockExchange + account feed) against            *)
(* BarterSystem.tla.  The engine side is observed through the audit stream and   *)
(* the strategy (which is handed the engine state after every event):           *)
(*   {"a":"SendOpen","c":cid}      the engine reported an open request as sent   *)
(*   {"a":"SendCancel","c":cid}    ... a cancel request as sent                  *)
(*   {"a":"Process","c":cid,"kind":k}  the engine processed an account event     *)
(*        about cid, k in open_ok | open_filled | open_failed | cancel_ok |      *)
(*        cancel_err                                                            *)
(*   {"a":"State","post":{cid: kind}}   engine view of every order afterwards    *)
(*   {"a":"LinkDown",..} / {"a":"LinkDownCount","n":k}  the driver killed the     *)
(*        exchange task: one account-stream disconnect notice for that exchange   *)
(*   {"a":"Quiescent"}             the run was left alone long enough: nothing   *)
(*        may be outstanding and no order may still be in flight                 *)
(* The execution manager and the exchange client are NOT observed.  Their steps  *)
(* are placed just in time: the account event the engine processes must be the   *)
(* answer to the OLDEST outstanding request of that kind for that id, i.e. the   *)
(* composition  MgrAccept^j . (ClientResponds | TimeoutFires)(r) . EngineProcess *)
(* (requests are accepted in channel order, answers may overtake one another).   *)
(* An account event that answers no outstanding request, a request that is       *)
(* answered twice, or one that is never answered (Quiescent) is rejected.        *)
EXTENDS BarterSystem, Json, IOUtils

Log == ndJsonDeserialize(IOEnv.TRACE)

VARIABLES l, bad
tvars == <<orders, chan, pending, feed, sends, answered, l, bad>>

TInit == Init /\ l = 1 /\ bad = <<>>
Note(tags) == bad' = IF tags = {} THEN bad ELSE Append(bad, <<l, tags>>)

ReqKindOf(k) == IF k \in {"open_ok", "open_filled", "open_failed"} THEN "open" ELSE "cancel"
ChanSet == {chan[j] : j \in 1..Len(chan)}
Outstanding(c, rk) == {r \in ChanSet \cup pending : r.c = c /\ r.k = rk}
Oldest(S) == CHOOSE r \in S : \A q \in S : r.n <= q.n
IndexIn(r) == CHOOSE j \in 1..Len(chan) : chan[j] = r

TSendOpen == /\ Log[l].a = "SendOpen"
             /\ LET c == Log[l].c IN
                IF orders[c] = "U" /\ sends[c] < MaxSends
                THEN EngineSendOpen(c) /\ Note({})
                ELSE \* an id re-used while tracked / beyond the modelled bound: outside the model, adopt
                     /\ orders' = [orders EXCEPT ![c] = "OIF"]
                     /\ chan' = Append(chan, Req("open", c, sends[c] + 1))
                     /\ sends' = [sends EXCEPT ![c] = @ + 1]
                     /\ UNCHANGED <<pending, feed, answered>>
                     /\ Note({"send_open_outside_model"})
TSendCancel == /\ Log[l].a = "SendCancel"
               /\ LET c == Log[l].c IN
                  IF sends[c] > 0 /\ sends[c] < MaxSends
                  THEN EngineSendCancel(c) /\ Note({})
                  ELSE /\ UNCHANGED <<orders, chan, pending, feed, sends, answered>>
                       /\ Note({"send_cancel_outside_model"})

\* MgrAccept^j . Answer(r) . EngineProcess, as one step
TProcess == /\ Log[l].a = "Process"
            /\ LET c == Log[l].c  k == Log[l].kind  S == Outstanding(c, ReqKindOf(k)) IN
               IF S = {} THEN
                  \* an account event that answers nothing outstanding: a second answer / a phantom
                  /\ orders' = [orders EXCEPT ![c] = After(@, k)]
                  /\ UNCHANGED <<chan, pending, feed, sends, answered>>
                  /\ Note({"answer_without_request"})
               ELSE LET r == Oldest(S)
                        j == IF r \in ChanSet THEN IndexIn(r) ELSE 0
                        accepted == {chan[i] : i \in 1..j}
                    IN /\ chan' = SubSeq(chan, j + 1, Len(chan))
                       /\ pending' = (pending \cup accepted) \ {r}
                       /\ answered' = (r :> 1) @@ answered
                       /\ orders' = [orders EXCEPT ![c] = After(@, k)]
                       /\ UNCHANGED <<feed, sends>>
                       /\ Note({})
TState == /\ Log[l].a = "State"
          /\ Note(IF \A c \in CID : orders[c] = (IF c \in DOMAIN Log[l].post THEN Log[l].post[c] ELSE "U")
                  THEN {} ELSE {"engine_view"})
          \* adopt the observed view so that one divergence is reported once
          /\ orders' = [c \in CID |-> IF c \in DOMAIN Log[l].post THEN Log[l].post[c] ELSE "U"]
          /\ UNCHANGED <<chan, pending, feed, sends, answered>>
TQuiescent == /\ Log[l].a = "Quiescent"
              /\ Note((IF chan = <<>> /\ pending = {} THEN {} ELSE {"request_never_answered"})
                      \cup (IF \A c \in CID : ~InFlight(c) THEN {} ELSE {"in_flight_never_resolved"}))
              /\ UNCHANGED vars

\* a new run of the real system starts
TReset == /\ Log[l].a = "Reset"
          /\ orders' = [c \in CID |-> "U"] /\ chan' = <<>> /\ pending' = {} /\ feed' = <<>>
          /\ sends' = [c \in CID |-> 0] /\ answered' = [r \in {} |-> 0]
          /\ UNCHANGED bad

\* the exchange's execution link was killed by the driver: exactly one disconnect notice must reach
\* the engine, naming THAT exchange, and its account link (hence global health) must be marked down
TLinkDown == /\ Log[l].a = "LinkDown"
             /\ Note(IF Log[l].notice_for_own_exchange /\ Log[l].account_link_down /\ Log[l].global_down
                     THEN {} ELSE {"link_down_notice"})
             /\ UNCHANGED vars
TLinkDownCount == /\ Log[l].a = "LinkDownCount"
                  /\ Note(IF Log[l].n = 1 THEN {} ELSE {"link_down_count"})
                  /\ UNCHANGED vars

TNext == /\ l <= Len(Log) /\ l' = l + 1
         /\ (TReset \/ TSendOpen \/ TSendCancel \/ TProcess \/ TState \/ TQuiescent \/ TLinkDown \/ TLinkDownCount)
TSpec == TInit /\ [][TNext]_tvars

Done == l = Len(Log) + 1 => PrintT(<<"TRACE_END", ToJson(bad)>>)
Post == PrintT(<<"TRACE_DONE", TLCGet("stats").diameter, Len(Log)>>)
=============================================================================
