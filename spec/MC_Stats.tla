------------------------------ MODULE MC_Stats ------------------------------
(* Model constants of Stats for TLC (a .cfg file cannot write negative      *)
(* numbers, so the value sets are defined here and substituted with `<-`).  *)
EXTENDS Stats

PnLsQuick    == {-2, -1, 0, 1, 3}           \* returns {-2,-1,0,1,3}/10 with cost 10
ValsQuick    == {-3, -1, 0, 2, 1000}        \* repeats allowed, mixed magnitude
ValsThorough == {-3, -1, 0, 2, 7, 1000}
\* the ratio figures: steps of the exit time in seconds (equal times; exactly the custom two-hour interval;
\* more than a year - so that scaling goes up, nowhere, down; and a NEGATIVE step: the position is delivered
\* LATE, its exit two hours before that of the position delivered before it - possibly before the session start)
GapsQuick    == {-7200, 0, 7200, 40000000}
\* (the deeper model: without the zero step - equal exit times still arise, two hours back and two hours on)
GapsThorough == {-7200, 7200, 40000000}
GapsSmall    == {0, 7200}             \* (the small model closes one position: nothing can be late)
\* the sheet models with late exits (figures that never read a time): one second forwards or two seconds back;
\* a loss, a break-even position, a win
GapsSheet    == {-2, 1}
PnLsLate     == {-1, 0, 3}
PnLsRatio    == {-2, -1, 0, 1}              \* two different losses, break-even, the return 1/10 = rf
\* risk-free returns: none, one tenth (the return 1/10 exists: excess exactly zero), negative
RFsQuick     == {<<0, 1>>, <<1, 10>>, <<-1, 10>>}
RFsZero      == {<<0, 1>>}
=============================================================================
