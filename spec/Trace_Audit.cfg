SPECIFICATION TSpec
CONSTANTS
  MaxEvents = 0
  Seq0Set = {0}
INVARIANT Done
PROPERTIES TProps
POSTCONDITION Post
CHECK_DEADLOCK FALSE
