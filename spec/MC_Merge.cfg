SPECIFICATION Spec
CONSTANTS
  MaxL = 3
  MaxR = 3
INVARIANTS TypeOK PrefixL PrefixR NothingHeldBack EndsWithInput
PROPERTIES Fused AppendOnly
CHECK_DEADLOCK FALSE
