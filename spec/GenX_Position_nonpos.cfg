SPECIFICATION GSpecXN
CONSTANTS
  PRICE <- GenPriceNonPos
  QTY = {1, 2}
  FEE = {0, 1}
  MARK = {}
  MaxFills = 99
  MaxLen = 3
INVARIANT Emit
CHECK_DEADLOCK FALSE
