//! C11 - instrument/asset/exchange indices are dense, unique and consistently resolved
//! (spec/Indexing.tla; driver shared with C04 in ../idx_shared.rs, FOCUS = C11).
#[path = "../idx_shared.rs"]
mod shared;

fn main() {
    shared::main("C11")
}
