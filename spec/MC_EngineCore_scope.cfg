SPECIFICATION ScopeSpec
CONSTANTS
  CIDS = {"c1", "c2", "x"}
  EVENTS = {}
  ENVS = {}
  MaxSeq = 1
PROPERTIES Scope SentDelivered SentInFlight FailedNeither NoPhantomInFlight
VIEW View
CHECK_DEADLOCK FALSE
