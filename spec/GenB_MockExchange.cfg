SPECIFICATION GSpecR
CONSTANTS
  Times = {0, 1, 2, 3, 4}
  Prices = {1, 2}
  Qtys = {0, 1, 2, 3}
  NegQtys = {1, 3}
  BalInit = {0, 300, 600, 900, 1200}
  FeePcts = {0, 50}
  Lats = {0, 2, 3}
  Sinces = {0, 1, 2, 3, 4, 5}
  OpenCids = {"o1", "o2", "o3"}
  MaxTrades = 100
  ClockSlack = FALSE
  IdSlack = 0
  OrderSubsets = TRUE
  MaxLen = 16
INVARIANT Emit
CHECK_DEADLOCK FALSE
