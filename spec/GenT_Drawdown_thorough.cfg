SPECIFICATION GSpec
CONSTANTS
  Values = {0, 1, 2, 3}
  NegMag = {1, 3}
  Gaps = {1}
  MaxLen = 6
  MaxResets = 0
INVARIANT Emit
CHECK_DEADLOCK FALSE
