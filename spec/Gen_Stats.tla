------------------------------ MODULE Gen_Stats ------------------------------
(* Behaviour generation for the C16 / C17 conformance harness (Pattern B):  *)
(* every behaviour of Stats is printed as one JSON line; each event carries *)
(* the figures the BATCH definitions give for the history so far.           *)
(*  C16: G16 exhaustive - every sequence of exactly MaxClosed closed        *)
(*           positions over Instr x PnLs x Costs (prefixes = shorter ones)  *)
(*       G16R simulation - AddClosed / AddBalance / Generate drawn with     *)
(*           RandomElement (one successor per step)                         *)
(*       exp = the summary Generate returns after the event; with the ratio *)
(*           figures (rate of return, Sharpe, Sortino, Calmar) of every     *)
(*           instrument for ONE risk-free return rf and interval iv per     *)
(*           event, and their rescaling to a second interval iw.  Exit      *)
(*           times, rf, iv, iw: G16 takes them from fixed sequences by a    *)
(*           hash of the history (the number of behaviours stays that of    *)
(*           the histories; ratio figures while ONE instrument has closed   *)
(*           positions), G16R draws them.  A figure is the tuple        *)
(*           <<k, sign, sq.n, sq.d, fac.n, fac.d, case, fac'.n, fac'.d>>    *)
(*           (Stats.tla, "ratio figures": value = sign*sqrt(sq*fac), never  *)
(*           multiplied out here; fac' = after rescaling to iw), the rate   *)
(*           of return <<v.n, v.d, fac.n, fac.d, fac'.n, fac'.d>>.          *)
(*           G16R behaviours are either WIDE (large PnLs and costs, as      *)
(*           before, without ratio figures: their squares exceed TLC's      *)
(*           integers) or over the ratio domain RatioPnLs x RatioCosts.     *)
(*       LATE EXITS: the exit-time steps include negative ones (GapSeq,     *)
(*           GapsGen), so positions are delivered behind positions closed   *)
(*           later, also before the session start; `late` says whether the  *)
(*           position just delivered is a late exit (Stats!IsLate).  G16R   *)
(*           decides with its first step whether the behaviour may contain  *)
(*           late exits at all (`mono`: negative steps are taken forwards). *)
(*           The ratio figures of an instrument are those of the reading of *)
(*           the code (Stats.tla, open points 4 and 5) plus `alt`: the      *)
(*           sheets of the OTHER readings that differ (empty without a late *)
(*           exit) - the harness accepts a generated sheet that is, as a    *)
(*           whole, one of them.  `returns`: count / sum / mean of all and  *)
(*           of the losing returns (PnLReturns.total / .losses), `var` /    *)
(*           `lossvar` their variances (ratio domain).                      *)
(*       BALANCES: AddBalance carries total (x) and free (y); the asset     *)
(*           sheet is the last snapshot's pair and the number of points of  *)
(*           the equity curve.  G16R follows a balance up on the SAME asset *)
(*           half of the time, half of those with the same total (only the  *)
(*           free part moves, or nothing does).                             *)
(*  C17: G17 exhaustive - every sequence of exactly MaxVals values          *)
(*       G17R simulation                                                    *)
(*       exp = DataSet(history so far)                                      *)
EXTENDS Stats, Json
VARIABLES hist, done
gvars == <<closed, acc, bal, out, vals, wf, last, hist, done>>

OptRJ(o) == IF o.has THEN RJ(o.v) ELSE "none"
PFJ(f)   == CASE f.k = "none" -> "none" [] f.k = "max" -> "MAX" [] f.k = "min" -> "MIN" [] OTHER -> RJ(f.v)
SheetJ(s) == [pnl |-> RJ(s.pnl), win_rate |-> OptRJ(s.win_rate), profit_factor |-> PFJ(s.profit_factor)]
AssetJ(s) == IF s.has THEN [total |-> s.total, free |-> s.free, points |-> s.points] ELSE "none"
ReturnsJ(r) == [count |-> r.count, sum |-> RJ(r.sum), mean |-> RJ(r.mean),
                losses_count |-> r.losses_count, losses_sum |-> RJ(r.losses_sum), losses_mean |-> RJ(r.losses_mean)]
SummaryJ(S) == [instruments |-> [i \in Instr |-> SheetJ(S.instruments[i])],
                assets      |-> [a \in Asset |-> AssetJ(S.assets[a])]]
\* ... with the returns summaries of every instrument
SummaryRJ(cl, bl) == LET S == SummaryOf(cl, bl)
                     IN [instruments |-> [i \in Instr |-> SheetJ(S.instruments[i])],
                         assets      |-> [a \in Asset |-> AssetJ(S.assets[a])],
                         returns     |-> [i \in Instr |-> ReturnsJ(ReturnsOf(cl[i]))]]
\* the ratio figures of a history for (rf, iv), rescaled to iw
FigJ(f, g, tag) == <<f.k, f.sign, f.sq[1], f.sq[2], f.fac[1], f.fac[2], tag, g.fac[1], g.fac[2]>>
\* the four figures on ONE reading b of the history
Ratio4J(b, rf, iv, iw) ==
  LET s == SheetOfBase(b, rf, iv)  c == CaseOfBase(b, rf)
      re(f) == ScaleFig(f, IvLen[iv], IvLen[iw])
      ro == ScaleRor(s.pnl_return, IvLen[iv], IvLen[iw])
  IN [pnl_return    |-> <<s.pnl_return.v[1], s.pnl_return.v[2], s.pnl_return.fac[1], s.pnl_return.fac[2], ro.fac[1], ro.fac[2]>>,
      sharpe_ratio  |-> FigJ(s.sharpe_ratio, re(s.sharpe_ratio), c.sharpe_ratio),
      sortino_ratio |-> FigJ(s.sortino_ratio, re(s.sortino_ratio), c.sortino_ratio),
      calmar_ratio  |-> FigJ(s.calmar_ratio, re(s.calmar_ratio), c.calmar_ratio),
      scale         |-> ScaleCaseOfBase(b, iv)]
\* the reading of the code, and `alt`: the sheets of the other readings that differ from it (open points 4, 5)
RatioJ(h, rf, iv, iw) ==
  LET B == BaseAll(h)
      main == Ratio4J(ViewOf(B, CodeReading), rf, iv, iw)
      alt  == IF B.late THEN {Ratio4J(ViewOf(B, rd), rf, iv, iw) : rd \in Readings} \ {main} ELSE {}
  IN main @@ [alt |-> alt, late |-> B.late, var |-> RJ(B.var), lossvar |-> RJ(B.lossvar)]
RatiosJ(cl, rf, iv, iw) ==
  [rf |-> RJ(rf), iv |-> iv, ivlen |-> IvLen[iv], iw |-> iw, iwlen |-> IvLen[iw],
   instruments |-> [i \in Instr |-> RatioJ(cl[i], rf, iv, iw)], empty |-> RatioJ(<<>>, rf, iv, iw)]
DataSetJ(d) == [count |-> d.count, sum |-> d.sum, mean |-> RJ(d.mean), var |-> RJ(d.var),
                range |-> IF d.range.has THEN [lo |-> d.range.lo, hi |-> d.range.hi] ELSE "none"]

\* the ratio domain of G16R: returns are multiples of 1/20 up to 1 in magnitude (squares of sums over a
\* history of 14 stay far below 2^31), finite decimals
RatioPnLs  == {-4, -3, -2, -1, 0, 1, 2, 3, 4}
RatioCosts == {4, 5, 10, 20}
RatioInstr == {"i1", "i2"}         \* (the instruments G16 does not use; the other two stay empty: their sheets are compared too)
GapsGen    == {0, 1, 7200, 100000, 40000000, -1, -7200, -100000}
\* balances: a pair (total, free) drawn for the state-dependent dummy d (notes/HOWTO.md, TLC pitfalls)
FreesOf(t) == {f \in Bals : f <= t}
RFsGen     == {Zero, <<1, 10>>, <<-1, 10>>, <<1, 20>>}

GInit == Init /\ hist = <<>> /\ done = FALSE

\* t: the exit time of the position just closed; wide: no ratio figures (see the header)
Rec16(wide, mono, rf, iv, iw) ==
  [a |-> last'.a, k |-> last'.k, x |-> last'.x, y |-> last'.y,
   t |-> IF last'.a = "AddClosed" THEN LastT(closed'[last'.k]) ELSE 0, wide |-> wide, mono |-> mono,
   late |-> IF last'.a = "AddClosed" THEN IsLate(closed'[last'.k], Len(closed'[last'.k])) ELSE FALSE,
   exp |-> SummaryRJ(closed', bal'),
   ratios |-> IF wide THEN "none" ELSE RatiosJ(closed', rf, iv, iw)]
\* the choices of G16: sequences indexed by a hash of the history
RFSeq  == <<Zero, <<1, 10>>, <<-1, 10>>, <<1, 20>>>>
IvSeq  == <<"Daily", "Annual252", "Annual365", "Hours2", "Days500">>
GapSeq == <<0, 1, 7200, 100000, 40000000, -7200, -1>>
\* G16 gives the ratio figures while all closed positions belong to one instrument (the figures of an
\* instrument are functions of ITS history: every history of one instrument up to the bound is met
\* this way; interleavings of several instruments with ratio figures come from G16R)
OneInstr(cl) == Cardinality({i \in Instr : cl[i] # <<>>}) <= 1
HashOf(cl) == ISumOver([i \in Instr |-> 3 * Len(cl[i]) +
                ISumOver([k \in Idx(cl[i]) |-> (cl[i][k].pnl + 1007) * (2 * k + 1)], Idx(cl[i]))], Instr)
\* neg: the statistics of the losing returns so far (PnLReturns.losses); persist: the harness stores and
\* restores the running summary after this update (action Persist - a stutter, no expectation changes)
Rec17(pf) == [x |-> last'.x, persist |-> pf, exp |-> DataSetJ(DataSet(vals')), neg |-> DataSetJ(DataSet(NegOf(vals')))]

\* ---- C16
G16Step == /\ ~done /\ NClosed < MaxClosed
           /\ \E i \in Instr, p \in PnLs, c \in Costs :
                 /\ AddClosedH(i, p, c, LastT(closed[i]) + GapSeq[((HashOf(closed) + 2 * p + 1000 + Len(closed[i])) % Len(GapSeq)) + 1])
                 /\ UNCHANGED acc
           /\ LET H == HashOf(closed')
              IN hist' = Append(hist, Rec16(~OneInstr(closed'), FALSE, RFSeq[(H % 4) + 1], IvSeq[((H \div 4) % 5) + 1],
                                             IvSeq[(((H \div 4) + 1 + (H % 3)) % 5) + 1]))
           /\ UNCHANGED done
\* (draws are bound through singleton sets: a RandomElement inside a LET / argument position may be
\*  re-drawn at every reference - notes/HOWTO.md "TLC pitfalls")
\* (the first step decides whether the behaviour is a wide one)
\* the last AddBalance event of the behaviour so far (0: none)
PrevBal(h) == LET I == {k \in 1..Len(h) : h[k].a = "AddBalance"}
              IN IF I = {} THEN 0 ELSE CHOOSE k \in I : \A j \in I : j <= k
\* (the first step decides whether the behaviour is a wide one, and whether it is free of late exits)
G16StepR == /\ ~done /\ Len(hist) < MaxClosed
            /\ \E w \in {IF hist = <<>> THEN RandomElement(BOOLEAN) ELSE hist[1].wide},
                  m \in {IF hist = <<>> THEN RandomElement({1, 2}) = 1 ELSE hist[1].mono} :
               \E r \in {RandomElement(1..12)}, i \in {RandomElement(IF w THEN Instr ELSE Instr \cap RatioInstr)},
                  p \in {RandomElement(IF w THEN PnLs ELSE RatioPnLs)}, c \in {RandomElement(IF w THEN Costs ELSE RatioCosts)},
                  a0 \in {RandomElement(Asset)}, b0 \in {RandomElement(Bals)}, g0 \in {RandomElement(Gaps)},
                  follow \in {RandomElement(1..4)},
                  rf \in {RandomElement(RFs)}, iv \in {RandomElement(Ivs)}, iw \in {RandomElement(Ivs)} :
               LET pb == PrevBal(hist)
                   \* a balance follows the previous one up on the same asset (follow <= 2), with the same total (follow = 1)
                   a  == IF pb > 0 /\ follow <= 2 THEN hist[pb].k ELSE a0
                   b  == IF pb > 0 /\ follow = 1 THEN hist[pb].x ELSE b0
                   g  == IF m /\ g0 < 0 THEN -g0 ELSE g0
               IN \E f \in {RandomElement(FreesOf(b))} :
                 /\ IF r <= 6 THEN AddClosedH(i, p, c, LastT(closed[i]) + g) /\ UNCHANGED acc
                    ELSE IF r <= 8 THEN AddBalance(a, b, f)
                    ELSE IF r <= 10 THEN GenerateS(SummaryOf(closed, bal))     \* (what it returns is in the record: Rec16)
                    ELSE IF r = 11 \/ closed[i] = <<>> THEN Persist
                    ELSE ResetH(i) /\ UNCHANGED acc
                 /\ hist' = Append(hist, Rec16(w, m, rf, iv, iw))
            /\ UNCHANGED done
G16Finish  == /\ ~done /\ NClosed = MaxClosed /\ done' = TRUE
              /\ UNCHANGED <<closed, acc, bal, out, vals, wf, last, hist>>
G16FinishR == /\ ~done /\ Len(hist) = MaxClosed /\ done' = TRUE
              /\ UNCHANGED <<closed, acc, bal, out, vals, wf, last, hist>>
G16  == GInit /\ [][G16Step \/ G16Finish]_gvars
G16R == GInit /\ [][G16StepR \/ G16FinishR]_gvars

\* ---- C17
G17Step == /\ ~done /\ Len(vals) < MaxVals
           /\ \E x \in Vals : AddValue(x)
           /\ hist' = Append(hist, Rec17(FALSE))
           /\ UNCHANGED done
G17StepR == /\ ~done /\ Len(vals) < MaxVals
            /\ \E x \in {RandomElement(Vals)}, pf \in {RandomElement(BOOLEAN)} :
                  AddValue(x) /\ hist' = Append(hist, Rec17(pf))
            /\ UNCHANGED done
G17Finish == /\ ~done /\ Len(vals) = MaxVals /\ done' = TRUE
             /\ UNCHANGED <<closed, acc, bal, out, vals, wf, last, hist>>
G17  == GInit /\ [][G17Step \/ G17Finish]_gvars
G17R == GInit /\ [][G17StepR \/ G17Finish]_gvars

Emit16 == done => PrintT(<<"SCN", ToJson([evs |-> hist])>>)
Emit17 == done => PrintT(<<"SCN", ToJson([vals |-> hist])>>)

\* value sets (a .cfg file cannot write negative numbers)
PnLsQuick == {-2, -1, 0, 1, 3}
PnLsWide  == {-300, -7, -3, -2, -1, 0, 1, 2, 3, 5, 12, 250}
ValsQuick == {-3, -1, 0, 2, 1000}
ValsWide  == (-20..20) \cup {500, -499, 137, 64}
=============================================================================
