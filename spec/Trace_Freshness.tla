--------------------------- MODULE Trace_Freshness ---------------------------
(* Trace validation for C09: lines recorded by harness/src/bin/c09.rs         *)
(*   {"a":"Reset","post":held}                                                *)
(*   {"a":"Deliver","ms":[{item,t,v}..],"post":held}  one engine event        *)
(*   {"a":"Touch","item":i,"post":held}   a cancel request recorded for i     *)
(*   {"a":"Persist","post":held}          the state was stored and restored    *)
(*   {"a":"Notice","item":i,"post":held}  a disconnect notice of i's link      *)
EXTENDS Freshness, Json, IOUtils
Log == ndJsonDeserialize(IOEnv.TRACE)
VARIABLES l, bad
tvars == <<held, delivered, last, l, bad>>

NormH(p) == [i \in ITEMS |-> [has |-> p[i].has, t |-> p[i].t, v |-> p[i].v]]
NormM(ms) == [k \in 1..Len(ms) |-> Msg(ms[k].item, ms[k].t, ms[k].v)]

TInit == l = 1 /\ bad = <<>> /\ Init

TReset == /\ Log[l].a = "Reset"
          /\ held' = NormH(Log[l].post)
          /\ delivered' = [i \in ITEMS |-> IF held'[i].has THEN {<<held'[i].t, held'[i].v>>} ELSE {}]
          /\ last' = <<>>
          /\ UNCHANGED bad

LatestP == \A i \in ITEMS :
            IF delivered'[i] = {} THEN ~held'[i].has
            ELSE held'[i].has /\ held'[i].t = MaxT(delivered'[i]) /\ <<held'[i].t, held'[i].v>> \in delivered'[i]

TStep == /\ Log[l].a = "Deliver"
         /\ LET ms == NormM(Log[l].ms) post == NormH(Log[l].post) IN
            /\ held' = post
            /\ delivered' = Record(delivered, ms)
            /\ last' = ms
            /\ LET tags == (IF post \in Outcomes(held, ms) THEN {} ELSE {"step"})
                      \cup (IF LatestP THEN {} ELSE {"P:Latest"})
                      \cup (IF NoRollbackA THEN {} ELSE {"P:NoRollback"})
               IN bad' = IF tags = {} THEN bad ELSE Append(bad, <<l, tags>>)

\* a recorded cancel request for an order item: the held exchange data must not change
TTouch == /\ Log[l].a = "Touch"
          /\ held' = NormH(Log[l].post)
          /\ UNCHANGED delivered
          /\ last' = <<Msg(Log[l].item, -1, 0)>>
          /\ bad' = IF held' = held THEN bad ELSE Append(bad, <<l, {"touch"}>>)

\* a disconnect notice of the link the item arrives on: the held exchange data must not change
TNotice == /\ Log[l].a = "Notice"
           /\ held' = NormH(Log[l].post)
           /\ UNCHANGED delivered
           /\ last' = <<Msg(Log[l].item, -3, 0)>>
           /\ bad' = IF held' = held THEN bad ELSE Append(bad, <<l, {"notice"}>>)

\* the spec's Persist: a stutter
TPersist == /\ Log[l].a = "Persist"
            /\ held' = NormH(Log[l].post)
            /\ UNCHANGED delivered
            /\ last' = <<>>
            /\ bad' = IF held' = held THEN bad ELSE Append(bad, <<l, {"persist"}>>)

TNext == l <= Len(Log) /\ l' = l + 1 /\ (TReset \/ TStep \/ TTouch \/ TNotice \/ TPersist)
TSpec == TInit /\ [][TNext]_tvars
Done == l = Len(Log) + 1 => PrintT(<<"TRACE_END", ToJson(bad)>>)
Post == PrintT(<<"TRACE_DONE", TLCGet("stats").diameter, Len(Log)>>)
=============================================================================
