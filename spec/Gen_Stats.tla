------------------------------ MODULE Gen_Stats ------------------------------
(* Behaviour generation for the C16 / C17 conformance harness (Pattern B):  *)
(* every behaviour of Stats is printed as one JSON line; each event carries *)
(* the figures the BATCH definitions give for the history so far.           *)
(*  C16: G16 exhaustive - every sequence of exactly MaxClosed closed        *)
(*           positions over Instr x PnLs x Costs (prefixes = shorter ones)  *)
(*       G16R simulation - AddClosed / AddBalance / Generate drawn with     *)
(*           RandomElement (one successor per step)                         *)
(*       exp = the summary Generate returns after the event; with the ratio *)
(*           figures (rate of return, Sharpe, Sortino, Calmar) of every     *)
(*           instrument for ONE risk-free return rf and interval iv per     *)
(*           event, and their rescaling to a second interval iw.  Exit      *)
(*           times, rf, iv, iw: G16 takes them from fixed sequences by a    *)
(*           hash of the history (the number of behaviours stays that of    *)
(*           the histories; ratio figures while ONE instrument has closed   *)
(*           positions), G16R draws them.  A figure is the tuple        *)
(*           <<k, sign, sq.n, sq.d, fac.n, fac.d, case, fac'.n, fac'.d>>    *)
(*           (Stats.tla, "ratio figures": value = sign*sqrt(sq*fac), never  *)
(*           multiplied out here; fac' = after rescaling to iw), the rate   *)
(*           of return <<v.n, v.d, fac.n, fac.d, fac'.n, fac'.d>>.          *)
(*           G16R behaviours are either WIDE (large PnLs and costs, as      *)
(*           before, without ratio figures: their squares exceed TLC's      *)
(*           integers) or over the ratio domain RatioPnLs x RatioCosts.     *)
(*  C17: G17 exhaustive - every sequence of exactly MaxVals values          *)
(*       G17R simulation                                                    *)
(*       exp = DataSet(history so far)                                      *)
EXTENDS Stats, Json
VARIABLES hist, done
gvars == <<closed, acc, bal, out, vals, wf, last, hist, done>>

OptRJ(o) == IF o.has THEN RJ(o.v) ELSE "none"
PFJ(f)   == CASE f.k = "none" -> "none" [] f.k = "max" -> "MAX" [] f.k = "min" -> "MIN" [] OTHER -> RJ(f.v)
SheetJ(s) == [pnl |-> RJ(s.pnl), win_rate |-> OptRJ(s.win_rate), profit_factor |-> PFJ(s.profit_factor)]
AssetJ(s) == IF s.has THEN [total |-> s.total] ELSE "none"
SummaryJ(S) == [instruments |-> [i \in Instr |-> SheetJ(S.instruments[i])],
                assets      |-> [a \in Asset |-> AssetJ(S.assets[a])]]
\* the ratio figures of a history for (rf, iv), rescaled to iw
FigJ(f, g, tag) == <<f.k, f.sign, f.sq[1], f.sq[2], f.fac[1], f.fac[2], tag, g.fac[1], g.fac[2]>>
RatioJ(h, rf, iv, iw) ==
  LET b == Base(h)  s == SheetOfBase(b, rf, iv)  c == CaseOfBase(b, rf)
      re(f) == ScaleFig(f, IvLen[iv], IvLen[iw])
      ro == ScaleRor(s.pnl_return, IvLen[iv], IvLen[iw])
  IN [pnl_return    |-> <<s.pnl_return.v[1], s.pnl_return.v[2], s.pnl_return.fac[1], s.pnl_return.fac[2], ro.fac[1], ro.fac[2]>>,
      sharpe_ratio  |-> FigJ(s.sharpe_ratio, re(s.sharpe_ratio), c.sharpe_ratio),
      sortino_ratio |-> FigJ(s.sortino_ratio, re(s.sortino_ratio), c.sortino_ratio),
      calmar_ratio  |-> FigJ(s.calmar_ratio, re(s.calmar_ratio), c.calmar_ratio),
      scale         |-> ScaleCaseOfBase(b, iv)]
RatiosJ(cl, rf, iv, iw) ==
  [rf |-> RJ(rf), iv |-> iv, ivlen |-> IvLen[iv], iw |-> iw, iwlen |-> IvLen[iw],
   instruments |-> [i \in Instr |-> RatioJ(cl[i], rf, iv, iw)], empty |-> RatioJ(<<>>, rf, iv, iw)]
DataSetJ(d) == [count |-> d.count, sum |-> d.sum, mean |-> RJ(d.mean), var |-> RJ(d.var),
                range |-> IF d.range.has THEN [lo |-> d.range.lo, hi |-> d.range.hi] ELSE "none"]

\* the ratio domain of G16R: returns are multiples of 1/20 up to 1 in magnitude (squares of sums over a
\* history of 14 stay far below 2^31), finite decimals
RatioPnLs  == {-4, -3, -2, -1, 0, 1, 2, 3, 4}
RatioCosts == {4, 5, 10, 20}
RatioInstr == {"i1", "i2"}         \* (the instruments G16 does not use; the other two stay empty: their sheets are compared too)
GapsGen    == {0, 1, 7200, 100000, 40000000}
RFsGen     == {Zero, <<1, 10>>, <<-1, 10>>, <<1, 20>>}

GInit == Init /\ hist = <<>> /\ done = FALSE

\* t: the exit time of the position just closed; wide: no ratio figures (see the header)
Rec16(wide, rf, iv, iw) ==
  [a |-> last'.a, k |-> last'.k, x |-> last'.x, y |-> last'.y,
   t |-> IF last'.a = "AddClosed" THEN LastT(closed'[last'.k]) ELSE 0, wide |-> wide,
   exp |-> SummaryJ(SummaryOf(closed', bal')),
   ratios |-> IF wide THEN "none" ELSE RatiosJ(closed', rf, iv, iw)]
\* the choices of G16: sequences indexed by a hash of the history
RFSeq  == <<Zero, <<1, 10>>, <<-1, 10>>, <<1, 20>>>>
IvSeq  == <<"Daily", "Annual252", "Annual365", "Hours2", "Days500">>
GapSeq == <<0, 1, 7200, 100000, 40000000>>
\* G16 gives the ratio figures while all closed positions belong to one instrument (the figures of an
\* instrument are functions of ITS history: every history of one instrument up to the bound is met
\* this way; interleavings of several instruments with ratio figures come from G16R)
OneInstr(cl) == Cardinality({i \in Instr : cl[i] # <<>>}) <= 1
HashOf(cl) == ISumOver([i \in Instr |-> 3 * Len(cl[i]) +
                ISumOver([k \in Idx(cl[i]) |-> (cl[i][k].pnl + 1007) * (2 * k + 1)], Idx(cl[i]))], Instr)
\* neg: the statistics of the losing returns so far (PnLReturns.losses); persist: the harness stores and
\* restores the running summary after this update (action Persist - a stutter, no expectation changes)
Rec17(pf) == [x |-> last'.x, persist |-> pf, exp |-> DataSetJ(DataSet(vals')), neg |-> DataSetJ(DataSet(NegOf(vals')))]

\* ---- C16
G16Step == /\ ~done /\ NClosed < MaxClosed
           /\ \E i \in Instr, p \in PnLs, c \in Costs :
                 /\ AddClosedH(i, p, c, LastT(closed[i]) + GapSeq[((HashOf(closed) + 2 * p + 1000 + Len(closed[i])) % Len(GapSeq)) + 1])
                 /\ UNCHANGED acc
           /\ LET H == HashOf(closed')
              IN hist' = Append(hist, Rec16(~OneInstr(closed'), RFSeq[(H % 4) + 1], IvSeq[((H \div 4) % 5) + 1],
                                             IvSeq[(((H \div 4) + 1 + (H % 3)) % 5) + 1]))
           /\ UNCHANGED done
\* (draws are bound through singleton sets: a RandomElement inside a LET / argument position may be
\*  re-drawn at every reference - notes/HOWTO.md "TLC pitfalls")
\* (the first step decides whether the behaviour is a wide one)
G16StepR == /\ ~done /\ Len(hist) < MaxClosed
            /\ \E w \in {IF hist = <<>> THEN RandomElement(BOOLEAN) ELSE hist[1].wide} :
               \E r \in {RandomElement(1..12)}, i \in {RandomElement(IF w THEN Instr ELSE Instr \cap RatioInstr)},
                  p \in {RandomElement(IF w THEN PnLs ELSE RatioPnLs)}, c \in {RandomElement(IF w THEN Costs ELSE RatioCosts)},
                  a \in {RandomElement(Asset)}, b \in {RandomElement(Bals)}, g \in {RandomElement(Gaps)},
                  rf \in {RandomElement(RFs)}, iv \in {RandomElement(Ivs)}, iw \in {RandomElement(Ivs)} :
                 /\ IF r <= 6 THEN AddClosedH(i, p, c, LastT(closed[i]) + g) /\ UNCHANGED acc
                    ELSE IF r <= 8 THEN AddBalance(a, b)
                    ELSE IF r <= 10 THEN GenerateS(SummaryOf(closed, bal))     \* (what it returns is in the record: Rec16)
                    ELSE IF r = 11 \/ closed[i] = <<>> THEN Persist
                    ELSE ResetH(i) /\ UNCHANGED acc
                 /\ hist' = Append(hist, Rec16(w, rf, iv, iw))
            /\ UNCHANGED done
G16Finish  == /\ ~done /\ NClosed = MaxClosed /\ done' = TRUE
              /\ UNCHANGED <<closed, acc, bal, out, vals, wf, last, hist>>
G16FinishR == /\ ~done /\ Len(hist) = MaxClosed /\ done' = TRUE
              /\ UNCHANGED <<closed, acc, bal, out, vals, wf, last, hist>>
G16  == GInit /\ [][G16Step \/ G16Finish]_gvars
G16R == GInit /\ [][G16StepR \/ G16FinishR]_gvars

\* ---- C17
G17Step == /\ ~done /\ Len(vals) < MaxVals
           /\ \E x \in Vals : AddValue(x)
           /\ hist' = Append(hist, Rec17(FALSE))
           /\ UNCHANGED done
G17StepR == /\ ~done /\ Len(vals) < MaxVals
            /\ \E x \in {RandomElement(Vals)}, pf \in {RandomElement(BOOLEAN)} :
                  AddValue(x) /\ hist' = Append(hist, Rec17(pf))
            /\ UNCHANGED done
G17Finish == /\ ~done /\ Len(vals) = MaxVals /\ done' = TRUE
             /\ UNCHANGED <<closed, acc, bal, out, vals, wf, last, hist>>
G17  == GInit /\ [][G17Step \/ G17Finish]_gvars
G17R == GInit /\ [][G17StepR \/ G17Finish]_gvars

Emit16 == done => PrintT(<<"SCN", ToJson([evs |-> hist])>>)
Emit17 == done => PrintT(<<"SCN", ToJson([vals |-> hist])>>)

\* value sets (a .cfg file cannot write negative numbers)
PnLsQuick == {-2, -1, 0, 1, 3}
PnLsWide  == {-300, -7, -3, -2, -1, 0, 1, 2, 3, 5, 12, 250}
ValsQuick == {-3, -1, 0, 2, 1000}
ValsWide  == (-20..20) \cup {500, -499, 137, 64}
=============================================================================
