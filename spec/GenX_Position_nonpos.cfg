SPECIFICATION GSpecXN
CONSTANTS
  PRICE <- GenPriceNonPos
  QTY = {1, 2}
  FEE <- GenFeeRebate
  MARK = {}
  MaxFills = 99
  MaxLen = 3
INVARIANT Emit
CHECK_DEADLOCK FALSE
