SPECIFICATION TSpec
CONSTANTS
  Scripts = {}
  Policies = {}
  Tabs = {}
  Clients = {}
  ReqLists = {}
  RIns = {}
  Slack = {0, 1000000000}
  T = 50
INVARIANTS Done TInv
POSTCONDITION Post
CHECK_DEADLOCK FALSE
