--------------------------- MODULE Gen_OrderBook ---------------------------
(* Scenario generation for the C05 conformance harness (spec -> impl).       *)
(* A scenario is  {init: projected book, steps: [{ev, exp}]}  where `exp` is  *)
(* the list of ALL projected books OrderBook allows after the event (more    *)
(* than one only after an update that gives one price several different      *)
(* amounts).  The generator therefore tracks the SET of possible books       *)
(* `poss` (subset construction over OrderBook!Update / Snapshot) - every     *)
(* element carries levels, sequence, mid, volume-weighted mid (exact         *)
(* fractions) and the depth-limited snapshots.                               *)
(*  GSpecT (exhaustive): every book of one map on both sides x every event   *)
(*         of the bounded universe - transition coverage.                    *)
(*  GSpecR (simulation): long random behaviours over a wider price set,      *)
(*         events drawn with RandomElement (unsorted lists, duplicates,      *)
(*         zero amounts, absent deletes).                                    *)
EXTENDS OrderBook, Json, SequencesExt
CONSTANTS MaxLen,     \* events per behaviour
          Large       \* the "unbounded" depth
VARIABLES init, poss, hist, done,
          nxt         \* simulation: the next event, drawn one step ahead (a state value is fully
                      \* evaluated, so every use of the draw sees the same event)

gvars == <<bids, asks, seq, last, init, poss, hist, done, nxt>>

RatJ(b, r) == IF IsEmpty(b) THEN "none" ELSE RJ(r)
Proj(b) == [bids |-> Levels(b.bids, "bids"), asks |-> Levels(b.asks, "asks"), seq |-> b.seq,
            mid |-> IF IsEmpty(b) THEN "none" ELSE RJ(Mid(b)),
            vw  |-> IF IsEmpty(b) THEN "none" ELSE RJ(VWMid(b)),
            d0 |-> Depth(b, 0), d1 |-> Depth(b, 1), d2 |-> Depth(b, 2), dL |-> Depth(b, Large)]


\* all books the event allows from any possible book
After(P, e) ==
  IF e.k = "Snapshot" THEN {SnapshotResult(e.b, e.a, e.s)}
  ELSE UNION {UpdateResults(b, e.b, e.a, e.s) : b \in P}

Record(e) == /\ poss' = After(poss, e)
             /\ hist' = Append(hist, [ev |-> e, exp |-> {Proj(b) : b \in After(poss, e)}])
             /\ UNCHANGED <<init, done>>

\* the OrderBook variables follow one of the possible books (they only feed Next's guards)
Follow == \E b \in poss' : bids' = b.bids /\ asks' = b.asks /\ seq' = b.seq

\* Random draws (HOWTO "TLC pitfalls"): RandomElement in a LET is re-drawn at every reference, so
\* every draw is bound through a singleton set and the event built from the bound values is stored
\* in the state variable nxt one step before it is used (a state value is fully evaluated).
CleanOf(S, f, am) == [j \in 1..Cardinality(S) |-> Lv(SetToSeq(S)[f[j]], am[j])]

\* the order in which a level list is given: 1 = the side's natural order (bids high -> low, asks low ->
\* high), 2 = exactly reversed, 3 = as drawn (unsorted); repeated prices end up adjacent in 1 and 2
Ordered(list, o, side) ==
  CASE o = 3 -> list
    [] (o = 1) = (side = "asks") -> SortSeq(list, LAMBDA x, y : x.p < y.p)
    [] OTHER                     -> SortSeq(list, LAMBDA x, y : x.p > y.p)

DrawNext(forceSnap) ==
  \E kind \in {RandomElement(1..8)}, s \in {RandomElement(SEQS)},
     nb \in {RandomElement(0..MaxLong)}, na \in {RandomElement(0..MaxLong)},
     Sb \in {RandomElement(SUBSET PRICE)}, Sa \in {RandomElement(SUBSET PRICE)},
     ob \in {RandomElement(1..3)}, oa \in {RandomElement(1..3)} :
    \E bl \in {[j \in 1..nb |-> RandomElement(LEVEL)]}, al \in {[j \in 1..na |-> RandomElement(LEVEL)]},
       fb \in {RandomElement(Permutations(1..Cardinality(Sb)))}, fa \in {RandomElement(Permutations(1..Cardinality(Sa)))},
       ab \in {[j \in 1..Cardinality(Sb) |-> RandomElement(AMOUNT \ {0})]},
       aa \in {[j \in 1..Cardinality(Sa) |-> RandomElement(AMOUNT \ {0})]} :
      nxt' = IF forceSnap \/ kind = 1
             THEN Ev("Snapshot", Ordered(CleanOf(Sb, fb, ab), ob, "bids"), Ordered(CleanOf(Sa, fa, aa), oa, "asks"), s)
             ELSE Ev("Update", Ordered(bl, ob, "bids"), Ordered(al, oa, "asks"), s)

GInitT == /\ \E m \in MapsOver(PRICE) : bids = m /\ asks = m
          /\ seq = 0 /\ last = NoEvent /\ nxt = NoEvent
          /\ init = Proj(Book) /\ poss = {Book} /\ hist = << >> /\ done = FALSE

GInitR == /\ Init
          /\ init = Proj(Book) /\ poss = {Book} /\ hist = << >> /\ done = FALSE
          /\ nxt = NoEvent                                  \* first step only draws

GStepT == /\ ~done /\ Len(hist) < MaxLen
          /\ Next                               \* OrderBook's own actions choose the event
          /\ Record(last')
          /\ UNCHANGED nxt

GDraw0 == /\ ~done /\ nxt = NoEvent /\ hist = << >>
          /\ DrawNext(FALSE)
          /\ UNCHANGED <<bids, asks, seq, last, init, poss, hist, done>>

GStepR == /\ ~done /\ Len(hist) < MaxLen /\ nxt # NoEvent
          /\ (nxt.k = "Snapshot" => CleanList(nxt.b) /\ CleanList(nxt.a))
          /\ Record(nxt)
          /\ last' = nxt
          /\ \E b \in {CHOOSE x \in After(poss, nxt) : TRUE} : bids' = b.bids /\ asks' = b.asks /\ seq' = b.seq
          /\ DrawNext(Cardinality(After(poss, nxt)) > 4)            \* too many possible books: resync

GFinish == /\ ~done /\ Len(hist) = MaxLen
           /\ done' = TRUE
           /\ UNCHANGED <<bids, asks, seq, last, init, poss, hist, nxt>>

GSpecT == GInitT /\ [][GStepT \/ GFinish]_gvars
GSpecR == GInitR /\ [][GDraw0 \/ GStepR \/ GFinish]_gvars

Emit == done => PrintT(<<"SCN", ToJson([init |-> init, steps |-> hist])>>)
=============================================================================
