---------------------------- MODULE MC_Backtest ----------------------------
(* Bounded worlds for the exhaustive runs of Backtest: K runs over one shared *)
(* dataset (n, recs), each with its own strategy parameters (acts, fatalAt) and source fault (srcFailAt). *)
EXTENDS Backtest

PS(n, recs, acts, fatalAt, srcFailAt) ==
    [n |-> n, recs |-> recs, acts |-> acts, fatalAt |-> fatalAt, srcFailAt |-> srcFailAt]
P(n, recs, acts, fatalAt) == PS(n, recs, acts, fatalAt, {})

\* quick: dataset of 3 market events; run 1 opens one order (event 2), run 2 two orders (1 and 3)
PA == P(3, {}, {2}, {})
PB == P(3, {}, {1, 3}, {})
\* dataset with a Reconnecting item; run C's only order hits an unrecoverable link error
PC == P(3, {2}, {3}, {3})
PD == P(3, {2}, {1}, {})
\* thorough: 4 items
PE == P(4, {3}, {1, 4}, {})
PF == P(4, {3}, {2}, {})
PG == P(4, {2}, {1, 4}, {4})
\* the data source fails: after 2 of 3 items (an order is open by then) / before the first item
PH == PS(3, {}, {1}, {}, {2})
PI == PS(3, {2}, {3}, {}, {0})

Two(p, q) == (1 :> p) @@ (2 :> q)
One(p)    == (1 :> p)
Params_AB == Two(PA, PB)
Params_CD == Two(PC, PD)
Params_EF == Two(PE, PF)
Params_A  == One(PA)
Params_B  == One(PB)
Params_C  == One(PC)
Params_D  == One(PD)
Params_E  == One(PE)
Params_F  == One(PF)
Params_G  == One(PG)
Params_HA == Two(PH, PA)
Params_IB == Two(PI, PB)
Params_H  == One(PH)
Params_I  == One(PI)
=============================================================================
