"""Shared orchestration of the two properties decided on spec/Position.tla:
C02 (position size / realised PnL conserve the cash flows of the fills) and
C15 (unrealised PnL tracks the instrument's latest price).

Pattern B (spec -> impl): TLC-generated behaviours with the expected state after every step are
replayed by harness bin c02|c15 `replay`; Pattern A (impl -> spec): seeded random engine runs are
recorded in milli-units and validated by Trace_Position.tla with FOCUS = the property.
Attribution (DESIGN 5.4): C02 judges every field of Position / PositionExited but `unreal`;
C15 judges `unreal` only and does not judge a scenario whose bookkeeping or data-state price
diverged (that is C02's / the data state's verdict)."""
import json
import os
from decimal import Decimal

import vlib

MODULE = "Position"
SCALES = ("none", "p6", "pm6", "q6", "qm6", "qm9", "pm9")


# ----------------------------------------------------------------------------- model checking
NO_MARKS = ("DoMarkNewer", "DoMarkStale", "MarkNewer", "MarkStale")


def model_check(ctx, with_fills_model, with_nonpos_fills=False):
    """Small configurations with -coverage (vacuity: every arm of Fill and both Mark actions taken);
    the deeper ones without it (-coverage makes TLC 3-7x slower here). Module MC_Position only adds
    the signed price sets (0 and negative market prices; for C15 also such fill prices)."""
    mc = "MC_" + MODULE
    ctx.tlc_mc(mc, "MC_Position.cfg", timeout=600)
    if with_fills_model:
        ctx.tlc_mc(mc, "MC_Position_fills.cfg", timeout=600, ignore_uncovered=NO_MARKS)
    if with_nonpos_fills:
        ctx.tlc_mc(mc, "MC_Position_nonpos.cfg", timeout=900, coverage=False)
    if not ctx.quick:
        ctx.tlc_mc(mc, "MC_Position_thorough.cfg", timeout=1500, coverage=False)
        if with_fills_model:
            ctx.tlc_mc(mc, "MC_Position_fills_thorough.cfg", timeout=1500, coverage=False)
            ctx.tlc_mc(mc, "MC_Position_fills_deep.cfg", timeout=1500, coverage=False)


def generate(ctx, cfg, name, simulate=None):
    p, scns = ctx.tlc_gen("Gen_" + MODULE, cfg, name, simulate=simulate, timeout=1200)
    if simulate and len(scns) < 0.95 * simulate[0]:
        raise vlib.ToolError("TLC produced only %d of %d behaviours from %s (overflow of TLC's 32-bit "
                             "integers or another generation error)" % (len(scns), simulate[0], cfg))
    return p, scns


# ----------------------------------------------------------------------------- signatures
def dec(x):
    try:
        return Decimal(str(x))
    except Exception:
        return None


def field_of(error):
    """'pos.trades[1]: expected ..' -> 'pos.trades'"""
    path = error.split(":")[0]
    out, depth = "", 0
    for ch in path:
        if ch == "[":
            depth += 1
        elif ch == "]":
            depth -= 1
        elif depth == 0:
            out += ch
    return out


def unreal_signature(kind, arm, got_unreal, pre_unreal):
    """Stable, aggregating signature of an estimate mismatch."""
    g, p = dec(got_unreal), dec(pre_unreal)
    if kind == "Persist":
        return "Persist:estimate-changed"
    if kind in ("Mkt", "Mark"):
        return "Mkt:" + ("not-refreshed" if g is not None and p is not None and g == p else "wrong-value")
    grp = "Opened" if arm in ("Open", "Flip") else arm
    return "Fill/%s:%s" % (grp, "zero" if g is not None and g == 0 else "wrong-value")


def short(v):
    return json.dumps(v, sort_keys=True, separators=(",", ":"))


def ev_short(ev):
    return short({k: v for k, v in ev.items() if k not in ("exp",)})


# ----------------------------------------------------------------------------- Pattern B
def replay_results(ctx, binname, focus, scn_path, n_scn, mode, scale="none", label="", instrument=None):
    """Runs one harness replay; returns (judged, unjudged) and records violations of `focus`."""
    out = ctx.path("res_%s_%s_%s_%s.ndjson" % (focus, label.replace("/", "_"), mode, scale))
    args = ["replay", "--scenarios", scn_path, "--out", out, "--mode", mode, "--focus", focus, "--scale", scale]
    if instrument is not None:
        args += ["--instrument", instrument]
    info = ctx.harness(binname, *args)
    fl = ctx.cov.setdefault("instrument_flavours", {})
    for k, v in (info.get("instrument_flavours") or {}).items():
        fl[k] = fl.get(k, 0) + v
    persists = (info.get("arms") or {}).get("Persist/", 0)
    ctx.cov["store_restore_round_trips"] = ctx.cov.get("store_restore_round_trips", 0) + persists
    scns = None
    judged = unjudged = 0
    found = []      # (priority, sig, desc, replay): the clearest scenario of a signature is reported first
    for r in ctx.read_results(out):
        if r["ok"]:
            judged += 1
            continue
        items = [r] + r.get("more", [])
        counted = False
        for nth, d in enumerate(items):
            ev = d["event"]
            where = "%s, mode=%s scale=%s, scenario %d step %d" % (label, mode, scale, d["scn"], d["step"])
            if scns is None:
                scns = ctx.read_trace(scn_path)
            rp = {"kind": "scenario", "mode": mode, "scale": scale, "focus": focus, "instrument": d["instrument"],
                  "scenario": {"evs": scns[d["scn"]]["evs"][:d["step"] + 1]}}
            prio = (nth, d["step"])
            cls = d["class"]
            if cls == "panic":
                found.append((prio, "%s/%s:panic" % (ev["a"], ev.get("arm", "")),
                              "position %s, event %s -> %s [%s]" % (short(d["pre"]), ev_short(ev), d["error"], where), rp))
                counted = True
            elif focus == "c02" and cls == "book":
                found.append((prio, "%s/%s:%s" % (ev["a"], ev.get("arm", ""), field_of(d["error"])),
                              "position %s, event %s -> implementation has %s; Position.tla: %s [%s]" % (
                                  short(d["pre"]), ev_short(ev), short(d["got"]), d["error"], where), rp))
                counted = True
            elif focus == "c15" and cls == "unreal":
                if d.get("cascade"):
                    continue
                got = d["got"].get("unreal") if isinstance(d["got"], dict) else None
                sig = unreal_signature(ev["a"], ev.get("arm", ""), got, d["pre"].get("unreal"))
                found.append((prio, sig, "position %s, price before %s, event %s -> price() = %s, pnl_unrealised = %s; "
                                         "Position.tla: %s [%s]" % (short(d["pre"]), d.get("pre_price"), ev_short(ev),
                                                                     d.get("got_price"), got, d["error"], where), rp))
                counted = True
            elif focus == "c15" and cls == "price" and ev["a"] == "Mkt" and ev["exp"]["pos"]["side"] != "none":
                # a position is open and, after this market event, price() is not what the documented data
                # state yields (L1 mid if the held top of book has both sides, else the last public trade):
                # the estimate is left at / recomputed from an older price
                got = d["got"]
                stale = dec(got) is not None and dec(got) == dec(d.get("pre_price"))
                found.append((prio, "Mkt:marked-at-%s-price" % ("older" if stale else "wrong"),
                              "position %s, price before %s, event %s -> price() = %s (%s), so pnl_unrealised is not "
                              "evaluated at the instrument's latest price [%s]" % (
                                  short(d["pre"]), d.get("pre_price"), ev_short(ev), got, d["error"], where), rp))
                counted = True
            else:
                # not this property's verdict (bookkeeping under C15; a price divergence while flat)
                notes = ctx.cov.setdefault("unjudged", [])
                if len(notes) < 20:
                    notes.append({"where": where, "class": cls, "error": d["error"]})
        if counted or any(d["class"] in ("unreal", "price") for d in items):
            judged += 1
        else:
            unjudged += 1
    for _, sig, desc, rp in sorted(found, key=lambda x: x[0]):
        ctx.violation(sig, desc, rp)
    ctx.cov["scenarios_replayed"] += n_scn
    routes = ctx.cov.setdefault("routes", {})
    routes[mode] = routes.get(mode, 0) + n_scn
    ctx.cov["traces_validated_against_impl"] += n_scn
    return judged, unjudged


# ----------------------------------------------------------------------------- Pattern A
MILLI_FIELDS = ("qty", "qmax", "avg", "real", "unreal", "feeIn", "feeOut")


def anomaly(line):
    post = line.get("post")
    if not isinstance(post, dict) or "panic" in post:
        return "panic: the call panicked: %s" % (post.get("panic") if isinstance(post, dict) else post)
    if line.get("a") == "Foreign":
        return "foreign: a call about another instrument changed this instrument's position to %s" % short(post)
    for k in MILLI_FIELDS:
        if not isinstance(post.get(k), int):
            return "range: %s = %s is outside the milli-unit range of the trace" % (k, post.get(k))
    if not isinstance(line.get("p"), int):
        return "range: price %s is outside the milli-unit range of the trace" % line.get("p")
    return None


def arm_of(pre, line):
    if line["a"] == "Persist":
        return "restore"
    if line["a"] == "Quiet":
        return "NoPrice"
    if line["a"] != "Fill":
        return "Newer" if line.get("newer") else "Stale"
    if pre is None or pre["side"] == "none":
        return "Open"
    if pre["side"] == line["side"]:
        return "Increase"
    return "Reduce" if pre["qty"] > line["q"] else ("Close" if pre["qty"] == line["q"] else "Flip")


def validate_trace(ctx, trace_path, focus, mode, label):
    """Splits a recorded trace per instrument, screens anomalies, lets TLC validate each part."""
    all_lines = ctx.read_trace(trace_path)
    index_of = {id(l): k for k, l in enumerate(all_lines)}
    cut = 0
    for inst in sorted({l["i"] for l in all_lines}):
        lines = [l for l in all_lines if l["i"] == inst]
        clean = ctx.path("clean_%s_%s_%d.ndjson" % (focus, label.replace("/", "_"), inst))
        found, keep = ctx.screen_anomalies(lines, clean, anomaly)

        def segment_replay(seg):
            # every call of the segment, of all instruments, up to the offending one (one engine)
            first, lastl = seg[0], seg[-1]
            a, b = index_of[id(first)], index_of[id(lastl)]
            while a > 0 and all_lines[a - 1]["a"] == "Reset":
                a -= 1
            return {"kind": "trace", "mode": mode, "focus": focus, "instrument": inst,
                    "lines": [l for l in all_lines[a:b + 1] if l["a"] not in ("Reset", "Foreign")]}

        for n, d, seg in found:
            kind = d.split(":")[0]
            if kind == "foreign" and focus != "c02":
                continue
            ctx.violation("anomaly:" + kind, "%s [%s instrument %d, line %d]" % (d, label, inst, n), segment_replay(seg))
        n, bad, truncated = ctx.tlc_trace("Trace_" + MODULE, "Trace_Position_%s.cfg" % focus.upper(), clean)
        tags = getattr(ctx, "last_tags", {})
        for b in bad:
            seg = ctx.segment(keep, b)
            line = keep[b - 1]
            pre = seg[-2]["post"] if len(seg) >= 2 else None
            tag = (tags.get(b) or ["unconsumed"])[0]
            if tag == "cut":
                cut += 1
                continue
            arm = arm_of(pre, line)
            if tag == "unreal":
                sig = unreal_signature(line["a"], arm, line["post"]["unreal"], pre["unreal"] if pre else None)
                # milli-units: exact zero check
                if line["a"] == "Fill":
                    grp = "Opened" if arm in ("Open", "Flip") else arm
                    sig = "Fill/%s:%s" % (grp, "zero" if line["post"]["unreal"] == 0 else "wrong-value")
            elif tag == "book":
                sig = "%s/%s:trace" % (line["a"], arm)
            else:
                sig = "unconsumed"
            desc = "position %s (milli-units), event %s -> implementation state %s, returned %s: not a step of " \
                   "Position.tla (%s) [%s instrument %d, line %d]" % (
                       short(pre), short({k: line[k] for k in ("a", "side", "p", "q", "fee", "id", "t", "newer", "kind", "mp")}),
                       short(line["post"]), short(line["exit"]) if line["exit"]["side"] != "none" else "no exit", tag,
                       label, inst, b)
            ctx.violation(sig, desc, segment_replay(seg))
        ctx.cov["traces_validated_against_impl"] += sum(1 for l in keep if l.get("a") == "Reset")
    if cut:
        ctx.cov["trace_segments_not_judged"] = ctx.cov.get("trace_segments_not_judged", 0) + cut
    return cut


def record_and_validate(ctx, binname, focus, mode, steps):
    out = ctx.path("trace_random_%s_%s.ndjson" % (focus, mode))
    info = ctx.harness(binname, "random", "--seed", ctx.seed, "--steps", steps, "--out", out, "--mode", mode,
                       "--nonpos-fills", 1 if focus == "c15" else 0)
    validate_trace(ctx, out, focus, mode, "random/" + mode)
    routes = ctx.cov.setdefault("routes_traced_calls", {})
    routes[mode] = routes.get(mode, 0) + info.get("events", 0)
    return info


# ----------------------------------------------------------------------------- replay of a finding
def replay(ctx, binname, focus, rp):
    ctx.build(binname)
    if rp["kind"] == "scenario":
        scn = ctx.path("replay_scn.ndjson")
        with open(scn, "w") as f:
            f.write(json.dumps(rp["scenario"]) + "\n")
        replay_results(ctx, binname, focus, scn, 1, rp["mode"], rp.get("scale", "none"), "replay",
                       instrument=rp.get("instrument"))
    else:
        seg = ctx.path("replay_segment.ndjson")
        with open(seg, "w") as f:
            for l in rp["lines"]:
                f.write(json.dumps(l) + "\n")
        out = ctx.path("replay_trace.ndjson")
        ctx.harness(binname, "retrace", "--in", seg, "--out", out, "--mode", rp["mode"])
        validate_trace(ctx, out, focus, rp["mode"], "replay")
    return ctx.finish(write_evidence=False)
