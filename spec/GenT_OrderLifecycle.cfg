SPECIFICATION GSpec
CONSTANTS
  CID = {"c1"}
  QTY = {2}
  SV = {1, 2}
  TIME = {0, 1, 2}
  OID = {1, 2}
  MaxLen = 1
  AllPre = TRUE
INVARIANT Emit
CHECK_DEADLOCK FALSE
