SPECIFICATION Spec
CONSTANTS
  INSTR = {"i1", "i2"}
  PRICE = {1, 2}
  AMOUNT = {0, 1, 2}
  RULES = {"Spot", "Futures"}
  MCM = 3
  EVOLUTIONS <- TwoEvolutions
  MaxEvents = 2
  MaxDeliver = 4
  MaxReinit = 0
  EXPECTED = {1}
  MaxBuf = 0
  InitOrder = "snapshot-first"
INVARIANTS TypeOK Chain BookValid BookNeverWrong BookIsMap Told CleanNeverErrors ConsumerFold EmissionOrder
PROPERTIES BreakSurfaces Isolation AdvanceOnlyOnAdmission
VIEW View
CHECK_DEADLOCK FALSE
