//! C01 — order lifecycle conformance driver (spec/OrderLifecycle.tla).
//!
//! `c01 run    --scenarios f.ndjson --out trace.ndjson --mode orders|engine`
//!     executes TLC-generated scenarios `{init, evs}` against the real code
//! `c01 random --seed S --steps N --out trace.ndjson --mode orders|engine`
//!     drives the real code with a seeded random history (duplicates, stale and reordered reports)
//!
//! Both write one NDJSON line per call: the event (fields of the spec's `Ev`) plus `post`, the
//! projected state of every client order id after the call. `Trace_OrderLifecycle.tla` is the oracle.
use barter::engine::state::order::{
    Orders, in_flight_recorder::InFlightRequestRecorder, manager::OrderManager,
};
use barter_execution::{
    AccountEvent, AccountEventKind, AccountSnapshot, InstrumentAccountSnapshot,
    error::{ApiError, ConnectivityError, OrderError},
    order::{
        Order, OrderKey, OrderKind, TimeInForce,
        id::{ClientOrderId, OrderId, StrategyId},
        request::{OrderRequestCancel, OrderRequestOpen, OrderResponseCancel, RequestCancel, RequestOpen},
        state::{ActiveOrderState, CancelInFlight, Cancelled, InactiveOrderState, Open, OpenInFlight, OrderState},
    },
};
use barter_instrument::{
    Side,
    asset::AssetIndex,
    exchange::ExchangeIndex,
    instrument::InstrumentIndex,
};
use barter_integration::snapshot::Snapshot;
use rand::Rng;
use serde_json::{Value, json};
use vh::{util::*, world};

const CIDS: [&str; 3] = ["c1", "c2", "c3"];

fn bundle(s: i64) -> (Side, i64, OrderKind, TimeInForce) {
    match s {
        1 => (Side::Buy, 10, OrderKind::Limit, TimeInForce::GoodUntilCancelled { post_only: false }),
        2 => (Side::Sell, 11, OrderKind::Market, TimeInForce::ImmediateOrCancel),
        _ => usage("bundle value must be 1 or 2"),
    }
}

fn unbundle<E, I, S>(o: &Order<E, I, S>) -> i64 {
    for s in [1, 2] {
        let (side, price, kind, tif) = bundle(s);
        if o.side == side && o.price == dec(price) && o.kind == kind && o.time_in_force == tif {
            return s;
        }
    }
    99 // a mixture of two requests' fields: never a spec value
}

fn oid(n: i64) -> OrderId {
    OrderId::new(format!("o{n}"))
}
fn unoid(id: &OrderId) -> i64 {
    id.0.trim_start_matches('o').parse().unwrap_or(-1)
}

/// Exchange timestamps of this driver carry microseconds (as venues state them): spec time t is
/// 2020-01-01 + t s + (211 + 7 t) us. The projection accepts only exactly such instants: a held timestamp
/// that was rounded, truncated or shifted (e.g. by a store / restore) is not a timestamp any report carried.
fn time(t: i64) -> chrono::DateTime<chrono::Utc> {
    vh::util::time(t) + chrono::Duration::microseconds(211 + 7 * t)
}
fn untime(d: chrono::DateTime<chrono::Utc>) -> Value {
    let t = vh::util::untime(d);
    if d == time(t) { json!(t) } else { json!(format!("not a reported instant: {d:?}")) }
}

fn open_of(m: &Value) -> Option<Open> {
    b(m, "has").then(|| Open::new(oid(i(m, "id")), time(i(m, "t")), dec(i(m, "f"))))
}

fn meta_json(o: Option<&Open>) -> Value {
    match o {
        None => json!({"has": false, "id": 0, "t": 0, "f": 0}),
        Some(o) => json!({"has": true, "id": unoid(&o.id), "t": untime(o.time_exchange), "f": dec_json(o.filled_quantity)}),
    }
}

fn untracked() -> Value {
    json!({"k": "U", "q": 0, "s": 0, "m": meta_json(None)})
}

fn project_order<E, I>(o: &Order<E, I, ActiveOrderState>) -> Value {
    let (k, m) = match &o.state {
        ActiveOrderState::OpenInFlight(_) => ("OIF", None),
        ActiveOrderState::Open(open) => ("Open", Some(open)),
        ActiveOrderState::CancelInFlight(c) => ("CIF", c.order.as_ref()),
    };
    json!({"k": k, "q": dec_json(o.quantity), "s": unbundle(o), "m": meta_json(m)})
}

/// The system under test, behind the two entry-point families the property names.
trait Sut {
    fn record_open(&mut self, c: &str, q: i64, s: i64);
    fn record_cancel(&mut self, c: &str);
    fn snapshot(&mut self, c: &str, state: OrderState<u64x, u64x>, q: i64, s: i64, variant: u64);
    fn cancel_resp(&mut self, c: &str, ok: bool, variant: u64);
    /// Several reports delivered by ONE full account snapshot (all ids live on one exchange).
    /// `false` when this entry-point family has no such call.
    fn snapshot_batch(&mut self, _items: Vec<(String, OrderState<u64x, u64x>, i64, i64)>, _variant: u64) -> bool {
        false
    }
    fn set(&mut self, c: &str, st: &Value);
    fn project(&self) -> Value;
    /// store and restore the state that holds the orders (serde_json round trip)
    fn persist(&mut self) -> Result<(), String>;
}

fn round_trip<T: serde::Serialize + serde::de::DeserializeOwned>(v: &T) -> Result<T, String> {
    let text = serde_json::to_string(v).map_err(|e| format!("serialise: {e}"))?;
    serde_json::from_str(&text).map_err(|e| format!("deserialise: {e}"))
}
// keys used by the stand-alone `Orders` (any Debug + Clone type works for the generic impl)
#[allow(non_camel_case_types)]
type u64x = u64;

fn active_of(st: &Value) -> Option<ActiveOrderState> {
    match s(st, "k") {
        "U" => None,
        "OIF" => Some(ActiveOrderState::OpenInFlight(OpenInFlight)),
        "Open" => Some(ActiveOrderState::Open(open_of(&st["m"]).expect("Open has meta"))),
        "CIF" => Some(ActiveOrderState::CancelInFlight(CancelInFlight { order: open_of(&st["m"]) })),
        k => usage(&format!("bad state kind {k}")),
    }
}

// ---------------------------------------------------------------------------------------------
// mode `orders`: a stand-alone Orders<u64, u64>
// ---------------------------------------------------------------------------------------------
struct DirectSut {
    orders: Orders<u64, u64>,
}

fn key_direct(c: &str) -> OrderKey<u64, u64> {
    OrderKey { exchange: 7, instrument: 3, strategy: StrategyId::new("vh"), cid: ClientOrderId::new(c) }
}

fn order_with<E, I, S>(key: OrderKey<E, I>, q: i64, sv: i64, state: S) -> Order<E, I, S> {
    let (side, price, kind, tif) = bundle(sv);
    Order { key, side, price: dec(price), quantity: dec(q), kind, time_in_force: tif, state }
}

fn order_err<A, I>(variant: u64) -> OrderError<A, I> {
    match variant % 3 {
        0 => OrderError::Connectivity(ConnectivityError::Timeout),
        1 => OrderError::Rejected(ApiError::OrderAlreadyCancelled),
        _ => OrderError::Rejected(ApiError::RateLimit),
    }
}

impl Sut for DirectSut {
    fn record_open(&mut self, c: &str, q: i64, sv: i64) {
        let (side, price, kind, tif) = bundle(sv);
        let req = OrderRequestOpen {
            key: key_direct(c),
            state: RequestOpen { side, price: dec(price), quantity: dec(q), kind, time_in_force: tif },
        };
        self.orders.record_in_flight_open(&req);
    }
    fn record_cancel(&mut self, c: &str) {
        let id = self.orders.0.get(&ClientOrderId::new(c)).and_then(|o| o.state.open_meta()).map(|o| o.id.clone());
        let req = OrderRequestCancel { key: key_direct(c), state: RequestCancel { id } };
        self.orders.record_in_flight_cancel(&req);
    }
    fn snapshot(&mut self, c: &str, state: OrderState<u64, u64>, q: i64, sv: i64, _variant: u64) {
        let order = order_with(key_direct(c), q, sv, state);
        self.orders.update_from_order_snapshot(Snapshot(&order));
    }
    fn cancel_resp(&mut self, c: &str, ok: bool, variant: u64) {
        let state = if ok {
            Ok(Cancelled::new(oid(1), time(variant as i64 % 5)))
        } else {
            Err(order_err::<u64, u64>(variant))
        };
        let resp: OrderResponseCancel<u64, u64, u64> = OrderResponseCancel { key: key_direct(c), state };
        self.orders.update_from_cancel_response(&resp);
    }
    fn set(&mut self, c: &str, st: &Value) {
        let cid = ClientOrderId::new(c);
        match active_of(st) {
            None => {
                self.orders.0.remove(&cid);
            }
            Some(a) => {
                self.orders.0.insert(cid, order_with(key_direct(c), i(st, "q"), i(st, "s"), a));
            }
        }
    }
    fn persist(&mut self) -> Result<(), String> {
        self.orders = round_trip(&self.orders)?;
        Ok(())
    }
    fn project(&self) -> Value {
        let mut m = serde_json::Map::new();
        for c in CIDS {
            let v = self.orders.0.get(&ClientOrderId::new(c)).map(project_order).unwrap_or_else(untracked);
            m.insert(c.to_string(), v);
        }
        // any other key in the map is a foreign entry: make the projection unparseable as a state
        for k in self.orders.0.keys() {
            if !CIDS.contains(&k.0.as_str()) {
                m.insert(k.0.to_string(), json!("foreign"));
            }
        }
        Value::Object(m)
    }
}

// ---------------------------------------------------------------------------------------------
// mode `engine`: EngineState::update_from_account + InFlightRequestRecorder for EngineState,
// c1 lives on instrument 0 and c2 on instrument 1 (both exchange 0), c3 on instrument 2 (exchange 1)
// ---------------------------------------------------------------------------------------------
struct EngineSut {
    state: world::State,
}

fn home(c: &str) -> (ExchangeIndex, InstrumentIndex) {
    match c {
        "c1" => (ExchangeIndex(0), InstrumentIndex(0)),
        "c2" => (ExchangeIndex(0), InstrumentIndex(1)),
        _ => (ExchangeIndex(1), InstrumentIndex(2)),
    }
}
fn key_engine(c: &str) -> OrderKey<ExchangeIndex, InstrumentIndex> {
    let (exchange, instrument) = home(c);
    OrderKey { exchange, instrument, strategy: StrategyId::new("vh"), cid: ClientOrderId::new(c) }
}

fn reindex(state: OrderState<u64, u64>) -> OrderState<AssetIndex, InstrumentIndex> {
    match state {
        OrderState::Active(a) => OrderState::Active(a),
        OrderState::Inactive(i) => OrderState::Inactive(match i {
            InactiveOrderState::Cancelled(c) => InactiveOrderState::Cancelled(c),
            InactiveOrderState::FullyFilled => InactiveOrderState::FullyFilled,
            InactiveOrderState::Expired => InactiveOrderState::Expired,
            InactiveOrderState::OpenFailed(_) => InactiveOrderState::OpenFailed(order_err(1)),
        }),
    }
}

/// A full account snapshot lists every instrument of the exchange, most of them without any order
/// report: entries without reports are put in front of, between and behind the ones that carry some.
fn with_empty_instruments(
    exchange: ExchangeIndex,
    mut instruments: Vec<InstrumentAccountSnapshot<ExchangeIndex, AssetIndex, InstrumentIndex>>,
    variant: u64,
) -> Vec<InstrumentAccountSnapshot<ExchangeIndex, AssetIndex, InstrumentIndex>> {
    let all: [usize; 2] = if exchange == ExchangeIndex(0) { [0, 1] } else { [2, 3] };
    let mut at = variant as usize;
    for i in all {
        if variant % 5 != 4 && !instruments.iter().any(|s| s.instrument == InstrumentIndex(i)) {
            let pos = at % (instruments.len() + 1);
            instruments.insert(pos, InstrumentAccountSnapshot { instrument: InstrumentIndex(i), orders: vec![] });
            at /= 2;
        }
    }
    instruments
}

impl Sut for EngineSut {
    fn record_open(&mut self, c: &str, q: i64, sv: i64) {
        let (side, price, kind, tif) = bundle(sv);
        let req = OrderRequestOpen {
            key: key_engine(c),
            state: RequestOpen { side, price: dec(price), quantity: dec(q), kind, time_in_force: tif },
        };
        self.state.record_in_flight_open(&req);
    }
    fn record_cancel(&mut self, c: &str) {
        let req = OrderRequestCancel { key: key_engine(c), state: RequestCancel { id: None } };
        self.state.record_in_flight_cancel(&req);
    }
    fn snapshot(&mut self, c: &str, state: OrderState<u64, u64>, q: i64, sv: i64, variant: u64) {
        let (exchange, instrument) = home(c);
        let order = order_with(key_engine(c), q, sv, reindex(state));
        let kind = if variant % 2 == 0 {
            AccountEventKind::OrderSnapshot(Snapshot(order))
        } else {
            // the same report delivered inside a full account snapshot
            AccountEventKind::Snapshot(AccountSnapshot {
                exchange,
                balances: vec![],
                instruments: with_empty_instruments(exchange, vec![InstrumentAccountSnapshot { instrument, orders: vec![order] }], variant / 2),
            })
        };
        let _ = self.state.update_from_account(&AccountEvent { exchange, kind });
    }
    fn snapshot_batch(&mut self, items: Vec<(String, OrderState<u64, u64>, i64, i64)>, variant: u64) -> bool {
        let (exchange, _) = home(&items[0].0);
        // one InstrumentAccountSnapshot per instrument, reports in the delivered sequence
        let mut instruments: Vec<InstrumentAccountSnapshot<ExchangeIndex, AssetIndex, InstrumentIndex>> = vec![];
        for (c, state, q, sv) in items {
            let (ex, instrument) = home(&c);
            assert_eq!(ex, exchange, "a batch lives on one exchange");
            let order = order_with(key_engine(&c), q, sv, reindex(state));
            match instruments.iter_mut().find(|i| i.instrument == instrument) {
                Some(i) => i.orders.push(order),
                None => instruments.push(InstrumentAccountSnapshot { instrument, orders: vec![order] }),
            }
        }
        let instruments = with_empty_instruments(exchange, instruments, variant);
        let kind = AccountEventKind::Snapshot(AccountSnapshot { exchange, balances: vec![], instruments });
        let _ = self.state.update_from_account(&AccountEvent { exchange, kind });
        true
    }
    fn cancel_resp(&mut self, c: &str, ok: bool, variant: u64) {
        let (exchange, _) = home(c);
        let state = if ok { Ok(Cancelled::new(oid(1), time(variant as i64 % 5))) } else { Err(order_err(variant)) };
        let resp = OrderResponseCancel { key: key_engine(c), state };
        let _ = self.state.update_from_account(&AccountEvent { exchange, kind: AccountEventKind::OrderCancelled(resp) });
    }
    fn set(&mut self, c: &str, st: &Value) {
        let (_, instrument) = home(c);
        let cid = ClientOrderId::new(c);
        let orders = &mut self.state.instruments.instrument_index_mut(&instrument).orders;
        match active_of(st) {
            None => {
                orders.0.remove(&cid);
            }
            Some(a) => {
                orders.0.insert(cid, order_with(key_engine(c), i(st, "q"), i(st, "s"), a));
            }
        }
    }
    fn persist(&mut self) -> Result<(), String> {
        // (the instrument states hold the orders; a whole EngineState has non-string map keys)
        self.state.instruments = round_trip(&self.state.instruments)?;
        Ok(())
    }
    fn project(&self) -> Value {
        let mut m = serde_json::Map::new();
        for c in CIDS {
            m.insert(c.to_string(), untracked());
        }
        for (idx, (_, inst)) in self.state.instruments.0.iter().enumerate() {
            for (cid, o) in inst.orders.0.iter() {
                let c = cid.0.as_str();
                // an order must live on its own instrument, keyed consistently
                let ok = CIDS.contains(&c) && home(c).1 == InstrumentIndex(idx) && o.key == key_engine(c);
                let v = if ok && m[c] == untracked() { project_order(o) } else { json!("misplaced") };
                m.insert(c.to_string(), v);
            }
        }
        Value::Object(m)
    }
}

// ---------------------------------------------------------------------------------------------
fn new_sut(mode: &str) -> Box<dyn Sut> {
    match mode {
        "orders" => Box::new(DirectSut { orders: Orders::default() }),
        "engine" => Box::new(EngineSut { state: world::engine_state(Default::default()) }),
        m => usage(&format!("unknown mode {m}")),
    }
}

fn report_state(e: &Value, variant: u64) -> OrderState<u64, u64> {
    match s(e, "k") {
        "OIF" => OrderState::active(OpenInFlight),
        "Open" => OrderState::active(open_of(&e["m"]).expect("open report has meta")),
        "CIF" => OrderState::active(CancelInFlight { order: open_of(&e["m"]) }),
        "Inactive" => match variant % 4 {
            0 => OrderState::inactive(Cancelled::new(oid(1), time(variant as i64 % 7))),
            1 => OrderState::fully_filled(),
            2 => OrderState::expired(),
            _ => OrderState::inactive(order_err::<u64, u64>(variant)),
        },
        k => usage(&format!("bad report kind {k}")),
    }
}

fn apply(sut: &mut dyn Sut, e: &Value, variant: u64) {
    let c = s(e, "c");
    match s(e, "a") {
        "RecordOpen" => sut.record_open(c, i(e, "q"), i(e, "s")),
        "RecordCancel" => sut.record_cancel(c),
        "CancelResp" => sut.cancel_resp(c, b(e, "ok"), variant),
        "Snap" => sut.snapshot(c, report_state(e, variant), i(e, "q"), i(e, "s"), variant),
        a => usage(&format!("unknown action {a}")),
    }
}

fn log_step(out: &mut Out, sut: &mut dyn Sut, e: &Value, variant: u64) {
    // a replayed scenario carries the variant (report flavour) it was recorded with
    let variant = e.get("v").and_then(Value::as_u64).unwrap_or(variant);
    let r = catch(|| apply(sut, e, variant));
    let mut line = e.clone();
    line["v"] = json!(variant);
    line["post"] = match r {
        Ok(()) => sut.project(),
        Err(p) => json!({"panic": p}),
    };
    out.line(&line);
}

/// One account snapshot carrying `evs` (all `Snap`, one exchange): a single line
/// `{"a":"Batch","evs":[..],"post":..}`; the spec applies the reports in the listed sequence.
fn log_batch(out: &mut Out, sut: &mut dyn Sut, evs: &[Value], variant: u64) {
    let items = evs
        .iter()
        .enumerate()
        .map(|(n, e)| (s(e, "c").to_string(), report_state(e, variant + n as u64), i(e, "q"), i(e, "s")))
        .collect::<Vec<_>>();
    let r = catch(|| {
        let done = sut.snapshot_batch(items, variant);
        assert!(done, "batch on a family without account snapshots");
    });
    let post = match r {
        Ok(()) => sut.project(),
        Err(p) => json!({"panic": p}),
    };
    out.line(&json!({"a": "Batch", "evs": evs, "v": variant, "post": post}));
}

fn log_persist(out: &mut Out, sut: &mut dyn Sut) {
    let post = match catch(|| sut.persist()) {
        Ok(Ok(())) => sut.project(),
        Ok(Err(e)) => json!({"panic": e}),
        Err(p) => json!({"panic": p}),
    };
    out.line(&json!({"a": "Persist", "post": post}));
}

fn same_exchange(a: &Value, b: &Value) -> bool {
    home(s(a, "c")).0 == home(s(b, "c")).0
}

fn reset(out: &mut Out, sut: &mut dyn Sut, init: Option<&Value>) {
    for c in CIDS {
        let st = init.and_then(|m| m.get(c)).cloned().unwrap_or_else(untracked);
        sut.set(c, &st);
    }
    out.line(&json!({"a": "Reset", "post": sut.project()}));
}

fn ev(a: &str, c: &str, k: &str, q: i64, sv: i64, m: Value, ok: bool) -> Value {
    json!({"a": a, "c": c, "k": k, "q": q, "s": sv, "m": m, "ok": ok})
}

fn main() {
    let args = Args::parse();
    let mode = args.str("mode", "orders");
    let mut out = Out::create(args.req("out"));
    let mut sut = new_sut(&mode);
    let mut batches = 0usize;
    let mut persists = 0usize;
    match args.cmd.as_str() {
        "run" => {
            let scenarios = read_ndjson(args.req("scenarios"));
            for (n, scn) in scenarios.iter().enumerate() {
                reset(&mut out, sut.as_mut(), scn.get("init"));
                let evs = scn["evs"].as_array().expect("evs");
                let mut j = 0;
                while j < evs.len() {
                    // in the engine family a third of the runs of consecutive reports of one exchange
                    // arrive together, inside one full account snapshot
                    if s(&evs[j], "a") == "Persist" {
                        persists += 1;
                        log_persist(&mut out, sut.as_mut());
                        j += 1;
                        continue;
                    }
                    if (n + j) % 7 == 3 {
                        persists += 1;
                        log_persist(&mut out, sut.as_mut());
                    }
                    if s(&evs[j], "a") == "Batch" {
                        // replay of a recorded scenario: the grouping is given
                        batches += 1;
                        let v = evs[j].get("v").and_then(Value::as_u64).unwrap_or((n + j) as u64);
                        log_batch(&mut out, sut.as_mut(), evs[j]["evs"].as_array().expect("batch evs"), v);
                        j += 1;
                        continue;
                    }
                    let mut k = j + 1;
                    if mode == "engine" && (n + j) % 3 == 0 && s(&evs[j], "a") == "Snap" {
                        while k < evs.len() && k - j < 4 && s(&evs[k], "a") == "Snap" && same_exchange(&evs[j], &evs[k]) {
                            k += 1;
                        }
                    }
                    if k - j >= 2 {
                        batches += 1;
                        log_batch(&mut out, sut.as_mut(), &evs[j..k], (n + j) as u64);
                    } else {
                        k = j + 1;
                        log_step(&mut out, sut.as_mut(), &evs[j], (n + j) as u64);
                    }
                    j = k;
                }
            }
        }
        "random" => {
            let mut rng = rng(args.u64("seed", 1));
            let steps = args.usize("steps", 5000);
            let tmax = args.u64("tmax", 6) as i64;
            let mut since_reset = usize::MAX;
            for n in 0..steps {
                if since_reset >= 40 {
                    reset(&mut out, sut.as_mut(), None);
                    since_reset = 0;
                }
                since_reset += 1;
                if rng.random_range(0..100) < 4 {
                    persists += 1;
                    log_persist(&mut out, sut.as_mut());
                }
                if mode == "engine" && rng.random_range(0..100) < 12 {
                    // one account snapshot with 2..=4 reports about c1 / c2 (exchange 0) or c3 (exchange 1),
                    // typically several about the same id: open then terminal, terminal then open, stale, ties
                    let pool: &[&str] = if rng.random_bool(0.75) { &["c1", "c2"] } else { &["c3"] };
                    let proj = sut.project();
                    let mut qs = std::collections::HashMap::new();
                    let len = rng.random_range(2..=4);
                    let mut evs = vec![];
                    for _ in 0..len {
                        let c = if rng.random_bool(0.7) { pool[0] } else { pool[pool.len() - 1] };
                        let q = *qs.entry(c).or_insert_with(|| {
                            let cur = &proj[c];
                            if cur["k"] != "U" { cur["q"].as_i64().unwrap_or(2) } else { rng.random_range(1..=3) }
                        });
                        let sv = rng.random_range(1..=2);
                        let f = match rng.random_range(0..4) { 0 => 0, 1 => q, _ => rng.random_range(0..=q) };
                        let m = json!({"has": true, "id": rng.random_range(1..=2), "t": rng.random_range(0..=tmax), "f": f});
                        evs.push(match rng.random_range(0..100) {
                            0..=29 => ev("Snap", c, "Inactive", q, sv, meta_json(None), false),
                            30..=34 => ev("Snap", c, "OIF", q, sv, meta_json(None), false),
                            35..=89 => ev("Snap", c, "Open", q, sv, m, false),
                            _ => ev("Snap", c, "CIF", q, sv, m, false),
                        });
                    }
                    batches += 1;
                    log_batch(&mut out, sut.as_mut(), &evs, n as u64);
                    continue;
                }
                let c = CIDS[rng.random_range(0..CIDS.len())];
                // what is tracked now decides the quantity reports carry (as the execution manager does)
                let cur = sut.project()[c].clone();
                let tracked = cur["k"] != "U";
                let q = if tracked { cur["q"].as_i64().unwrap_or(2) } else { rng.random_range(1..=3) };
                let sv = rng.random_range(1..=2);
                let meta = |rng: &mut rand::rngs::StdRng| {
                    // bias the fill towards the interesting ends
                    let f = match rng.random_range(0..4) { 0 => 0, 1 => q, _ => rng.random_range(0..=q) };
                    json!({"has": true, "id": rng.random_range(1..=2), "t": rng.random_range(0..=tmax), "f": f})
                };
                let e = match rng.random_range(0..100) {
                    0..=14 => ev("RecordOpen", c, "", if tracked && rng.random_bool(0.5) { q } else { rng.random_range(1..=3) }, sv, meta_json(None), false),
                    15..=26 => ev("RecordCancel", c, "", 0, 0, meta_json(None), false),
                    27..=36 => ev("CancelResp", c, "", 0, 0, meta_json(None), rng.random_bool(0.5)),
                    37..=44 => ev("Snap", c, "Inactive", q, sv, meta_json(None), false),
                    45..=50 => ev("Snap", c, "OIF", q, sv, meta_json(None), false),
                    51..=84 => { let m = meta(&mut rng); ev("Snap", c, "Open", q, sv, m, false) }
                    _ => { let m = if rng.random_bool(0.3) { meta_json(None) } else { meta(&mut rng) }; ev("Snap", c, "CIF", q, sv, m, false) }
                };
                log_step(&mut out, sut.as_mut(), &e, n as u64);
            }
        }
        c => usage(&format!("unknown command {c}")),
    }
    let n = out.finish();
    println!("{}", json!({"lines": n, "mode": mode, "account_snapshots_with_several_reports": batches, "store_restore_round_trips": persists}));
}
