--------------------------- MODULE Trace_BinanceL2 ---------------------------
(* Trace validation (impl -> spec) for C06.  One NDJSON line per step:        *)
(*  {"a":"Reset",  "world":{rule,expected,chg:{i:[..]},cut:{i:[..]}}, ..}     *)
(*        a new world; no connection yet                                      *)
(*  {"a":"Connect","snap":{i:S},"pre":[{i,k}..],"buf":[{i,k}..], ..}          *)
(*        a connection is established (first one or reconnect): real          *)
(*        Transformer::init with the snapshot events; in mode `init` the real *)
(*        ExchangeWsStream::init over a loopback websocket, where `pre` are    *)
(*        the depth frames the server sent before the first subscription      *)
(*        confirmation (the validator discards them) and `buf` those between   *)
(*        the first and the last expected confirmation (buffered)             *)
(*  {"a":"Deliver","i":i,"k":k,"out":Dropped|Admitted|Error,"err":..,"term":..}*)
(*        event k of instrument i (payload synthesised from the world) pushed *)
(*        through the real transformer; outputs applied to the local book     *)
(*  every line: "emit":[{t,i,k}..] what the consumer received during the step, *)
(*              in order (t = S snapshot / U update / E sequence error);       *)
(*              "post":{book:{i:{bids,asks,seq}}, sq:{i:{processed,lastId}},   *)
(*                      conn, notices}  as observed after the step            *)
(* Each line must be the corresponding BinanceL2 action with exactly the      *)
(* logged outcome, emission order (per instrument) and post-state; otherwise  *)
(* its number is recorded in `bad` and the rest of the segment (up to the     *)
(* next Reset) is skipped.                                                    *)
EXTENDS BinanceL2, Json, IOUtils

Rec == ndJsonDeserialize(IOEnv.TRACE)

VARIABLES l, bad, broken
tvars == <<rule, chg, cut, snap, sq, book, expected, emitted, conn, notices, nreinit, ndeliv, admitted, clean, last, l, bad, broken>>

ProjB(b) == [bids |-> OB!Levels(b.bids, "bids"), asks |-> OB!Levels(b.asks, "asks"), seq |-> b.seq]
ProjS(s) == [processed |-> s.processed, lastId |-> s.lastId]
Fn(r)    == [i \in INSTR |-> r[i]]

Sel(items, i) == SelectSeq(items, LAMBDA x : x.i = i)

\* the logged observation equals the (primed) specification state; per instrument the consumer
\* received exactly what the specification emits, in that order
PostOK(r) ==
  LET p == r.post IN
  /\ \A i \in INSTR : p.book[i] = ProjB(book'[i]) /\ p.sq[i] = ProjS(sq'[i])
  /\ p.conn = conn'
  /\ p.notices = notices'
  /\ \A i \in INSTR : emitted'[i] = (IF r.a = "Connect" THEN << >> ELSE emitted[i]) \o Sel(r.emit, i)

NoConn == /\ snap' = [i \in INSTR |-> 0]
          /\ sq' = [i \in INSTR |-> [processed |-> 0, lastId |-> 0, status |-> "err"]]
          /\ book' = NoBooks
          /\ emitted' = [i \in INSTR |-> << >>]
          /\ conn' = "down" /\ notices' = 0 /\ nreinit' = -1 /\ ndeliv' = 0   \* (the first Connect makes nreinit 0)
          /\ admitted' = [i \in INSTR |-> << >>]
          /\ clean' = [i \in INSTR |-> [phase |-> "dirty", next |-> 0]]
          /\ last' = Obs("World", "", 0, "")

TInit == /\ l = 1 /\ bad = << >> /\ broken = TRUE        \* nothing is judged before the first Reset
         /\ InitWith("Spot", [i \in INSTR |-> <<[side |-> "b", p |-> 1, a |-> 0]>>], [i \in INSTR |-> <<1>>], [i \in INSTR |-> 0])

WellFormedWorld(w) ==
  /\ w.rule \in {"Spot", "Futures"}
  /\ w.expected \in {1, 2}
  /\ \A i \in INSTR : /\ Len(w.cut[i]) >= 1 /\ w.cut[i][Len(w.cut[i])] = Len(w.chg[i])
                      /\ \A j \in 1..(Len(w.cut[i]) - 1) : w.cut[i][j] < w.cut[i][j + 1]
                      /\ w.cut[i][1] >= 1

\* a new world, not connected yet
TReset == /\ Rec[l].a = "Reset"
          /\ rule' = Rec[l].world.rule /\ expected' = Rec[l].world.expected
          /\ chg' = Fn(Rec[l].world.chg) /\ cut' = Fn(Rec[l].world.cut)
          /\ NoConn
          /\ LET ok == WellFormedWorld(Rec[l].world)
             IN broken' = ~ok /\ bad' = IF ok THEN bad ELSE Append(bad, l)

FramesOf(fs) == [j \in DOMAIN fs |-> Frame(fs[j].i, fs[j].k)]

TConnect == /\ ~broken /\ Rec[l].a = "Connect"
            /\ ReinitWithBuf(Fn(Rec[l].snap), FramesOf(Rec[l].buf))                         \* the spec's own action
            /\ PostOK(Rec[l])
            /\ UNCHANGED <<bad, broken>>

TDeliver == /\ ~broken /\ Rec[l].a = "Deliver"
            /\ LET i == Rec[l].i  k == Rec[l].k IN
               /\ k \in 1..NEv(i)
               /\ (DeliverDropped(i, k) \/ DeliverAdmitted(i, k) \/ DeliverError(i, k))   \* the spec's own actions
            /\ last'.out = Rec[l].out
            /\ (Rec[l].out = "Error" => Rec[l].err = "InvalidSequence" /\ Rec[l].term = TRUE)
            /\ (Rec[l].out # "Error" => Rec[l].err = "none")
            /\ PostOK(Rec[l])
            /\ UNCHANGED <<bad, broken>>

\* is line l (not a Reset) a step the specification allows?  (same predicates, unprimed form)
Allowed(r) ==
  CASE r.a = "Deliver" ->
         /\ conn = "up" /\ r.k \in 1..NEv(r.i)
         /\ LET e == Event(r.i, r.k)  out == Outcome(rule, e, sq[r.i]) IN
            /\ r.out = out
            /\ (out = "Error" => r.err = "InvalidSequence" /\ r.term = TRUE /\ r.post.conn = "down" /\ r.post.notices = notices + 1)
            /\ (out # "Error" => r.err = "none" /\ r.post.conn = "up" /\ r.post.notices = notices)
            /\ \A j \in INSTR \ {r.i} : r.post.book[j] = ProjB(book[j]) /\ r.post.sq[j] = ProjS(sq[j]) /\ Sel(r.emit, j) = << >>
            /\ Sel(r.emit, r.i) = (CASE out = "Admitted" -> <<EItem("U", r.i, r.k)>>
                                     [] out = "Error"    -> <<EItem("E", r.i, r.k)>>
                                     [] OTHER            -> << >>)
            /\ IF out = "Admitted"
               THEN /\ r.post.sq[r.i] = [processed |-> sq[r.i].processed + 1, lastId |-> e.u]
                    /\ \E nb \in OB!UpdateResults(book[r.i], e.b, e.a, e.u) : r.post.book[r.i] = ProjB(nb)
               ELSE r.post.sq[r.i] = ProjS(sq[r.i]) /\ r.post.book[r.i] = ProjB(book[r.i])
    [] r.a = "Connect" ->
         /\ conn = "down"
         /\ \A i \in INSTR : r.snap[i] \in 0..LenM(i)
         /\ ValidBuffer(expected, FramesOf(r.buf))
         /\ LET c == Connected(Fn(r.snap), FramesOf(r.buf), book) IN
            /\ \A i \in INSTR : /\ r.post.book[i] = ProjB(c.book[i])
                                /\ r.post.sq[i] = ProjS(c.sq[i])
                                /\ Sel(r.emit, i) = c.emitted[i]
            /\ r.post.conn = c.conn /\ r.post.notices = notices + c.notice
    [] OTHER -> FALSE

TBad == /\ ~broken /\ Rec[l].a # "Reset"
        /\ ~Allowed(Rec[l])
        /\ bad' = Append(bad, l) /\ broken' = TRUE
        /\ UNCHANGED <<rule, chg, cut, snap, sq, book, expected, emitted, conn, notices, nreinit, ndeliv, admitted, clean, last>>

TSkip == /\ broken /\ Rec[l].a # "Reset"
         /\ UNCHANGED <<rule, chg, cut, snap, sq, book, expected, emitted, conn, notices, nreinit, ndeliv, admitted, clean, last, bad, broken>>

TNext == /\ l <= Len(Rec)
         /\ l' = l + 1
         /\ (TReset \/ TConnect \/ TDeliver \/ TBad \/ TSkip)

TSpec == TInit /\ [][TNext]_tvars

\* the C06 invariants and action formulas on every accepted step of the implementation
TInv == broken \/ nreinit = -1 \/ (TypeOK /\ Chain /\ BookValid /\ BookNeverWrong /\ BookIsMap /\ Told /\ CleanNeverErrors
                                  /\ EmissionOrder)
\* (ConsumerFold - the book is the fold of the emissions - is a theorem of the specification checked in
\*  the MC_ runs; re-folding long chains at every line of a trace is quadratic and adds nothing here)
TProps == [][broken \/ broken' \/ last'.a # "Deliver" \/ StepProps]_tvars

Done == l = Len(Rec) + 1 => PrintT(<<"TRACE_END", ToJson(bad)>>)
Post == PrintT(<<"TRACE_DONE", TLCGet("stats").diameter, Len(Rec)>>)
=============================================================================
