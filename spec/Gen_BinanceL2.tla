--------------------------- MODULE Gen_BinanceL2 ---------------------------
(* Scenario generation for the C06 conformance harness (spec -> impl).       *)
(* One JSON line per behaviour:                                              *)
(*   {rule, world:{i:{chg,cut,events:[{U,u,pu,b,a}..]}}, steps:[..]}         *)
(*   steps: {a:"Init"|"Reinit", snap:{i:S}, books:{i:book}}                  *)
(*          {a:"Deliver", i, k, out, book, sq, conn, notices}                *)
(* where book / sq are the EXPECTED local book and sequencer of instrument i *)
(* after the delivery (the specification is deterministic here: event lists  *)
(* built from the ground truth never repeat a price).                        *)
(*  GSpecT (exhaustive): every initial world of the small universe x every   *)
(*         delivery sequence up to MaxLen (a behaviour ends at an Error).    *)
(*  GSpecR (simulation): random world per behaviour (drawn in a setup step), *)
(*         deliveries drawn with RandomElement, half of them biased to the   *)
(*         next link so that long chains occur; Reinit after every Error.    *)
EXTENDS MC_BinanceL2, Json
CONSTANTS MaxLen     \* steps per behaviour
VARIABLES phase, hist, done

gvars == <<rule, chg, cut, snap, sq, book, conn, notices, nreinit, ndeliv, admitted, clean, last, phase, hist, done>>

ProjB(b) == [bids |-> OB!Levels(b.bids, "bids"), asks |-> OB!Levels(b.asks, "asks"), seq |-> b.seq]
ProjS(s) == [processed |-> s.processed, lastId |-> s.lastId]

InitRec(a) == [a |-> a, snap |-> snap', books |-> [i \in INSTR |-> ProjB(book'[i])]]
DeliverRec == [a |-> "Deliver", i |-> last'.i, k |-> last'.k, out |-> last'.out,
               book |-> ProjB(book'[last'.i]), sq |-> ProjS(sq'[last'.i]), conn |-> conn', notices |-> notices']

World == [i \in INSTR |-> [chg |-> chg[i], cut |-> cut[i], events |-> [k \in 1..NEv(i) |-> Event(i, k)]]]

\* ---------------------------------------------------------------- exhaustive
GInitT == /\ Init
          /\ phase = "run" /\ done = FALSE
          /\ hist = <<[a |-> "Init", snap |-> snap, books |-> [i \in INSTR |-> ProjB(book[i])]]>>

GStepT == /\ ~done /\ conn = "up" /\ Len(hist) <= MaxLen
          /\ (Dropped \/ Admitted \/ Error)
          /\ hist' = Append(hist, DeliverRec)
          /\ UNCHANGED <<phase, done>>

GFinishT == /\ ~done /\ (conn = "down" \/ Len(hist) = MaxLen + 1)
            /\ done' = TRUE
            /\ UNCHANGED <<rule, chg, cut, snap, sq, book, conn, notices, nreinit, ndeliv, admitted, clean, last, phase, hist>>

GSpecT == GInitT /\ [][GStepT \/ GFinishT]_gvars

\* ---------------------------------------------------------------- simulation
CHANGE == [side : {"b", "a"}, p : PRICE, a : AMOUNT]
Trivial == <<[side |-> "b", p |-> CHOOSE p \in PRICE : TRUE, a |-> 0]>>

GInitR == /\ InitWith("Spot", [i \in INSTR |-> Trivial], [i \in INSTR |-> <<1>>], [i \in INSTR |-> 0])
          /\ phase = "setup" /\ hist = << >> /\ done = FALSE

GSetup == /\ phase = "setup" /\ phase' = "run"
          /\ LET r  == RandomElement(RULES)
                 ch == [i \in INSTR |-> [j \in 1..MCM |-> RandomElement(CHANGE)]]
                 ct == [i \in INSTR |-> RandomElement(Cuts(MCM, MaxEvents))]
                 S  == [i \in INSTR |-> RandomElement(0..MCM)]
             IN /\ rule' = r /\ chg' = ch /\ cut' = ct /\ snap' = S
                /\ sq' = [i \in INSTR |-> Fresh(S[i])]
                /\ book' = [i \in INSTR |-> TruthOf(ch[i], S[i])]
          /\ UNCHANGED <<conn, notices, nreinit, ndeliv, admitted, clean, last, done>>
          /\ hist' = <<InitRec("Init")>>

NextLinkIdx(i) ==
  IF admitted[i] # << >> THEN (IF LastOf(admitted[i]) < NEv(i) THEN LastOf(admitted[i]) + 1 ELSE NEv(i))
  ELSE IF \E k \in 1..NEv(i) : Covers(rule, i, k, snap[i]) THEN CHOOSE k \in 1..NEv(i) : Covers(rule, i, k, snap[i])
  ELSE 1

GDeliver == /\ phase = "run" /\ ~done /\ conn = "up" /\ Len(hist) <= MaxLen
            /\ LET i == RandomElement(INSTR)
                   k == IF RandomElement(1..3) # 1 THEN NextLinkIdx(i) ELSE RandomElement(1..NEv(i))
               IN DeliverDropped(i, k) \/ DeliverAdmitted(i, k) \/ DeliverError(i, k)
            /\ hist' = Append(hist, DeliverRec)
            /\ UNCHANGED <<phase, done>>

GReinit == /\ phase = "run" /\ ~done /\ conn = "down" /\ Len(hist) <= MaxLen
           /\ ReinitWith([i \in INSTR |-> RandomElement(0..LenM(i))])
           /\ hist' = Append(hist, InitRec("Reinit"))
           /\ UNCHANGED <<phase, done>>

GFinishR == /\ phase = "run" /\ ~done /\ Len(hist) = MaxLen + 1
            /\ done' = TRUE
            /\ UNCHANGED <<rule, chg, cut, snap, sq, book, conn, notices, nreinit, ndeliv, admitted, clean, last, phase, hist>>

GSpecR == GInitR /\ [][GSetup \/ GDeliver \/ GReinit \/ GFinishR]_gvars

Emit == done => PrintT(<<"SCN", ToJson([rule |-> rule, world |-> World, steps |-> hist])>>)
=============================================================================
