SPECIFICATION Spec
CONSTANTS
  Values = {0, 1, 2, 3, 4}
  NegMag = {2}
  Gaps = {0, 2}
  MaxLen = 5
  MaxResets = 0
INVARIANTS TypeOK RunIsRef ReadIsCurrent ResetIsInit PeakToTrough Recovery OnePerPeak NoneIffMonotone MaxIsLargest ClassicMDD
PROPERTIES ReadingIsPure PersistIsStutter
CHECK_DEADLOCK FALSE
VIEW View
