SPECIFICATION TSpec
CONSTANTS
  Values = {0, 1, 2, 3, 4, 5, 6, 8, 10, 12}
  NegMag = {1, 2, 4}
  Gaps = {0, 1, 2, 3, 4}
  MaxLen = 14
  MaxResets = 0
INVARIANTS Done TypeOK RunIsRef ReadIsCurrent PeakToTrough Recovery OnePerPeak NoneIffMonotone MaxIsLargest
PROPERTIES ReadingIsPure PersistIsStutter
POSTCONDITION Post
CHECK_DEADLOCK FALSE
