SPECIFICATION TSpec
CONSTANTS
  CID = {"k1", "k2", "k3", "k4", "k5", "k6", "k7", "k8", "k9", "k10", "k11", "k12", "k13", "k14", "k15", "k16", "k17", "k18", "k19", "k20", "k21", "k22", "k23", "k24", "k25", "k26", "k27", "k28", "k29", "k30", "k31", "k32", "k33", "k34", "k35", "k36", "k37", "k38", "k39", "k40", "z1", "z2", "z3", "z4", "z5", "z6", "z7", "z8", "z9", "z10", "z11", "z12", "z13", "z14", "z15", "z16", "z17", "z18", "z19", "z20", "z21", "z22", "z23", "z24", "z25", "z26", "z27", "z28", "z29", "z30"}
  EXCH = {"binance_spot", "kraken", "binance_futures_usd", "coinbase", "okx"}
  TRADED = {"binance_spot", "kraken"}
  MaxSends = 12
  MaxKills = 2
  MaxMkt = 0
INVARIANT Done
POSTCONDITION Post
CHECK_DEADLOCK FALSE
