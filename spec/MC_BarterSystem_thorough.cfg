SPECIFICATION Spec
CONSTANTS
  CID = {"c1", "c2"}
  EXCH = {"x1", "x2"}
  MaxSends = 2
  MaxKills = 1
INVARIANTS TypeOK AtMostOnce InFlightBacked Routed ConnMatchesLinks
PROPERTIES Resolved Noticed Synced
CHECK_DEADLOCK FALSE
