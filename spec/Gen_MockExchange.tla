-------------------------- MODULE Gen_MockExchange --------------------------
(* Scenario generation for the conformance harness (spec -> impl): request    *)
(* sequences of MockExchange printed as JSON, one line per behaviour:         *)
(*   {"init": {fee, lat, bal, open, up}, "evs": [ {req, out, why, id, filled} ], "bq": [0|1]} *)
(* (`up` = FALSE: the exchange task has ended before the first request;      *)
(*  `bq[i]` = 1: request i is QUEUED TOGETHER with request i-1 - sent before  *)
(*  the answer to it is awaited: maximal runs form a burst of 2..MaxBurst     *)
(*  requests.  For the specification a burst is just its requests in queue    *)
(*  order - the steps are the ordinary ones - only the harness observes it    *)
(*  differently: one look at ledger and notifications after the whole burst;  *)
(*  `hang` = 1|2, chosen when the behaviour ends: the harness sends the        *)
(*  trailing open orders without waiting for their answers and then drops the  *)
(*  last request sender while they are inside the latency window - 1: at once, *)
(*  2: after the exchange handled them; not a step of the specification)       *)
(* The harness replays `init` + the `req` of every element into the real     *)
(* exchange; what the implementation answers is judged by Trace_MockExchange *)
(* (the `out`/`id` printed here are only what the specification expects).     *)
(*  GSpec  (exhaustive): every initial account x every request - one          *)
(*         implementation test per arm x balance situation.                   *)
(*  GSpecR (simulation): long random request sequences; the request is drawn  *)
(*         with RandomElement so that a step has a single successor; every    *)
(*         request joins the one before it with probability 1/3.              *)
(*  GSpecP (exhaustive): every PAIR of requests queued together, on accounts  *)
(*         whose balances cover none / one / both of two orders - one         *)
(*         implementation test per pair of arms x balance situation.          *)
EXTENDS MockExchange, Json
CONSTANTS MaxLen, OrderSubsets
VARIABLES init, hist, bq, hang, done

gvars == <<vars, init, hist, bq, hang, done>>

MaxBurst == 4
\* the length of the burst the latest request belongs to
RunLen(b) == IF Len(b) = 0 THEN 0
             ELSE 1 + Cardinality({k \in 1..Len(b) : \A i \in (Len(b) - k + 1)..Len(b) : b[i] = 1})
\* may request r be queued together with the one before it?  (the end of the exchange task is an
\* event of the harness, not a request)
MayJoin(r) == /\ Len(hist) > 0 /\ r.op # "kill" /\ hist[Len(hist)].req.op # "kill"
              /\ RunLen(bq) < MaxBurst

Max(S) == CHOOSE x \in S : \A y \in S : y <= x

SetToSeq(S) == LET RECURSIVE F(_) F(T) == IF T = {} THEN <<>> ELSE LET x == CHOOSE x \in T : TRUE IN <<x>> \o F(T \ {x}) IN F(S)

GInit == /\ fee \in FeePcts
         /\ lat \in Lats
         /\ bal \in {[a \in Assets |-> [total |-> f[a], free |-> f[a]]] : f \in [Assets -> BalInit]}
         /\ orders \in (IF OrderSubsets THEN SUBSET {OpenOrder(c) : c \in OpenCids}
                                          ELSE {{OpenOrder(c) : c \in OpenCids}})
         \* an exchange whose task has already ended: one account is enough (nothing depends on it)
         /\ up \in (IF \A a \in Assets : bal[a].free = Max(BalInit) THEN BOOLEAN ELSE {TRUE})
         /\ nextId = 0 /\ now = 0 /\ trades = <<>> /\ notif = <<>>
         /\ last = Resp(NoReq, "init", "-", -1, 0)
         /\ res = NoRes
         /\ init = [fee |-> fee, lat |-> lat, bal |-> bal, open |-> SetToSeq(orders), up |-> up]
         /\ hist = <<>>
         /\ bq = <<>> /\ hang = 0
         /\ done = FALSE

GStep == /\ ~done /\ Len(hist) < MaxLen
         /\ \E r \in Requests \cup {KillReq} : \E id \in FreshIds : \E tt \in ClockChoices(r) :
               Serve(r, id, tt, "offline")
         /\ hist' = Append(hist, last')
         /\ bq' = Append(bq, 0)
         /\ UNCHANGED <<init, hang, done>>

\* most requests are market orders on listed instruments (the arms with a ledger effect); the
\* rest is spread over everything a client can send.  Every draw is bound through a singleton
\* set (a RandomElement inside a LET is re-drawn at every reference).
ReqClass(c) == IF c <= 22 THEN {r \in OpenReqs : Market(r) /\ Listed(r)}
               ELSE IF c <= 26 THEN OpenReqs
               ELSE IF c <= 31 THEN TradeReqs
               ELSE IF c <= 33 THEN SnapReqs
               ELSE IF c <= 35 THEN BalReqs
               ELSE IF c <= 37 THEN OrdReqs
               ELSE IF c <= 39 THEN CancelReqs
               ELSE {KillReq}

GStepR == /\ ~done /\ Len(hist) < MaxLen
          /\ \E c \in {RandomElement(1..40)} : \E r \in {RandomElement(ReqClass(c))} : \E b \in {RandomElement(1..3)} :
                /\ \E id \in FreshIds : \E tt \in ClockChoices(r) : Serve(r, id, tt, "offline")
                /\ bq' = Append(bq, IF b = 1 /\ MayJoin(r) THEN 1 ELSE 0)
          /\ hist' = Append(hist, last')
          /\ UNCHANGED <<init, hang, done>>

\* --- pairs: two requests queued together ---
\* every market order and every query; one limit order and one cancel stand for the others (their
\* answer does not depend on the ledger)
PairReqs == {r \in Requests :
               /\ (r.op = "open" /\ ~Market(r)) => (r.side = "buy" /\ r.instr = "btc_usdt" /\ r.p = Max(Prices) /\ r.q = Max(Qtys))
               /\ (r.op = "cancel") => r.instr = "btc_usdt"}

GInitP == /\ fee \in FeePcts
          /\ lat \in Lats
          /\ bal \in {[a \in Assets |-> [total |-> v, free |-> v]] : v \in BalInit}
          /\ orders = {OpenOrder(c) : c \in OpenCids}
          /\ up = TRUE
          /\ nextId = 0 /\ now = 0 /\ trades = <<>> /\ notif = <<>>
          /\ last = Resp(NoReq, "init", "-", -1, 0)
          /\ res = NoRes
          /\ init = [fee |-> fee, lat |-> lat, bal |-> bal, open |-> SetToSeq(orders), up |-> up]
          /\ hist = <<>>
          /\ bq = <<>> /\ hang = 0
          /\ done = FALSE

GStepP == /\ ~done /\ Len(hist) < MaxLen
          /\ \E r \in PairReqs : \E id \in FreshIds : \E tt \in ClockChoices(r) : Serve(r, id, tt, "offline")
          /\ hist' = Append(hist, last')
          /\ bq' = Append(bq, IF Len(hist) = 0 THEN 0 ELSE 1)
          /\ UNCHANGED <<init, hang, done>>

GFinishWith(h) == /\ ~done /\ Len(hist) = MaxLen
                  /\ done' = TRUE
                  /\ hang' = h
                  /\ UNCHANGED <<vars, init, hist, bq>>
GFinish  == GFinishWith(0)
GFinishR == \E h \in {RandomElement(0..2)} : GFinishWith(h)
\* a pair that ends with an open order: also with a hang-up after it (both ways, alternating)
GFinishP == Len(hist) = MaxLen /\ \E h \in {0} \cup (IF hist[Len(hist)].req.op = "open" THEN {1 + (Len(trades) % 2)} ELSE {}) : GFinishWith(h)

GSpec  == GInit /\ [][GStep \/ GFinish]_gvars
GSpecR == GInit /\ [][GStepR \/ GFinishR]_gvars
GSpecP == GInitP /\ [][GStepP \/ GFinishP]_gvars

Emit == done => PrintT(<<"SCN", ToJson([init |-> init, evs |-> hist, bq |-> bq, hang |-> hang])>>)
=============================================================================
