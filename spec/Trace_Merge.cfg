SPECIFICATION TSpec
CONSTANTS
  MaxL = 99
  MaxR = 99
INVARIANTS Done TInv
PROPERTIES TProps
POSTCONDITION Post
CHECK_DEADLOCK FALSE
