SPECIFICATION Spec
CONSTANTS
  PRICE = {1, 3}
  QTY = {1, 2}
  FEE = {0, 1}
  MARK <- MarkSigned
  MaxFills = 3
INVARIANTS TypeOK AvgPositive FeesNonNegative SideSize Conservation FeesConserved
PROPERTIES ExitIff Ids QmaxAvg FreshUnreal MarkOnlyUnreal NoPriceStutter PersistIsStutter
VIEW View
CHECK_DEADLOCK FALSE
