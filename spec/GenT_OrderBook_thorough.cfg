SPECIFICATION GSpecT
CONSTANTS
  PRICE = {1, 2, 3}
  AMOUNT = {0, 1, 2}
  SEQS = {7}
  MaxLong = 2
  MaxShort = 1
  MaxSnap = 1
  StableUpTo = 20
  MaxLen = 1
  Large = 99
INVARIANT Emit
CHECK_DEADLOCK FALSE
