"""The account link of an exchange: the stream ExecutionManager::init hands to the engine - a reconnecting,
indexed account stream (subscription first, then the snapshot; snapshot delivered first, then the updates; one
notice per ended connection; back-off after failed attempts) merged with the manager's own responses.
spec/AccountLink.tla is the specification; harness/src/bin/acctlink.rs drives the REAL ExecutionManager::init +
run under tokio's paused clock around a scripted exchange client (TLC-generated scenarios from
spec/Gen_AccountLink.tla and seeded random ones) and spec/Trace_AccountLink.tla validates every recorded line.

One set of runs, several verdicts: each rejected line / harness anomaly carries the property that answers for it
  C12  order, loss, duplication, notice count, subscription-before-snapshot, back-off instants, never-ends
  C14  the notice's ExchangeId (must be the instrument map's, not the client's constant)
  C07  responses lost / late / duplicated / of the wrong kind - whatever the link is doing
  C04  updates / snapshots / responses with the wrong indices, unindexable updates delivered, a client of another
       exchange accepted
and each property reports only its own."""
import json
import vlib

TAGS = ("C12", "C14", "C07", "C04")
# harness-side anomalies (lines TLC cannot be shown as steps): who answers for them
ANOMALY_OWNER = {
    "panic": ("C12", "ExecutionManager::init / the merged account stream panicked"),
    "runaway": ("C12", "the merged stream produced far more items than the script contains"),
    "foreign": ("C07", "an event nobody scripted on the merged stream"),
    "reqclosed": ("C07", "the manager's request channel was closed while the engine still had requests"),
    "mgrpanic": ("C07", "ExecutionManager::run panicked"),
    "mgrhang": ("C07", "ExecutionManager::run did not return after Shutdown"),
}
ARMS = ["Subscribe", "Wait", "Early", "Snap", "Emit/Snapshot", "Emit/Update", "Emit/Notice", "Emit/Resp", "Accept",
        "Stop/quiet", "Stop/nostream", "Shutdown", "Ended"]
ASSUMPTIONS = [
    "account link: the instant at which an available item of the account side is delivered is left open (any instant not "
    "before its availability); the instants of the client calls, of the end of a back-off wait, of request hand-over and of "
    "responses are exact; steps at the same virtual instant may come in any order",
    "account link: back-off policies are well formed (initial <= max, multiplier >= 1); runs of failed attempts are short "
    "enough for the closed form to stay inside TLC's 32-bit integers",
    "account link: the scripted exchange sends an update to the subscription that exists when it is produced (none: lost); "
    "a snapshot naming a foreign asset cannot be indexed and fails the attempt; requests are for an instrument of the "
    "manager's own exchange with client delays below the timeout (or never answered: the timeout failure)",
    "account link, overrun family: the real MockExecution client is used through a delegating client that logs the two "
    "calls, stamps the exchange's snapshot with the attempt number and stops answering after the planned connections; a "
    "subscription that lagged (more notifications than the broadcast capacity between two polls) is a connection that "
    "ended at that point: what was published into the overrun belongs to no connection",
    "account link: the name tables are read off the implementation's IndexedInstruments (C11 answers for them)",
]


def kind(line):
    a = line.get("a")
    if a in ("Emit", "Stop"):
        return "%s/%s" % (a, line.get("k"))
    return str(a)


def anomaly(line):
    if line.get("a") == "Stop" and line.get("k") in ANOMALY_OWNER:
        return "%s: %s" % (line["k"], line.get("what") or ANOMALY_OWNER[line["k"]][1])
    for f in ("at", "v", "idx", "ex", "kex"):
        x = line.get(f, 0)
        if not isinstance(x, int) or abs(x) > 2_000_000_000:
            return "range: field %s = %s" % (f, x)
    return None


def scenario_of(seg):
    r = seg[0]
    scn = {k: r.get(k) for k in ("x", "cc", "pol", "T", "script", "reqs")}
    if r.get("mock"):        # overrun family (real MockExecution client): the plan re-generates the scenario
        scn["mock"] = r["mock"]
    return scn


def short(line):
    return {k: v for k, v in line.items() if k in ("a", "what") or v not in (0, -1, "none", [], None)}


def model_check(ctx):
    """TLC decides the properties exhaustively on the bounded models; every action taken."""
    ctx.tlc_mc("MC_AccountLink", "MC_AccountLink.cfg", timeout=900)
    ctx.tlc_mc("MC_AccountLink", "MC_AccountLink_timed.cfg", timeout=900, ignore_uncovered=("ConfigRefused",))
    if not ctx.quick:
        ctx.tlc_mc("MC_AccountLink_thorough", "MC_AccountLink_thorough.cfg", timeout=1800, coverage=False)
        ctx.tlc_mc("MC_AccountLink_thorough", "MC_AccountLink_timed_thorough.cfg", timeout=1800, coverage=False)


def validate(ctx, own_tags, trace_path, label, rp_of):
    lines = ctx.read_trace(trace_path)
    clean = ctx.path("clean_%s.ndjson" % label)
    found, keep = ctx.screen_anomalies(lines, clean, anomaly)
    foreign = 0
    for n, d, seg in found:
        owner = ANOMALY_OWNER.get(d.split(":")[0], ("C12", ""))[0]
        if owner not in own_tags:
            foreign += 1
            continue
        ctx.violation("acctlink:anomaly:" + d.split(":")[0],
                      "account link (real ExecutionManager::init + run): %s [%s, line %d]; scenario %s" % (
                          d, label, n, json.dumps(scenario_of(seg))), rp_of(seg))
    arms = {}
    for l in keep:
        if l.get("a") != "Reset":
            arms[kind(l)] = arms.get(kind(l), 0) + 1
    n, bad, _ = ctx.tlc_trace("Trace_AccountLink", "Trace_AccountLink.cfg", clean)
    for b in bad:
        tags = set(ctx.last_tags.get(b, ["unconsumed"]))
        if "harness" in tags or "unconsumed" in tags:
            raise vlib.ToolError("account-link trace %s: line %d could not be judged (%s)" % (label, b, sorted(tags)))
        own = tags & set(own_tags)
        if not own:
            foreign += 1
            continue
        seg = ctx.segment(keep, b)
        line = keep[b - 1]
        seen = [short(l) for l in seg[1:-1]][-10:]
        ctx.violation("acctlink:%s:%s" % ("+".join(sorted(own)), kind(line)),
                      "account link (real ExecutionManager::init + run, exchange %s, client constant %s, policy %s): %s is not a "
                      "step of AccountLink.tla - answered for by %s [%s, line %d]; observed before: %s; script %s; requests %s" % (
                          seg[0].get("x"), seg[0].get("cc"), json.dumps(seg[0].get("pol")), json.dumps(short(line)), sorted(own),
                          label, b, json.dumps(seen), json.dumps(seg[0].get("script")), json.dumps(seg[0].get("reqs"))),
                      rp_of(seg))
    return arms, sum(1 for l in keep if l.get("a") == "Reset"), foreign, n


def run(ctx, own_tags, mc=False, n=None):
    own_tags = set(own_tags)
    ctx.build("acctlink")
    if mc and not getattr(ctx, "impl_only", False):
        model_check(ctx)
    n = n or (150 if ctx.quick else 1500)
    # ---- spec -> impl: TLC draws the scenarios from the specification's alphabets; the real code executes them
    p_scn, scns = ctx.tlc_gen("Gen_AccountLink", "Gen_AccountLink.cfg", "acctlink_scn.ndjson", simulate=(n, 8), timeout=600)
    t_gen = ctx.path("trace_acctlink_gen.ndjson")
    info_gen = ctx.harness("acctlink", "run", "--scenarios", p_scn, "--out", t_gen)
    # ---- seeded random scenarios of the harness (longer scripts, more updates and requests)
    t_rnd, p_rnd = ctx.path("trace_acctlink_random.ndjson"), ctx.path("acctlink_random_scn.ndjson")
    #      + the overrun family over the REAL MockExecution client / MockExchange task with a small notification
    #      capacity: a burst larger than the capacity while the merged stream is not polled ends the connection there
    #      (one notice, re-subscription, fresh snapshot) - never a silent gap
    info_rnd = ctx.harness("acctlink", "random", "--seed", ctx.seed, "--n", n, "--mock", 12 if ctx.quick else 120,
                           "--out", t_rnd, "--scn-out", p_rnd)
    merged = ctx.path("trace_acctlink.ndjson")
    with open(merged, "w") as f:
        for p in (t_gen, t_rnd):
            with open(p) as g:
                f.write(g.read())
    # ---- impl -> spec: every recorded line is a step of AccountLink, or it is attributed
    arms, scenarios, foreign, lines = validate(ctx, own_tags, merged, "acctlink",
                                               lambda seg: {"kind": "acctlink", "scenario": scenario_of(seg)})
    if not ctx.violations:      # (with violations a missing arm is a symptom of the defect, not vacuity)
        missing = [a for a in ARMS if arms.get(a, 0) == 0]
        while_link = dict(info_rnd.get("responses_while_link", {}))
        for k, v in info_gen.get("responses_while_link", {}).items():
            while_link[k] = while_link.get(k, 0) + v
        missing += ["response while the link is %s" % s for s in ("up", "waiting", "initialising") if while_link.get(s, 0) == 0]
        for f in ("unindexable_updates_scripted", "updates_between_subscribe_and_snapshot", "of_which_config_refused",
                  "attempts_snapshot_unindexable", "overruns", "bursts_within_capacity"):
            if info_gen.get(f, 0) + info_rnd.get(f, 0) == 0:
                missing.append(f)
        if missing:
            raise vlib.ToolError("the recorded account-link traces never exercised %s (vacuous binding)" % missing)
    ctx.sample({"kind": "account-link scenario drawn by TLC (spec/Gen_AccountLink.tla)", "scenario": scns[len(scns) // 2]})
    ctx.cov["account_link"] = {"own_tags": sorted(own_tags), "scenarios_from_tlc": len(scns), "scenarios_random": n,
                               "lines": lines, "trace_arm_counts": arms,
                               "rejected_lines_owned_by_other_properties": foreign,
                               "tlc_scenarios": {k: v for k, v in info_gen.items() if k != "lines"},
                               "random_scenarios": {k: v for k, v in info_rnd.items() if k != "lines"}}
    ctx.cov["traces_validated_against_impl"] += scenarios
    ctx.cov["scenarios_replayed"] += len(scns)
    for a in ASSUMPTIONS:
        if a not in ctx.assumptions:
            ctx.assumptions.append(a)


def replay(ctx, rp, own_tags):
    """Re-executes one recorded scenario and validates its trace (bin/check <ID> --replay <file>)."""
    ctx.build("acctlink")
    scn = ctx.path("replay_acctlink_scn.ndjson")
    with open(scn, "w") as f:
        f.write(json.dumps(rp["scenario"]) + "\n")
    out = ctx.path("replay_acctlink_trace.ndjson")
    ctx.harness("acctlink", "run", "--scenarios", scn, "--out", out)
    validate(ctx, set(own_tags), out, "replay", lambda seg: {"kind": "acctlink", "scenario": scenario_of(seg)})
    return ctx.finish(write_evidence=False)
