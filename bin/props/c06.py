"""C06 - Binance L2 streams never leave a silently wrong local book (spec/BinanceL2.tla)."""
import json
import vlib

MODULE = "BinanceL2"
META = {
    "technique": "TLA+ model of exchange ground truth, diff-event grouping, snapshot point and arbitrary delivery "
                 "(drop/duplicate/swap/replay/late start) with the spot and USD-futures sequencer rules, model-checked "
                 "with TLC (Chain, BookValid, BreakSurfaces, CleanNeverErrors, Isolation); scenarios replayed into the "
                 "real transformers (JSON payloads -> WebSocketParser -> Transformer::transform -> OrderBook::update), "
                 "also through ExchangeStream + with_termination_on_error + with_reconnection_events; random "
                 "perturbation traces validated step by step by TLC",
}
ASSUMPTIONS = [
    "exchange update ids are contiguous per instrument (U_{k+1} = u_k + 1 and pu_{k+1} = u_k), each diff event carries "
    "the absolute amounts at u_k of every level touched by its ids; a REST snapshot equals the exchange book at its lastUpdateId",
    "after an Error the transformer is discarded and re-initialised from fresh snapshots, as the reconnecting stream does",
    "futures: a duplicate of the last admitted event (u = lastUpdateId) yields Error rather than a drop - allowed, it is "
    "not a clean delivery",
    "a clean delivery starts with the event covering snapshot id + 1 (spot) / snapshot id (futures); with the futures rule "
    "and a snapshot at id 0 no such event exists",
    "MarketStream::init itself (connect / subscribe / REST fetch) needs the network and is not driven; the stream mode "
    "rebuilds its chain of combinators around scripted connections",
    "wire values: ids shifted by a per-world base (up to 2^62), prices / amounts scaled by powers of ten",
]
INSTR = ("i1", "i2")


def anomaly(line):
    post = line.get("post")
    if str(line.get("out", "")).startswith("Anomaly"):
        return "harness anomaly: %s %s" % (line.get("out"), line.get("err") if line.get("err") != "none" else "")
    if not isinstance(post, dict):
        return "no post state"
    for i in INSTR:
        b, q = post["book"].get(i), post["sq"].get(i)
        if not isinstance(b, dict) or not isinstance(q, dict):
            return "instrument %s has no book / sequencer after the step" % i
        for lv in b["bids"] + b["asks"]:
            if not isinstance(lv.get("p"), int) or not isinstance(lv.get("a"), int):
                return "non-integral level in spec units: %s" % json.dumps(lv)
    return None


def expected_outcome(rule, ev, sq):
    """Descriptive only (signature / message): the venue rule as the property states it."""
    U, u, pu, last, first = ev["U"], ev["u"], ev["pu"], sq["lastId"], sq["processed"] == 0
    if rule == "Spot":
        if u <= last:
            return "Dropped"
        ok = (U <= last + 1 <= u) if first else (U == last + 1)
    else:
        if u < last:
            return "Dropped"
        ok = (U <= last <= u) if first else (pu == last)
    return "Admitted" if ok else "Error"


def scenario_of(seg):
    """Rebuild a replayable scenario from a trace segment (Reset .. offending line)."""
    w = seg[0]["world"]
    world = {i: {"chg": w["chg"][i], "cut": w["cut"][i], "events": w["events"][i]} for i in INSTR}
    steps = []
    for l in seg:
        if l["a"] in ("Reset", "Reinit"):
            steps.append({"a": "Init" if l["a"] == "Reset" else "Reinit", "snap": l["snap"], "unchecked": True,
                          "books": {i: (l["post"]["book"][i] if isinstance(l.get("post"), dict) and isinstance(l["post"]["book"].get(i), dict)
                                        else {"bids": [], "asks": [], "seq": l["snap"][i]}) for i in INSTR}})
        else:
            steps.append({"a": "Deliver", "i": l["i"], "k": l["k"]})
    return {"rule": w["rule"], "world": world, "steps": steps}


def validate(ctx, trace_path, mode, label):
    lines = ctx.read_trace(trace_path)
    clean = ctx.path("clean_" + label.replace("/", "_") + ".ndjson")
    found, keep = ctx.screen_anomalies(lines, clean, anomaly)
    for n, d, seg in found:
        ctx.violation("anomaly:" + d.split(":")[0][:60], "%s [%s, line %d]" % (d, label, n), {"mode": mode, "scenario": scenario_of(seg)})
    n, bad, truncated = ctx.tlc_trace("Trace_" + MODULE, "Trace_" + MODULE + ".cfg", clean, timeout=1500)
    for b in bad:
        seg = ctx.segment(keep, b)
        line = keep[b - 1]
        rule = seg[0]["world"]["rule"] if isinstance(seg[0].get("world"), dict) else "?"
        pre = seg[-2]["post"] if len(seg) >= 2 else None
        if line["a"] == "Deliver" and pre and rule != "?":
            ev = seg[0]["world"]["events"][line["i"]][line["k"] - 1]
            sq = pre["sq"][line["i"]]
            exp = expected_outcome(rule, ev, sq)
            what = "outcome" if exp != line["out"] else "state"
            sig = "trace:%s:%s:%s:%s->%s" % (rule, "first" if sq["processed"] == 0 else "next", what, exp, line["out"])
            desc = ("%s rule, instrument %s sequencer %s book seq %s, event k=%d U=%d u=%d pu=%d -> observed %s%s, post %s; the venue "
                    "rule gives %s - not a step BinanceL2 allows [%s, line %d]") % (
                rule, line["i"], json.dumps(sq), pre["book"][line["i"]]["seq"], line["k"], ev["U"], ev["u"], ev["pu"], line["out"],
                "" if line["err"] == "none" else " (%s, terminal=%s)" % (line["err"], line["term"]),
                json.dumps({"book": line["post"]["book"][line["i"]], "sq": line["post"]["sq"][line["i"]], "conn": line["post"]["conn"],
                            "notices": line["post"]["notices"]}), exp, label, b)
        else:
            sig = "trace:%s:%s" % (rule, line["a"])
            desc = "%s rule, %s with snapshots %s -> observed %s is not what BinanceL2 allows [%s, line %d]" % (
                rule, line["a"], json.dumps(line.get("snap")), json.dumps(line.get("post"))[:600], label, b)
        ctx.violation(sig, desc, {"mode": mode, "scenario": scenario_of(seg)})
    ctx.cov["traces_validated_against_impl"] += sum(1 for l in keep if l.get("a") == "Reset")
    return n


def check_results(ctx, results_path, scns, mode, label):
    for r in ctx.read_results(results_path):
        if r.get("ok"):
            continue
        ev = r.get("event") or {}
        err = r.get("error", "")
        kind = err.split(":")[0].split("[")[0]
        ctx.violation("replay:%s:%s:%s" % (r.get("rule"), ev.get("a"), "outcome %s" % err.split(": ", 1)[-1] if kind == "outcome" else kind),
                      "%s rule, state %s, step %s: %s [%s scenario %d step %s]" % (
                          r.get("rule"), json.dumps(r.get("pre"))[:700], json.dumps({k: ev.get(k) for k in ("a", "i", "k", "out", "snap") if k in ev}),
                          err, label, r["scn"], r.get("step")),
                      {"mode": mode, "scenario": scns[r["scn"]]})


def run_scenarios(ctx, scn_path, scns, mode, label):
    res, tr = ctx.path("results_%s_%s.ndjson" % (label, mode)), ctx.path("trace_%s_%s.ndjson" % (label, mode))
    ctx.harness("c06", "run", "--scenarios", scn_path, "--results", res, "--trace", tr, "--mode", mode, "--seed", ctx.seed)
    check_results(ctx, res, scns, mode, label + "/" + mode)
    validate(ctx, tr, mode, label + "/" + mode)
    ctx.cov["scenarios_replayed"] += len(scns)


def check(ctx):
    ctx.assumptions += ASSUMPTIONS
    ctx.build("c06")
    # exhaustive: one instrument, fixed evolutions, reconnect (every action covered) ...
    ctx.tlc_mc("MC_" + MODULE, "MC_BinanceL2.cfg", timeout=900)
    # ... two instruments on one connection; all evolutions of a small book (content x sequencing)
    if ctx.quick:
        ctx.tlc_mc("MC_" + MODULE, "MC_BinanceL2_two.cfg", timeout=900, coverage=False)
        ctx.tlc_mc("MC_" + MODULE, "MC_BinanceL2_content.cfg", timeout=900, coverage=False)
    else:
        ctx.tlc_mc("MC_" + MODULE, "MC_BinanceL2_two_thorough.cfg", timeout=1800, coverage=False)
        ctx.tlc_mc("MC_" + MODULE, "MC_BinanceL2_thorough.cfg", timeout=1800, coverage=False)
        ctx.tlc_mc("MC_" + MODULE, "MC_BinanceL2_long.cfg", timeout=1800, coverage=False)
    p_t, scn_t = ctx.tlc_gen("Gen_" + MODULE, "GenT_BinanceL2.cfg" if ctx.quick else "GenT_BinanceL2_thorough.cfg", "transitions.ndjson", timeout=900)
    nb = 150 if ctx.quick else 1500
    p_b, scn_b = ctx.tlc_gen("Gen_" + MODULE, "GenB_BinanceL2.cfg", "behaviours.ndjson", simulate=(nb, 50), timeout=1200)
    t0 = dict(scn_t[len(scn_t) // 2])
    ctx.sample({"kind": "TLC delivery sequence (one instrument, exhaustive)", "scenario": t0})
    b0 = dict(scn_b[0])
    b0["steps"] = b0["steps"][:6]
    ctx.sample({"kind": "TLC simulated behaviour, two instruments (first 6 of %d steps)" % len(scn_b[0]["steps"]), "scenario": b0})
    segments = 12 if ctx.quick else 300
    for mode in ("direct", "stream"):
        run_scenarios(ctx, p_t, scn_t, mode, "transitions")
        run_scenarios(ctx, p_b, scn_b, mode, "behaviours")
        out = ctx.path("trace_random_%s.ndjson" % mode)
        ctx.harness("c06", "random", "--seed", ctx.seed, "--segments", segments, "--trace", out, "--mode", mode)
        validate(ctx, out, mode, "random/" + mode)
    return ctx.finish()


def replay(ctx, rp):
    ctx.build("c06")
    scn = ctx.path("replay_scn.ndjson")
    with open(scn, "w") as f:
        f.write(json.dumps(rp["scenario"]) + "\n")
    run_scenarios(ctx, scn, [rp["scenario"]], rp["mode"], "replay")
    return ctx.finish(write_evidence=False)
