SPECIFICATION TSpec
CONSTANTS
  ITEMS = {"bal0", "bal1", "bal3", "bal4", "l1_0", "l1_4", "lt_0", "lt_4", "ord_c1", "ord_c2", "ord_c3", "ord_c4"}
  TIMES = {1}
  VALUES = {1}
INVARIANT Done
POSTCONDITION Post
CHECK_DEADLOCK FALSE
