SPECIFICATION Spec
CONSTANTS
  Runs = {1, 2}
  Params <- Params_CD
  OrderKinds = {"order", "balance", "trade"}
INVARIANTS TypeOK PrefixAlways CompleteInOrder FeedInOrder SentOK ClockOwn AppliedOK SummaryOK BatchOK
PROPERTIES Isolation Monotone 
CHECK_DEADLOCK FALSE
