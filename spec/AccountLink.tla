----------------------------- MODULE AccountLink -----------------------------
(***************************************************************************)
(* The account link of ONE exchange: the stream `ExecutionManager::init`   *)
(* hands to the engine - a reconnecting, indexed account stream (snapshot  *)
(* first, then the updates) merged with the manager's own responses to     *)
(* execution requests.  Serves C12 (order / loss / duplication / notices / *)
(* back-off / never ends), C14 (the notice names the exchange of the       *)
(* instrument map), C07 (responses exactly once whatever the link does)    *)
(* and C04 (updates indexed through the map of THIS exchange only).        *)
(*                                                                         *)
(* Code transcribed:                                                       *)
(*   barter/src/execution/manager.rs  ExecutionManager::init               *)
(*     determine_account_stream_key   client constant vs map -> ConfigRefused *)
(*     the init closure               init_indexed_account_stream FIRST    *)
(*                                      -> Subscribe / SubscribeFails      *)
(*                                    fetch_indexed_account_snapshot THEN  *)
(*                                      -> FetchSnapshot / SnapshotFails   *)
(*                                    once(snapshot).chain(updates)        *)
(*                                      -> EmitSnapshot, EmitUpdate        *)
(*     init_indexed_account_stream    IndexedAccountStream + filter_map:   *)
(*                                    an update the map cannot index is    *)
(*                                    logged and dropped, the connection   *)
(*                                    stays live      -> FilterUpdate      *)
(*     merge(response_rx, account_stream.with_reconnect_backoff(..)        *)
(*                         .with_reconnection_events(map.exchange.value))  *)
(*                                      -> ConnectionEnds (the notice),    *)
(*                                         ManagerResponse, StreamEnds     *)
(*   barter-data/src/streams/reconnect/stream.rs                           *)
(*     init_reconnecting_stream       first `init().await?` (an error, no  *)
(*                                    stream), then repeat_with(init)      *)
(*     with_reconnect_backoff         Ok => reset ; Err => sleep(current), *)
(*                                    multiply, nothing emitted            *)
(*                                      -> AttemptFails, WaitElapsed       *)
(*   barter-integration/src/stream/merge.rs   the merged stream ends when  *)
(*                                    either input ends: the account side  *)
(*                                    never does, the response side ends   *)
(*                                    when the manager is gone             *)
(*   ExecutionManager::run            one response per accepted request    *)
(*                                    (client response or timeout failure; *)
(*                                    decided in full by ExecManager.tla)  *)
(*                                      -> Accept, ManagerResponse,        *)
(*                                         Shutdown                        *)
(*                                                                         *)
(* Input (fixed by Init):                                                  *)
(*   tab     the name tables of the exchange under test, as the            *)
(*           implementation's IndexedInstruments assigned them:            *)
(*           [ex (engine index), xid (ExchangeId), assets, insts]          *)
(*   cc      the client's constant ExchangeId ("mock"/"simulated" go with  *)
(*           every map, any other value must equal tab.xid)                *)
(*   script  outcomes of the successive connection attempts, after which   *)
(*           account_stream() pends for ever                               *)
(*             outcome = [r, ls, ln, ed, body]                             *)
(*               r    "sfail" account_stream() fails                       *)
(*                    "nfail" the snapshot fetch fails                     *)
(*                    "nbad"  the snapshot names a foreign asset: it       *)
(*                            cannot be indexed, the attempt fails         *)
(*                    "ok"                                                 *)
(*               ls, ln  how long the two calls take                       *)
(*               ed   silence between the last update and the end          *)
(*             element = [k (bal|ord|trade), nm (exchange name), xok (the  *)
(*                        event bears this exchange's ExchangeId), early,  *)
(*                        d, v]                                            *)
(*               early = produced AFTER the subscription and BEFORE the    *)
(*                       snapshot is taken (a prefix of the body, d = 0);  *)
(*               the others are produced d after their predecessor         *)
(*               (the first one d after the snapshot call returned)        *)
(*   policy  [b0, mult, max]   (ReconnectionBackoffPolicy)                 *)
(*   reqs    execution requests [at, d]: handed to the manager `at` after  *)
(*           the stream was created, answered by the client after d        *)
(*           (d < T) or never (d = -1: the timeout failure at T)           *)
(*   rin     exchange name of the instrument the requests are for          *)
(*                                                                         *)
(* Time: one virtual clock `now` (the instant of the last step).  Every    *)
(* pending event has an earliest instant; events that are exact (calls,    *)
(* the end of a back-off sleep, request hand-over, responses) are also     *)
(* deadlines: no step may happen later than a pending deadline (CanFire).  *)
(*                                                                         *)
(* Deliberately nondeterministic (the properties leave it open):           *)
(*  * the instant at which an available item of the account side is        *)
(*    delivered: any instant not before its availability (constant Slack;  *)
(*    today's combinators add no delay, slack 0) - as in Reconnect.tla;    *)
(*  * the order of steps that happen at the same virtual instant (an       *)
(*    account item and a response, two responses, hand-over and item);     *)
(*  * whether an unindexable update is dropped in a step of its own        *)
(*    (FilterUpdate) or on the way to the next deliverable one;            *)
(* Fixed by the properties and exact here: subscription before snapshot;   *)
(* snapshot first; the waits between a failed attempt and the next one and *)
(* the immediate attempt after a connection ended (Reconnect's closed      *)
(* form); the instant of a response (hand-over + client delay, or + T).    *)
(***************************************************************************)
EXTENDS Integers, Sequences, FiniteSets, TLC

CONSTANTS Scripts,     \* set of scripts (bounded model: see MC_AccountLink)
          Policies,    \* set of [b0, mult, max]
          Tabs,        \* set of name tables
          Clients,     \* set of client constants
          ReqLists,    \* set of request lists
          RIns,        \* instrument names used for requests
          Slack,       \* extra delivery delays explored
          T            \* the manager's request timeout

ASSUME \A p \in Policies : p.b0 <= p.max /\ p.mult >= 1

VARIABLES script, policy, tab, cc, reqs, rin,    \* input, never changes
          phase,   \* "Init" about to call account_stream() | "Subscribed" subscribed, about to fetch
                   \* the snapshot | "Snapped" snapshot fetched and indexed, nothing delivered yet |
                   \* "Conn" live | "Wait" backing off | "Pend" account_stream() pends for ever |
                   \* "NoStream" ExecutionManager::init returned an error
          pos,     \* attempts started (= number of the current attempt)
          k,       \* elements of the live connection consumed (delivered or dropped)
          early,   \* early elements of the current attempt already produced by the exchange
          cur,     \* ReconnectionState.backoff_ms_current
          fails,   \* ghost: consecutive failures since the last success
          lt,      \* instant of the link's last step / at which its next exact step is due
          live,    \* instant the current connection's snapshot call returned
          wake,    \* end of the running back-off sleep
          now,     \* virtual time
          born,    \* instant ExecutionManager::init returned the manager and the stream
          mgr,     \* "none" | "running" | "stopped"
          ended,   \* the merged stream has ended
          acc,     \* requests handed to the manager
          done,    \* requests answered
          out,     \* what the consumer of the merged stream observed, in order
          calls,   \* instants at which account_stream() was called
          waits    \* ghost: the sleeps scheduled so far

input == <<script, policy, tab, cc, reqs, rin>>
linkv == <<phase, pos, k, early, cur, fails, lt, live, wake, calls, waits>>
reqv  == <<acc, done>>
lifev == <<born, mgr, ended>>
vars  == <<input, linkv, reqv, lifev, now, out>>

Min(a, b) == IF a <= b THEN a ELSE b
Max(a, b) == IF a >= b THEN a ELSE b
SetMax(S) == CHOOSE m \in S : \A y \in S : y <= m
SetMin(S) == CHOOSE m \in S : \A y \in S : m <= y
MaxSlack  == SetMax(Slack)
Range(f)  == {f[a] : a \in DOMAIN f}

CfgOK == cc \in {"mock", "simulated"} \/ cc = tab.xid

(***************************************************************************)
(* Well-formed input (what Init, scenario generation and the harness may   *)
(* choose).                                                                *)
(***************************************************************************)
ElemOK(e) == /\ e.k \in {"bal", "ord", "trade"} /\ e.xok \in BOOLEAN /\ e.early \in BOOLEAN
             /\ e.d \in Nat /\ (e.early => e.d = 0) /\ e.v \in Nat
OutcomeOK(o) == /\ o.r \in {"sfail", "nfail", "nbad", "ok"}
                /\ o.ls \in Nat /\ o.ln \in Nat /\ o.ed \in Nat
                /\ \A i \in 1..Len(o.body) : ElemOK(o.body[i])
                /\ \A i \in 1..(Len(o.body) - 1) : o.body[i + 1].early => o.body[i].early     \* a prefix
                /\ o.r = "sfail" => o.body = <<>>
                /\ o.r \in {"nfail", "nbad"} => \A i \in 1..Len(o.body) : o.body[i].early
InputOK == /\ Len(script) >= 1
           /\ \A j \in 1..Len(script) : OutcomeOK(script[j])
           /\ \A j, h \in 1..Len(script) : \A i \in 1..Len(script[j].body), g \in 1..Len(script[h].body) :
                  script[j].body[i].v = script[h].body[g].v => j = h /\ i = g
           /\ \A i \in 1..Len(reqs) : reqs[i].at \in Nat /\ (reqs[i].d = -1 \/ reqs[i].d \in 0..(T - 1))
           /\ policy.b0 <= policy.max /\ policy.mult >= 1 /\ policy.b0 \in Nat
           /\ rin \in DOMAIN tab.insts

(***************************************************************************)
(* The current attempt / connection.                                       *)
(***************************************************************************)
Outcome == script[pos]
Body    == script[pos].body
N       == Len(Body)
NumEarly(b) == Cardinality({i \in 1..Len(b) : b[i].early})

\* what the instrument map of THIS exchange can index
Known(e) == /\ e.xok
            /\ IF e.k = "bal" THEN e.nm \in DOMAIN tab.assets ELSE e.nm \in DOMAIN tab.insts
IdxOf(e) == IF e.k = "bal" THEN tab.assets[e.nm] ELSE tab.insts[e.nm]

RECURSIVE CumGap(_, _)
CumGap(b, i) == IF i = 0 THEN 0 ELSE CumGap(b, i - 1) + b[i].d
Avail(i)  == live + CumGap(Body, i)          \* early elements: d = 0, available with the snapshot
CloseTime == live + CumGap(Body, N) + Outcome.ed
Goods     == {i \in (k + 1)..N : Known(Body[i])}
HasGood   == Goods # {}
NextGood  == SetMin(Goods)

(***************************************************************************)
(* Observations.                                                           *)
(***************************************************************************)
Entry(kd, v, t, c, ex, kex, idx, kind, xid, as, is) ==
    [k |-> kd, v |-> v, at |-> t, c |-> c, ex |-> ex, kex |-> kex, idx |-> idx, kind |-> kind,
     xid |-> xid, as |-> as, is |-> is]
\* the snapshot of attempt j: stamped with this exchange's index, naming exactly its assets / instruments
SnapshotEntry(j, t) == Entry("Snapshot", j, t, j, tab.ex, tab.ex, 0, "none", "none", Range(tab.assets), Range(tab.insts))
UpdateEntry(e, t)   == Entry("Update", e.v, t, pos, tab.ex, tab.ex, IdxOf(e), e.k, "none", {}, {})
\* with_reconnection_events(indexer.map.exchange.value): the ExchangeId of the instrument map
NoticeEntry(t)      == Entry("Notice", 0, t, pos, -1, -1, 0, "none", tab.xid, {}, {})
RespKind(i)         == IF reqs[i].d < 0 THEN "timeout" ELSE "resp"
RespEntry(i, t)     == Entry("Resp", i, t, 0, tab.ex, tab.ex, tab.insts[rin], RespKind(i), "none", {}, {})

(***************************************************************************)
(* Deadlines.                                                              *)
(***************************************************************************)
Due(i) == born + reqs[i].at + (IF reqs[i].d < 0 THEN T ELSE reqs[i].d)
LinkDL == CASE phase \in {"Init", "Subscribed"} -> {lt}
            [] phase = "Wait"    -> {wake}
            [] phase = "Snapped" -> {lt + MaxSlack}
            [] phase = "Conn"    -> {Max(lt, IF HasGood THEN Avail(NextGood) ELSE CloseTime) + MaxSlack}
            [] OTHER             -> {}
ReqDL  == IF mgr = "running"
          THEN {born + reqs[i].at : i \in (1..Len(reqs)) \ acc} \cup {Due(i) : i \in acc \ done}
          ELSE {}
LinkOverdue(t) == \E d \in LinkDL : t > d
ReqOverdue(t)  == \E d \in ReqDL : t > d
CanFire(t) == t >= now /\ ~LinkOverdue(t) /\ ~ReqOverdue(t)

(***************************************************************************)
(* Behaviour.                                                              *)
(***************************************************************************)
Init == /\ script \in Scripts /\ policy \in Policies /\ tab \in Tabs /\ cc \in Clients
        /\ reqs \in ReqLists /\ rin \in RIns /\ rin \in DOMAIN tab.insts
        /\ phase = "Init" /\ pos = 0 /\ k = 0 /\ early = 0
        /\ cur = policy.b0 /\ fails = 0
        /\ lt = 0 /\ live = 0 /\ wake = 0 /\ now = 0
        /\ born = 0 /\ mgr = "none" /\ ended = FALSE
        /\ acc = {} /\ done = {}
        /\ out = <<>> /\ calls = <<>> /\ waits = <<>>

\* determine_account_stream_key: a client whose constant is neither mock / simulated nor the
\* ExchangeId of the instrument map is refused before anything is called.
ConfigRefused ==
    /\ phase = "Init" /\ pos = 0 /\ ~CfgOK
    /\ phase' = "NoStream"
    /\ UNCHANGED <<input, pos, k, early, cur, fails, lt, live, wake, calls, waits, reqv, lifev, now, out>>

\* attempt j failed, the failing call returned at `ret`:
\*   the very first attempt: `init_reconnecting_stream(..).await?` - an error, no stream;
\*   later: scan arm `Err`: sleep(current) from now on, multiply_backoff; nothing is emitted.
AttemptFails(j, ret) ==
    IF j = 1
    THEN /\ phase' = "NoStream" /\ lt' = ret
         /\ UNCHANGED <<cur, fails, wake, waits>>
    ELSE /\ phase' = "Wait" /\ lt' = ret
         /\ wake' = ret + cur
         /\ waits' = Append(waits, cur)
         /\ cur' = Min(cur * policy.mult, policy.max)
         /\ fails' = fails + 1

\* init_indexed_account_stream: client.account_stream() FIRST.
Subscribe ==
    /\ phase = "Init" /\ CfgOK /\ pos < Len(script) /\ script[pos + 1].r # "sfail"
    /\ CanFire(lt)
    /\ calls' = Append(calls, lt) /\ now' = lt
    /\ pos' = pos + 1 /\ k' = 0 /\ early' = 0
    /\ phase' = "Subscribed" /\ lt' = lt + script[pos + 1].ls
    /\ UNCHANGED <<input, cur, fails, live, wake, waits, reqv, lifev, out>>

SubscribeFails ==
    /\ phase = "Init" /\ CfgOK /\ pos < Len(script) /\ script[pos + 1].r = "sfail"
    /\ CanFire(lt)
    /\ calls' = Append(calls, lt) /\ now' = lt
    /\ pos' = pos + 1
    /\ AttemptFails(pos + 1, lt + script[pos + 1].ls)
    /\ UNCHANGED <<input, k, early, live, reqv, lifev, out>>

\* the script is exhausted: account_stream() is called and never returns.
InitPend ==
    /\ phase = "Init" /\ CfgOK /\ pos = Len(script)
    /\ CanFire(lt)
    /\ calls' = Append(calls, lt) /\ now' = lt
    /\ phase' = "Pend"
    /\ UNCHANGED <<input, pos, k, early, cur, fails, lt, live, wake, waits, reqv, lifev, out>>

\* ENVIRONMENT: the exchange produces an update after the subscription exists and before the
\* snapshot is taken.  It sits in the subscription; it must not be lost (NoUpdateLostAcrossSnapshot).
UpdateArrivesBetweenSubscribeAndSnapshot ==
    /\ phase = "Subscribed" /\ early < NumEarly(Body)
    /\ CanFire(lt)
    /\ now' = lt
    /\ early' = early + 1
    /\ UNCHANGED <<input, phase, pos, k, cur, fails, lt, live, wake, calls, waits, reqv, lifev, out>>

\* fetch_indexed_account_snapshot THEN: the snapshot is fetched and indexed; scan arm `Ok`:
\* reset_backoff. The first success is the instant ExecutionManager::init returns.
FetchSnapshot ==
    /\ phase = "Subscribed" /\ early = NumEarly(Body) /\ Outcome.r = "ok"
    /\ CanFire(lt)
    /\ now' = lt
    /\ phase' = "Snapped" /\ lt' = lt + Outcome.ln /\ live' = lt + Outcome.ln
    /\ cur' = policy.b0 /\ fails' = 0
    /\ IF pos = 1 THEN born' = lt + Outcome.ln /\ mgr' = "running" ELSE UNCHANGED <<born, mgr>>
    /\ UNCHANGED <<input, pos, k, early, wake, calls, waits, reqv, ended, out>>

\* the snapshot fetch fails, or what it returns names something the map does not know
\* (`indexer.snapshot(snapshot)?`): the attempt fails, the subscription is dropped with whatever
\* it already held.
SnapshotFails ==
    /\ phase = "Subscribed" /\ early = NumEarly(Body) /\ Outcome.r \in {"nfail", "nbad"}
    /\ CanFire(lt)
    /\ now' = lt
    /\ AttemptFails(pos, lt + Outcome.ln)
    /\ UNCHANGED <<input, pos, k, early, live, calls, reqv, lifev, out>>

\* once(snapshot): the first item of the connection.
EmitSnapshot(t) ==
    /\ phase = "Snapped" /\ t >= lt
    /\ CanFire(t)
    /\ now' = t /\ lt' = t
    /\ out' = Append(out, SnapshotEntry(pos, t))
    /\ phase' = "Conn"
    /\ UNCHANGED <<input, pos, k, early, cur, fails, live, wake, calls, waits, reqv, lifev>>

\* .chain(updates): the next update the map can index, with the indices of THIS exchange.
EmitUpdate(t) ==
    /\ phase = "Conn" /\ HasGood /\ t >= Max(lt, Avail(NextGood))
    /\ CanFire(t)
    /\ now' = t /\ lt' = t
    /\ out' = Append(out, UpdateEntry(Body[NextGood], t))
    /\ k' = NextGood
    /\ UNCHANGED <<input, phase, pos, early, cur, fails, live, wake, calls, waits, reqv, lifev>>

\* filter_map arm `Err(error) => None`: an update the map cannot index (foreign asset /
\* instrument name, another exchange's ExchangeId) is dropped; the connection stays live.
FilterUpdate ==
    /\ phase = "Conn" /\ k < N /\ ~Known(Body[k + 1]) /\ Avail(k + 1) <= now
    /\ k' = k + 1
    /\ UNCHANGED <<input, phase, pos, early, cur, fails, lt, live, wake, calls, waits, reqv, lifev, now, out>>

\* the connection ends: the chained notice, then (at once) the next attempt.
ConnectionEnds(t) ==
    /\ phase = "Conn" /\ ~HasGood /\ t >= Max(lt, CloseTime)
    /\ CanFire(t)
    /\ now' = t /\ lt' = t
    /\ out' = Append(out, NoticeEntry(t))
    /\ k' = N
    /\ phase' = "Init"
    /\ UNCHANGED <<input, pos, early, cur, fails, live, wake, calls, waits, reqv, lifev>>

\* the back-off sleep elapses; only then is account_stream() called again.
WaitElapsed ==
    /\ phase = "Wait"
    /\ CanFire(wake)
    /\ now' = wake /\ lt' = wake
    /\ phase' = "Init"
    /\ UNCHANGED <<input, pos, k, early, cur, fails, live, wake, calls, waits, reqv, lifev, out>>

\* the engine hands request i to the manager (whatever the link is doing).
Accept(i) ==
    /\ mgr = "running" /\ i \in (1..Len(reqs)) \ acc
    /\ CanFire(born + reqs[i].at)
    /\ now' = born + reqs[i].at
    /\ acc' = acc \cup {i}
    /\ UNCHANGED <<input, linkv, done, lifev, out>>

\* the manager answers request i - the client's response or the timeout failure - through the
\* response channel merged into the stream: at its own instant, whatever the link is doing.
ManagerResponse(i) ==
    /\ mgr = "running" /\ i \in acc \ done
    /\ CanFire(Due(i))
    /\ now' = Due(i)
    /\ out' = Append(out, RespEntry(i, Due(i)))
    /\ done' = done \cup {i}
    /\ UNCHANGED <<input, linkv, acc, lifev>>

\* the engine shuts the manager down (explored once everything scripted has happened).
Shutdown ==
    /\ mgr = "running" /\ phase = "Pend" /\ done = 1..Len(reqs)
    /\ mgr' = "stopped"
    /\ UNCHANGED <<input, linkv, reqv, born, ended, now, out>>

\* merge: the response side has ended (the manager and its sender are gone) - the merged stream ends.
StreamEnds ==
    /\ mgr = "stopped" /\ ~ended
    /\ ended' = TRUE
    /\ UNCHANGED <<input, linkv, reqv, born, mgr, now, out>>

SnapshotDelivery == \E x \in Slack : EmitSnapshot(lt + x)
UpdateDelivery   == \E x \in Slack : EmitUpdate(Max(lt, Avail(NextGood)) + x)
NoticeDelivery   == \E x \in Slack : ConnectionEnds(Max(lt, CloseTime) + x)
Accepts          == \E i \in 1..Len(reqs) : Accept(i)
Responses        == \E i \in 1..Len(reqs) : ManagerResponse(i)

Next == \/ ConfigRefused \/ Subscribe \/ SubscribeFails \/ InitPend
        \/ UpdateArrivesBetweenSubscribeAndSnapshot \/ FetchSnapshot \/ SnapshotFails
        \/ SnapshotDelivery \/ UpdateDelivery \/ FilterUpdate \/ NoticeDelivery \/ WaitElapsed
        \/ Accepts \/ Responses \/ Shutdown \/ StreamEnds

Spec == Init /\ [][Next]_vars /\ WF_vars(Next)

(***************************************************************************)
(* The properties, as formulas over the observations.                      *)
(***************************************************************************)
Phases == {"Init", "Subscribed", "Snapped", "Conn", "Wait", "Pend", "NoStream"}
TypeOK == /\ phase \in Phases
          /\ pos \in 0..Len(script)
          /\ phase \in {"Subscribed", "Snapped", "Conn"} => pos >= 1 /\ k \in 0..N /\ early \in 0..NumEarly(Body)
          /\ phase \in {"Snapped", "Conn"} => Outcome.r = "ok"
          /\ Len(calls) = (IF phase = "Pend" THEN pos + 1 ELSE pos)
          /\ mgr \in {"none", "running", "stopped"}
          /\ done \subseteq acc /\ acc \subseteq 1..Len(reqs)

OkConn(j)  == script[j].r = "ok"
InHand(j)  == j = pos /\ phase \in {"Subscribed", "Snapped"}      \* nothing of it delivered yet
Live(j)    == j = pos /\ phase = "Conn"
Over(j)    == OkConn(j) /\ ~InHand(j) /\ ~Live(j)
Link(o)    == o.k # "Resp"
OutOf(j)   == SelectSeq(out, LAMBDA o : Link(o) /\ o.c = j)
Strip(o)   == [k |-> o.k, v |-> o.v, ex |-> o.ex, kex |-> o.kex, idx |-> o.idx, kind |-> o.kind, xid |-> o.xid, as |-> o.as, is |-> o.is]
Seen(j)    == [i \in 1..Len(OutOf(j)) |-> Strip(OutOf(j)[i])]
\* the indexable elements of attempt j, in order, up to element n
GoodSeq(j, n) == SelectSeq(SubSeq(script[j].body, 1, n),
                           LAMBDA e : e.xok /\ (IF e.k = "bal" THEN e.nm \in DOMAIN tab.assets ELSE e.nm \in DOMAIN tab.insts))
ShownUpdate(j, e) == [k |-> "Update", v |-> e.v, ex |-> tab.ex, kex |-> tab.ex, idx |-> IdxOf(e), kind |-> e.k, xid |-> "none", as |-> {}, is |-> {}]
Want(j) == IF InHand(j) THEN <<>>
           ELSE LET g == GoodSeq(j, IF Live(j) THEN k ELSE Len(script[j].body)) IN
                <<Strip(SnapshotEntry(j, 0))>>
                \o [i \in 1..Len(g) |-> ShownUpdate(j, g[i])]
                \o (IF Live(j) THEN <<>> ELSE <<Strip(NoticeEntry(0))>>)

\* SnapshotFirst: the first item of every connection is the full snapshot of this exchange ...
SnapshotFirst == \A j \in 1..pos : OkConn(j) /\ OutOf(j) # <<>> => OutOf(j)[1].k = "Snapshot" /\ OutOf(j)[1].v = j
\* ... and nothing of connection j+1 before the notice of j.
LinkOut == SelectSeq(out, Link)
Ordered == \A i \in 1..(Len(LinkOut) - 1) :
              /\ LinkOut[i].c <= LinkOut[i + 1].c
              /\ LinkOut[i].k = "Notice" => LinkOut[i].c < LinkOut[i + 1].c
\* UpdatesInOrderOnce (with the indices of THIS exchange: IndexedRight; what the map cannot
\* index never appears: OnlyOwn)
UpdatesInOrderOnce == \A j \in 1..pos : OkConn(j) => Seen(j) = Want(j)
IndexedRight == \A i \in 1..Len(out) : out[i].k \in {"Snapshot", "Update", "Resp"} =>
                   /\ out[i].ex = tab.ex /\ out[i].kex = tab.ex
                   /\ out[i].k = "Update" => out[i].idx \in (IF out[i].kind = "bal" THEN Range(tab.assets) ELSE Range(tab.insts))
OnlyOwn == \A i \in 1..Len(out) : out[i].k = "Update" =>
              \E h \in 1..Len(script[out[i].c].body) :
                 LET e == script[out[i].c].body[h] IN
                 /\ e.v = out[i].v /\ e.xok /\ e.k = out[i].kind
                 /\ (IF e.k = "bal" THEN e.nm \in DOMAIN tab.assets ELSE e.nm \in DOMAIN tab.insts)
                 /\ out[i].idx = IdxOf(e)
\* NoUpdateLostAcrossSnapshot: an indexable update produced between subscription and snapshot
\* is delivered by its connection, after the snapshot.
NoUpdateLostAcrossSnapshot ==
    \A j \in 1..pos : Over(j) =>
       \A h \in 1..Len(script[j].body) :
          LET e == script[j].body[h] IN
          e.early /\ e.xok /\ (IF e.k = "bal" THEN e.nm \in DOMAIN tab.assets ELSE e.nm \in DOMAIN tab.insts) =>
             \E a, b \in 1..Len(out) : a < b /\ out[a].k = "Snapshot" /\ out[a].c = j
                                       /\ out[b].k = "Update" /\ out[b].c = j /\ out[b].v = e.v
\* OneNoticePerDrop, naming the exchange of the instrument map
OneNoticePerDrop == \A j \in 1..pos : OkConn(j) =>
    Cardinality({i \in 1..Len(out) : out[i].k = "Notice" /\ out[i].c = j}) = (IF Over(j) THEN 1 ELSE 0)
NoticeNames == \A i \in 1..Len(out) : out[i].k = "Notice" => out[i].xid = tab.xid
\* FailedInitSilent: a failed attempt delivers nothing - not a notice, not the updates its
\* subscription already held
FailedInitSilent == \A i \in 1..Len(out) : Link(out[i]) => OkConn(out[i].c)
\* delivery never runs ahead of the connection; observations are in time order
Causal == \A i \in 1..Len(out) : Link(out[i]) => calls[out[i].c] + script[out[i].c].ls + script[out[i].c].ln <= out[i].at
TimeOrdered == \A i \in 1..(Len(out) - 1) : out[i].at <= out[i + 1].at

\* Backoff: closed form of the current value, of every sleep, and of the instants of the attempts
BackoffClosedForm == /\ cur = Min(policy.b0 * policy.mult ^ fails, policy.max)
                     /\ fails = 0 => cur = policy.b0
RECURSIVE FailRun(_)            \* consecutive failures ending with attempt j
FailRun(j) == IF j = 0 \/ OkConn(j) THEN 0 ELSE 1 + FailRun(j - 1)
ExpWait(j) == Min(policy.b0 * policy.mult ^ (FailRun(j) - 1), policy.max)
NoticeAt(j) == LET i == CHOOSE i \in 1..Len(out) : out[i].c = j /\ out[i].k = "Notice" IN out[i].at
RetTime(j)  == calls[j] + script[j].ls + (IF script[j].r = "sfail" THEN 0 ELSE script[j].ln)
BackoffTimes == \A i \in 2..Len(calls) :
                   IF OkConn(i - 1) THEN calls[i] = NoticeAt(i - 1)
                   ELSE calls[i] = RetTime(i - 1) + ExpWait(i - 1)
WaitsClosedForm == /\ Len(waits) = Cardinality({j \in 2..pos : ~OkConn(j) /\ ~InHand(j)})
                   /\ \A j \in 2..pos : ~OkConn(j) /\ ~InHand(j) =>
                          waits[Cardinality({h \in 2..j : ~OkConn(h)})] = ExpWait(j)

\* the first attempt failing (or a refused configuration) is an error, not a stream
FirstFailure   == IF CfgOK THEN (phase = "NoStream") <=> (pos >= 1 /\ ~OkConn(1) /\ ~InHand(1))
                  ELSE phase \in {"Init", "NoStream"} /\ pos = 0
NoStreamSilent == phase = "NoStream" => out = <<>> /\ mgr = "none" /\ Len(calls) <= 1

\* ResponsesIndependent: exactly one response per answered request, of the scripted kind, at its
\* own instant - the state of the link appears nowhere in these formulas -, in order among
\* themselves (TimeOrdered); nothing is outstanding beyond its instant.
RespOf(i) == {h \in 1..Len(out) : out[h].k = "Resp" /\ out[h].v = i}
ResponsesOnce == \A i \in 1..Len(reqs) : Cardinality(RespOf(i)) = (IF i \in done THEN 1 ELSE 0)
ResponsesExact == \A h \in 1..Len(out) : out[h].k = "Resp" =>
                     /\ out[h].v \in done /\ out[h].at = Due(out[h].v) /\ out[h].kind = RespKind(out[h].v)
                     /\ out[h].idx = tab.insts[rin]
NothingOverdue == mgr = "running" => \A i \in acc \ done : now <= Due(i)

\* NeverEnds: the merged stream ends only once the manager - the response channel - is gone;
\* no action of the link ends it, the quiescent situations are final.
NeverEnds == ended => mgr = "stopped"
Final     == phase = "NoStream" \/ ended
Quiescent == [][Final => (vars' = vars)]_vars
Progress  == <>Final
\* every script is worked off completely: with Progress, every update of a successful
\* connection is eventually delivered and every request eventually answered
Exhausted == ended => /\ phase = "Pend" /\ pos = Len(script) /\ done = 1..Len(reqs)
                      /\ \A j \in 1..pos : OkConn(j) => Over(j)
=============================================================================
