SPECIFICATION SpecC16
CONSTANTS
  Instr = {"i0"}
  Asset = {"a0", "a5"}
  PnLs = {}
  Costs = {}
  Bals = {5, 7}
  Vals = {}
  MaxClosed = 0
  MaxBal = 3
  MaxVals = 0
  Gaps = {}
  RFs <- RFsZero
  Ivs = {"Daily"}
INVARIANTS TypeC16 GenerateIsBatch
PROPERTIES Keyed LatestBalance EveryBalanceCounts PersistIsStutter
CHECK_DEADLOCK FALSE
VIEW View
