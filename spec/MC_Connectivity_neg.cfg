SPECIFICATION BadSpec
CONSTANTS
  EXCH = {e1, e2}
INVARIANTS TypeOK ConnIff
CHECK_DEADLOCK TRUE
