SPECIFICATION TSpec
CONSTANTS
  CIDS = {"c1", "c2", "x"}
  EVENTS = {}
  ENVS = {}
INVARIANT Done
POSTCONDITION Post
CHECK_DEADLOCK FALSE
