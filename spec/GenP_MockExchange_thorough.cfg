SPECIFICATION GSpecP
CONSTANTS
  Times = {1}
  Prices = {1, 2}
  Qtys = {1, 3}
  NegQtys = {2}
  BalInit = {0, 300, 600, 900}
  FeePcts = {0, 50}
  Lats = {2}
  Sinces = {0, 3}
  OpenCids = {"o1", "o3"}
  MaxTrades = 2
  ClockSlack = FALSE
  IdSlack = 0
  OrderSubsets = FALSE
  MaxLen = 2
INVARIANT Emit
CHECK_DEADLOCK FALSE
