SPECIFICATION SpecLiveSource
CONSTANTS
  EXCH = {"x1", "x2"}
  NMarket = 1
  CMDS = {"c1"}
  MaxAcct = 1
  MaxTakes = 1
  FEEDMODES = {"stream"}
  AUDITMODES = {"off"}
  STOPS = {"shutdown", "abort", "backtest"}
  EarlyShutdown = FALSE
INVARIANTS TypeOK
PROPERTIES Returns
CHECK_DEADLOCK FALSE
