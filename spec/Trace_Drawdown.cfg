SPECIFICATION TSpec
CONSTANTS
  Values = {1, 2, 3, 4, 5, 6, 8, 10, 12}
  Gaps = {1, 2, 3, 4}
  MaxLen = 14
INVARIANTS Done TypeOK RunIsRef PeakToTrough Recovery OnePerPeak NoneIffMonotone MaxIsLargest
POSTCONDITION Post
CHECK_DEADLOCK FALSE
