"""C02 - position size and realised PnL conserve the cash flows of the fills (spec/Position.tla)."""
from props import position as P

MODULE = P.MODULE
META = {
    "spec": "Position",
    "technique": "TLA+ spec in exact fractions model-checked with TLC (side/size, exit-iff, conservation, fee and id "
                 "formulas as invariants / action properties); TLC-generated fill behaviours carrying the expected "
                 "Position / PositionExited after every fill replayed into PositionManager, EngineState and "
                 "Engine::process (also at 10^+-6 magnitudes); seeded random engine traces validated by TLC",
}
ASSUMPTIONS = [
    "fills carry price > 0 and quantity > 0 (the quantifier of C02; zero quantities are excluded). Fees are in the quote "
    "asset; the model-checking configurations use fee >= 0 as the quantifier says, the generated and random fill "
    "histories also contain negative fees (maker rebates): every C02 formula is linear in the fee",
    "decimal rounding: results are compared with the exact fraction within 1e-18 x max(1,|value|) (vh::cmp), "
    "recorded traces within one milli-unit (DESIGN 5.5)",
    "pnl_unrealised is not judged here (C15's verdict); every other field of Position and PositionExited is",
    "magnitudes beyond the TLC domains are reached by the scale-equivariant concretisations x10^+-6 of prices+fees "
    "or quantities+fees of the same behaviours, not by new behaviours",
    "trade ids are distinct per fill; fills of one instrument reach the engine one at a time",
    "'a position-closed record is emitted' is judged on what the engine emits: the EngineOutput::PositionExit entries of "
    "the audit returned by Engine::process, with trading disabled (route engine) and with trading enabled, healthy "
    "execution links and a strategy that sends an order in every step (route algo)",
    "market events (priced, and such that leave the instrument without a price) are stutters for everything C02 names",
    "size = net signed filled quantity whatever the instrument's kind and InstrumentSpec: the engine routes run on spot "
    "(spec none / asset units / quote units), a perpetual (contracts, contract_size 0.01), a future and an option "
    "(contracts, contract_size 10); fill quantities are in the units the venue reports, never rescaled",
    "a stored and restored state (serde_json round trip of PositionManager / EngineState.instruments) is the same "
    "state (Persist is a stutter); round trips happen at TLC-chosen and random points of the histories",
]


def check(ctx):
    ctx.assumptions += ASSUMPTIONS
    ctx.build("c02")
    P.model_check(ctx, with_fills_model=True)
    # (i) every fill sequence of length 3 over the small domain: all arms after all arms
    p_x, scn_x = P.generate(ctx, "GenX_Position.cfg" if ctx.quick else "GenX_Position_thorough.cfg", "fills_exhaustive.ndjson")
    # (ii) long random fill sequences over the wider domain
    nb = 1500 if ctx.quick else 25000
    p_f, scn_f = P.generate(ctx, "GenF_Position.cfg", "fills_random.ndjson", simulate=(nb, 14))
    ctx.sample({"kind": "TLC exhaustive fill behaviour with expected states", "scenario": scn_x[len(scn_x) // 3]})
    ctx.sample({"kind": "TLC simulated fill behaviour (first 4 fills)", "scenario": {"evs": scn_f[0]["evs"][:4]}})
    # (iii) fills interleaved with market events - priced ones and events after which the data state
    #       has NO price (candles, liquidations, one-sided / empty L1), also before any priced event:
    #       a market event never changes side, size, realised PnL, fees, ids and never emits a record
    nm = 400 if ctx.quick else 6000
    p_m, scn_m = P.generate(ctx, "GenMP_Position.cfg", "market_interleavings.ndjson", simulate=(nm, 18))
    ctx.sample({"kind": "TLC simulated interleaving of fills and market events (first 5 steps)",
                "scenario": {"evs": scn_m[0]["evs"][:5]}})
    # routes: pm = PositionManager, state = EngineState::update_from_account/_market, engine = Engine::process
    # (trading disabled), algo = Engine::process with trading ENABLED and a strategy ordering in every
    # step - closed records are the PositionExit entries of the EMITTED audit
    for mode in ("pm", "state", "engine", "algo"):
        P.replay_results(ctx, "c02", "c02", p_x, len(scn_x), mode, "none", "exhaustive")
        # the 10^+-6 magnitudes on the stand-alone manager and on the full engine path
        for scale in (P.SCALES if mode in ("pm", "engine") else ("none",)):
            P.replay_results(ctx, "c02", "c02", p_f, len(scn_f), mode, scale, "random")
        if mode != "pm":
            P.replay_results(ctx, "c02", "c02", p_m, len(scn_m), mode, "none", "interleavings")
    P.replay_results(ctx, "c02", "c02", p_m, len(scn_m), "instr", "none", "interleavings")
    # (iv) impl -> spec: seeded random engine runs on two instruments, validated by Trace_Position
    steps = 2000 if ctx.quick else 40000
    for mode in ("state", "engine", "algo"):
        P.record_and_validate(ctx, "c02", "c02", mode, steps)
    return ctx.finish()


def replay(ctx, rp):
    return P.replay(ctx, "c02", "c02", rp)
