SPECIFICATION Spec
CONSTANTS
  CID = {"c1"}
  EXCH = {"x1", "x2"}
  MaxSends = 2
  MaxKills = 2
INVARIANTS TypeOK AtMostOnce InFlightBacked Routed ConnMatchesLinks
PROPERTIES Resolved Noticed Synced
CHECK_DEADLOCK FALSE
