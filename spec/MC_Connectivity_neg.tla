------------------------- MODULE MC_Connectivity_neg -------------------------
(* Non-vacuity self-test of the Connectivity checks (ctx.tlc_expect_violation): *)
(* a deliberately WRONG variant of the healing path - global health recomputed  *)
(* from the exchange of the item only, as an implementation that forgot the     *)
(* other exchanges would do.  TLC must report "Invariant ConnIff is violated"   *)
(* (with two exchanges: heal both links of one of them).  Anything else is a    *)
(* tool error: the invariant / the model would then not be able to see the      *)
(* defect class C14 is about.                                                   *)
EXTENDS Connectivity

BadMarketItemHeals(e) ==
  /\ global # "Healthy" /\ link[e].market # "Healthy"
  /\ link' = [link EXCEPT ![e] = [market |-> "Healthy", account |-> link[e].account]]
  /\ global' = IF link'[e].market = "Healthy" /\ link'[e].account = "Healthy" THEN "Healthy" ELSE global
BadNext == \E e \in EXCH : \/ MarketItemGlobalHealthy(e) \/ MarketItemLinkHealthy(e) \/ BadMarketItemHeals(e)
                           \/ AccountItem(e) \/ MarketDown(e) \/ AccountDown(e)
BadSpec == Init /\ [][BadNext]_vars
=============================================================================
