------------------------- MODULE MC_Connectivity_apa -------------------------
(* Apalache (symbolic, SMT) as a second, independent engine for the induction *)
(* of Connectivity_proofs.tla, at every size 1 <= |EXCH| <= 4 at once:        *)
(*   apalache-mc check --cinit=ConstInit --init=Init    --inv=Inv --length=0  *)
(*   apalache-mc check --cinit=ConstInit --init=IndInit --inv=Inv --length=1  *)
(* (Inv holds initially; every step from ANY state of Inv ends in Inv), and   *)
(* the step properties from any state of Inv (--inv=StepInv is an action      *)
(* invariant: Apalache evaluates it on every transition of length 1).         *)
EXTENDS Connectivity

ConstInit == EXCH \in (SUBSET {"e1_OF_EX", "e2_OF_EX", "e3_OF_EX", "e4_OF_EX"}) \ {{}}

StepInv == ExactlyThatLinkA /\ DownMarksA /\ HealedByNextA /\ OnlyOwnEventsA
=============================================================================
