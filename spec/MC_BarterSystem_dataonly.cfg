SPECIFICATION SpecMkt
CONSTANTS
  CID = {"c1"}
  EXCH = {"d0", "x1"}
  TRADED = {"x1"}
  MaxSends = 2
  MaxKills = 1
  MaxMkt = 3
INVARIANTS TypeOK AtMostOnce InFlightBacked Routed ConnMatchesLinks DataOnlyAccountDown NeverGloballyHealthy
PROPERTIES Resolved Noticed Synced OnDisconnectExact
CHECK_DEADLOCK FALSE
