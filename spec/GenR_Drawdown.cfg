SPECIFICATION GSpecR
CONSTANTS
  Values = {0, 1, 2, 3, 4, 5, 6, 7, 9, 12}
  NegMag = {1, 3}
  Gaps = {0, 1, 2, 5}
  MaxLen = 12
  MaxResets = 2
INVARIANT Emit
CHECK_DEADLOCK FALSE
