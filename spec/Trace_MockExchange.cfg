SPECIFICATION TSpec
CONSTANTS
  Times = {0}
  Prices = {1}
  Qtys = {1}
  NegQtys = {}
  BalInit = {0}
  FeePcts = {0}
  Lats = {0}
  Sinces = {0}
  OpenCids = {"o1"}
  MaxTrades = 1
  ClockSlack = TRUE
  IdSlack = 1000000
INVARIANT Done
PROPERTIES TProps
POSTCONDITION Post
CHECK_DEADLOCK FALSE
