-------------------------- MODULE Trace_BarterSystem --------------------------
(* Trace validation of the REAL composition (SystemBuilder: engine + request    *)
(* channel + ExecutionManager + MockExchange + account feed + market stream)    *)
(* against BarterSystem.tla.  The engine side is observed through the audit      *)
(* stream and the strategy (which is handed the engine state after every event  *)
(* and records its own on-disconnect invocations):                              *)
(*   {"a":"Reset","exch":[exchange..]}  a new run of the real system starts; the  *)
(*        exchanges it tracks: the traded ones (constant TRADED) and, in most    *)
(*        runs, ONE data-only exchange (instruments indexed, no execution        *)
(*        added) that sorts before / between / after the traded ones             *)
(*   {"a":"SendOpen","c":cid,"x":exchange}  the engine reported an open request   *)
(*        as sent; x = the exchange of the instrument the driver addressed       *)
(*   {"a":"SendCancel","c":cid}    ... a cancel request as sent                  *)
(*   {"a":"SendFail","c":cid,"x":exchange,"k":open|cancel,"why":w,"foreign":[..]}  *)
(*        the engine reported that it could NOT hand the request to exchange x's *)
(*        link: w = no_link (none found) | terminated | unhealthy (its manager    *)
(*        has gone); foreign as in Quiescent                                     *)
(*   {"a":"Process","c":cid,"kind":k,"why":w,"x":exchange}  the engine processed   *)
(*        an account event about cid stamped with exchange x, k in open_ok |     *)
(*        open_filled | open_failed | cancel_ok | cancel_err; w =                *)
(*        instrument_invalid when the exchange rejected the open because it does *)
(*        not know the instrument NAME it was addressed with (one process builds *)
(*        two systems over universes of the same shape but other market names;   *)
(*        each is a run of its own with its own Reset line)                      *)
(*   {"a":"Item","x":exchange}     the engine processed an account item of        *)
(*        exchange x (the first one is the client's account snapshot)             *)
(*   {"a":"MktItem","x":exchange}  the engine processed a market item of x        *)
(*   {"a":"MktDown","x":exchange,"calls":[exchange..]}  the engine processed a    *)
(*        market-stream disconnect notice naming x; calls = the on-disconnect    *)
(*        invocations the strategy saw during that step                          *)
(*   {"a":"State","post":{cid: kind},"conn":{exchange: bool},"market":{..},       *)
(*        "global":bool}  engine view afterwards: every order, each tracked      *)
(*        exchange's account-link and market-link health, global connectivity -  *)
(*        healthy exactly when every link of both kinds of every tracked         *)
(*        exchange is (never, when a data-only exchange is tracked)              *)
(*   {"a":"LinkDown","x":exchange,"calls":[..]}  the engine processed an account- *)
(*        stream disconnect notice naming x (the driver kills exchange tasks)    *)
(*   {"a":"LinkDownCount","killed":[exchange..],"mnotices":{exchange: n}}  end of *)
(*        run: the links the driver killed - each must have been noticed exactly *)
(*        once -, and the market notices it put into the market stream per       *)
(*        exchange - each must have been processed exactly once                  *)
(*   {"a":"Quiescent","down":[exchange..],"foreign":[exchange..]}  the run was    *)
(*        left alone long enough: nothing may be outstanding and no order may    *)
(*        still be in flight; down = the traded exchanges whose ExecutionManager *)
(*        task has ended on its own, foreign = those of them that ended because  *)
(*        they were handed a request for a key that is not theirs                *)
(*   {"a":"Managers","down":[..],"foreign":[..]}  the same observation, made      *)
(*        when the engine stopped before quiescence                              *)
(* The execution manager and the exchange client are NOT observed.  Their steps  *)
(* are placed just in time: the account event the engine processes must be the   *)
(* answer to the OLDEST outstanding request of that kind for that id, i.e. the   *)
(* composition  MgrAccept^j . (ClientResponds | TimeoutFires)(r) . EngineProcess *)
(* (requests are accepted in channel order, answers may overtake one another).   *)
(* An account event that answers no outstanding request, a request that is       *)
(* answered twice, or one that is never answered (Quiescent) is rejected.        *)
(* Market events: MarketItem(x) | MarketNotice(x) . EngineProcess as one step.   *)
(* EXCH (constant) is every exchange any run may track; `present` the ones of    *)
(* the current run.                                                              *)
EXTENDS BarterSystem, Json, IOUtils

Log == ndJsonDeserialize(IOEnv.TRACE)

VARIABLES l, bad,
          present,   \* the exchanges the current run tracks
          mnot       \* [EXCH -> Nat] market notices processed in the current run
tvars == <<vars, l, bad, present, mnot>>

TInit == Init /\ l = 1 /\ bad = <<>> /\ present = TRADED /\ mnot = [x \in EXCH |-> 0]
Note(tags) == bad' = IF tags = {} THEN bad ELSE Append(bad, <<l, tags>>)
SeqSet(s) == {s[j] : j \in 1..Len(s)}

ReqKindOf(k) == IF k \in {"open_ok", "open_filled", "open_failed"} THEN "open" ELSE "cancel"
ChanSet == UNION {{chan[x][j] : j \in 1..Len(chan[x])} : x \in TRADED}
Outstanding(c, rk) == {r \in ChanSet \cup pending : r.c = c /\ r.k = rk}
Oldest(S) == CHOOSE r \in S : \A q \in S : r.n <= q.n
IndexIn(r) == CHOOSE j \in 1..Len(chan[r.x]) : chan[r.x][j] = r
\* an exchange with an execution link
KnownX(x) == x \in TRADED
Keep == UNCHANGED <<present, mnot>>

TSendOpen == /\ Log[l].a = "SendOpen" /\ Keep
             /\ LET c == Log[l].c  x == Log[l].x IN
                IF ~KnownX(x)
                THEN \* a request reported as handed to the link of an exchange that has none
                     UNCHANGED vars /\ Note({"wrong_exchange"})
                ELSE IF orders[c] = "U" /\ sends[c] < MaxSends /\ home[c] \in {NoExch, x} /\ link[x] # "dead"
                THEN EngineSendOpen(c, x) /\ Note({})
                ELSE \* an id re-used while tracked / beyond the modelled bound: outside the model, adopt
                     /\ orders' = [orders EXCEPT ![c] = "OIF"]
                     /\ home' = [home EXCEPT ![c] = x]
                     /\ chan' = [chan EXCEPT ![x] = Append(@, Req("open", c, sends[c] + 1, x))]
                     /\ sends' = [sends EXCEPT ![c] = @ + 1]
                     /\ UNCHANGED <<pending, feed, answered, link, conn, mlink, mkt, mk, calls>>
                     /\ Note({"send_open_outside_model"})
TSendCancel == /\ Log[l].a = "SendCancel" /\ Keep
               /\ LET c == Log[l].c IN
                  IF sends[c] > 0 /\ sends[c] < MaxSends /\ link[home[c]] # "dead"
                  THEN EngineSendCancel(c) /\ Note({})
                  ELSE /\ UNCHANGED vars
                       /\ Note({"send_cancel_outside_model"})
\* BarterSystem has no step in which the engine fails to hand a request to the link of a TRADED
\* exchange (its manager serves its channel for as long as the system runs): the command was handed
\* over, the request it had to produce for that exchange was not made.  Nor has it a step in which
\* the engine makes a request for a data-only exchange: the drivers never ask for one (the documented
\* fatal path), so a command whose filter matched instruments that hold no order and no position made it.
\* why = no_link: the engine found no link for the exchange; otherwise the link's channel is closed, i.e. its
\* manager has gone - because it was handed a request for a key that is not its own (foreign: a request
\* addressed to another exchange reached it, Routed), or for a reason of its own.
TSendFail == /\ Log[l].a = "SendFail" /\ Keep
             /\ UNCHANGED vars
             /\ Note(IF ~KnownX(Log[l].x) THEN {"request_for_data_only"}
                     ELSE IF Log[l].why = "no_link" THEN {"request_not_sent"}
                     ELSE IF Log[l].foreign # <<>> THEN {"wrong_exchange"} ELSE {"manager_down"})

\* MgrAccept^j . Answer(r) . EngineProcess, as one step
TProcess == /\ Log[l].a = "Process" /\ Keep
            /\ LET c == Log[l].c  k == Log[l].kind  x == Log[l].x  S == Outstanding(c, ReqKindOf(k)) IN
               \* an account item proves the link of the exchange it is stamped with alive
               /\ conn' = [y \in EXCH |-> IF y = x THEN "up" ELSE conn[y]]
               /\ UNCHANGED <<mlink, mkt, mk>> /\ calls' = <<>>
               /\ IF S = {}
                  THEN \* an account event that answers nothing outstanding: a second answer / a phantom
                       /\ orders' = [orders EXCEPT ![c] = After(@, k)]
                       /\ UNCHANGED <<home, chan, pending, feed, sends, answered, link>>
                       /\ Note({"answer_without_request"})
                  ELSE LET r == Oldest(S)
                           j == IF r \in ChanSet THEN IndexIn(r) ELSE 0
                           accepted == {chan[r.x][i] : i \in 1..j}
                       IN /\ chan' = [chan EXCEPT ![r.x] = SubSeq(@, j + 1, Len(@))]
                          /\ pending' = (pending \cup accepted) \ {r}
                          /\ answered' = (r :> 1) @@ answered
                          /\ orders' = [orders EXCEPT ![c] = After(@, k)]
                          /\ UNCHANGED <<home, feed, sends, link>>
                          \* the answer must come back in the name of the exchange the request went to
                          \* (the event's own stamp and the exchange inside the order key it carries: both)
                          /\ Note((IF x = r.x /\ Log[l].key_x = r.x THEN {} ELSE {"wrong_exchange"})
                                  \* the drivers only ask for instruments of the run's own universe: an exchange that
                                  \* answers "no such instrument" was addressed by a name that is not this universe's
                                  \* name of the instrument (index -> exchange name, C04)
                                  \cup (IF k = "open_failed" /\ Log[l].why = "instrument_invalid" THEN {"wrong_instrument_name"} ELSE {}))
Up(m, x) == x \in DOMAIN m /\ m[x]
ConnOf(r) == [x \in EXCH |-> IF Up(r.conn, x) THEN "up" ELSE "down"]
MktOf(r) == [x \in EXCH |-> IF Up(r.market, x) THEN "up" ELSE "down"]
TState == /\ Log[l].a = "State" /\ Keep
          /\ Note((IF \A c \in CID : orders[c] = (IF c \in DOMAIN Log[l].post THEN Log[l].post[c] ELSE "U")
                   THEN {} ELSE {"engine_view"})
                  \* C14 in the composition: the engine tracks exactly the exchanges of the run; per exchange the
                  \* account-link and market-link health the notices and items imply (a data-only exchange's account
                  \* link: down for ever); global connectivity healthy exactly when every link of every tracked
                  \* exchange is
                  \cup (IF /\ DOMAIN Log[l].conn = present /\ DOMAIN Log[l].market = present
                           /\ conn = ConnOf(Log[l]) /\ mkt = MktOf(Log[l])
                           /\ (Log[l].global <=> \A x \in present : Up(Log[l].conn, x) /\ Up(Log[l].market, x))
                        THEN {} ELSE {"conn_view"}))
          \* adopt the observed view so that one divergence is reported once
          /\ orders' = [c \in CID |-> IF c \in DOMAIN Log[l].post THEN Log[l].post[c] ELSE "U"]
          /\ conn' = ConnOf(Log[l])
          /\ mkt' = MktOf(Log[l])
          /\ UNCHANGED <<home, chan, pending, feed, sends, answered, link, mlink, mk, calls>>
\* a manager that was handed a request for a key that is not its own: a request addressed to another
\* exchange reached it (Routed) - and that request, reported as sent, is never answered; a manager that
\* stopped serving for any other reason can never answer (fairness of MgrAccept)
MgrTags == IF Log[l].foreign # <<>> THEN {"wrong_exchange", "request_never_answered"}
           ELSE IF Log[l].down # <<>> THEN {"manager_down"} ELSE {}
TQuiescent == /\ Log[l].a = "Quiescent" /\ Keep
              /\ Note(MgrTags \cup (IF ChanSet = {} /\ pending = {} THEN {} ELSE {"request_never_answered"})
                              \cup (IF \A c \in CID : ~InFlight(c) THEN {} ELSE {"in_flight_never_resolved"}))
              /\ UNCHANGED vars
TManagers == /\ Log[l].a = "Managers" /\ Keep
             /\ Note(MgrTags)
             /\ UNCHANGED vars

\* a new run of the real system starts
TReset == /\ Log[l].a = "Reset"
          /\ orders' = [c \in CID |-> "U"] /\ home' = [c \in CID |-> NoExch]
          /\ chan' = [x \in TRADED |-> <<>>] /\ pending' = {} /\ feed' = <<>>
          /\ sends' = [c \in CID |-> 0] /\ answered' = [r \in {} |-> 0]
          /\ link' = [x \in TRADED |-> "connecting"] /\ conn' = [x \in EXCH |-> "down"]
          /\ mlink' = [x \in EXCH |-> "none"] /\ mkt' = [x \in EXCH |-> "down"] /\ mk' = 0 /\ calls' = <<>>
          /\ present' = SeqSet(Log[l].exch) /\ mnot' = [x \in EXCH |-> 0]
          /\ SeqSet(Log[l].exch) \subseteq EXCH /\ TRADED \subseteq SeqSet(Log[l].exch)
          /\ UNCHANGED bad

\* an account item of exchange x: (Connect(x) .) EngineProcess
TItem == /\ Log[l].a = "Item" /\ Keep
         /\ LET x == Log[l].x IN
            IF ~KnownX(x)
            THEN \* an account item in the name of an exchange that has no account link
                 UNCHANGED vars /\ Note({"wrong_exchange"})
            ELSE /\ link' = [link EXCEPT ![x] = IF @ = "connecting" THEN "up" ELSE @]
                 /\ conn' = [conn EXCEPT ![x] = "up"]
                 /\ calls' = <<>>
                 /\ UNCHANGED <<orders, home, chan, pending, feed, sends, answered, mlink, mkt, mk>>
                 \* a dead link delivers nothing any more
                 /\ Note(IF link[x] = "dead" THEN {"item_from_dead_link"} ELSE {})

\* the market stream delivered an item of exchange x (traded or data-only): MarketItem(x) . EngineProcess
TMktItem == /\ Log[l].a = "MktItem" /\ Keep
            /\ LET x == Log[l].x IN
               IF x \notin present
               THEN UNCHANGED vars /\ Note({"market_unknown_exchange"})
               ELSE /\ mlink' = [mlink EXCEPT ![x] = "up"]
                    /\ mkt' = [mkt EXCEPT ![x] = "up"]
                    /\ calls' = Owed(Ev("mitem", "", "", x))
                    /\ UNCHANGED <<orders, home, chan, pending, feed, sends, answered, link, conn, mk>>
                    /\ Note({})
\* ... a disconnect notice naming x: MarketNotice(x) . EngineProcess.  The on-disconnect strategy must
\* have been invoked exactly once, for x - whether or not x has an execution link
TMktDown == /\ Log[l].a = "MktDown" /\ UNCHANGED present
            /\ LET x == Log[l].x IN
               IF x \notin present
               THEN UNCHANGED <<vars, mnot>> /\ Note({"market_unknown_exchange"})
               ELSE /\ mlink' = [mlink EXCEPT ![x] = "down"]
                    /\ mkt' = [mkt EXCEPT ![x] = "down"]
                    /\ calls' = Owed(Ev("mnotice", "", "", x))
                    /\ mnot' = [mnot EXCEPT ![x] = @ + 1]
                    /\ UNCHANGED <<orders, home, chan, pending, feed, sends, answered, link, conn, mk>>
                    /\ Note(IF Log[l].calls = calls' THEN {} ELSE {"on_disconnect_calls"})

\* the driver killed an exchange's task (only once that link was quiet): KillLink(x) . EngineProcess,
\* as one step.  Exactly one disconnect notice may reach the engine per killed link, naming THAT
\* exchange; the engine's view (next State line) must then show that account link - and global
\* connectivity - down, the other exchange's link untouched; on-disconnect invoked once, for x.
TLinkDown == /\ Log[l].a = "LinkDown" /\ Keep
             /\ LET x == Log[l].x IN
                IF KnownX(x) /\ link[x] = "up"
                THEN /\ link' = [link EXCEPT ![x] = "dead"]
                     /\ conn' = [conn EXCEPT ![x] = "down"]
                     /\ calls' = Owed(Ev("notice", "", "", x))
                     /\ UNCHANGED <<orders, home, chan, pending, feed, sends, answered, mlink, mkt, mk>>
                     /\ Note((IF Quiet(x) THEN {} ELSE {"link_down_outside_model"})
                             \cup (IF Log[l].calls = calls' THEN {} ELSE {"on_disconnect_calls"}))
                ELSE \* a second notice for one death, or a notice naming an exchange that has no account link
                     /\ UNCHANGED vars /\ Note({"link_down_notice"})
TLinkDownCount == /\ Log[l].a = "LinkDownCount" /\ Keep
                  /\ LET killed == SeqSet(Log[l].killed)
                         sent(x) == IF x \in DOMAIN Log[l].mnotices THEN Log[l].mnotices[x] ELSE 0 IN
                     Note((IF \A x \in TRADED : (x \in killed) <=> (link[x] = "dead") THEN {} ELSE {"link_down_count"})
                          \cup (IF \A x \in EXCH : mnot[x] = sent(x) THEN {} ELSE {"market_notice_count"}))
                  /\ UNCHANGED vars

TNext == /\ l <= Len(Log) /\ l' = l + 1
         /\ (TReset \/ TSendOpen \/ TSendCancel \/ TSendFail \/ TItem \/ TProcess \/ TState \/ TQuiescent \/ TManagers
               \/ TMktItem \/ TMktDown \/ TLinkDown \/ TLinkDownCount)
TSpec == TInit /\ [][TNext]_tvars

Done == l = Len(Log) + 1 => PrintT(<<"TRACE_END", ToJson(bad)>>)
Post == PrintT(<<"TRACE_DONE", TLCGet("stats").diameter, Len(Log)>>)
=============================================================================
