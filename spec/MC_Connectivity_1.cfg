SPECIFICATION Spec
CONSTANTS
  EXCH = {e1}
INVARIANTS TypeOK ConnIff
PROPERTIES ExactlyThatLink DownMarks HealedByNext OnlyOwnEvents
CHECK_DEADLOCK TRUE
