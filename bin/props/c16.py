"""C16 - tear-sheet PnL, win rate and profit factor match the closed positions (spec/Stats.tla);
the ratio figures of the instrument sheet (rate of return, Sharpe, Sortino, Calmar) included."""
import json
import re
import threading

import vlib
from props import stats_common as sc

MODULE = "Stats"
META = {
    "level_text": "reference-model enumeration + replay",
    "level_note": "TLC checks the batch definitions of the tear sheet (win-rate / profit-factor conventions, order-freedom, "
                  "per-key isolation, accumulators+calculators = batch; for the ratio figures the convention tables of "
                  "Sharpe / Sortino / Calmar at zero risk, the value laws in squared form, the scale law, running = batch) "
                  "on every bounded history and emits every history "
                  "with the exact summary after every event; they are replayed into TearSheetGenerator, "
                  "TradingSummaryGenerator and, as fills, into a real Engine whose trading summary is generated, for the "
                  "risk-free return and the interval (Daily, Annual252, Annual365, custom TimeDelta) the behaviour names. Trusted: TLC, spec/Rational.tla, the projection functions in harness/src/stats_driver.rs (bins c16/c17/c18), the assumptions listed in the evidence file.",
    "technique": "TLA+ spec (Stats.tla: tear sheet, returns summaries and the ratio figures as exact rationals / squared laws) model-checked "
                 "with TLC; TLC-generated histories with the expected figures after every event (enumerated + simulated, incl. late exits, "
                 "resets, store / restore, balances with a free part) replayed into TearSheetGenerator, TradingSummaryGenerator and a real "
                 "Engine and compared field by field",
}
ASSUMPTIONS = [
    "a closed position is (pnl, cost = price_entry_average * quantity_abs_max > 0); the harness realises it with varying "
    "side, price x quantity factorisation, fees, partial closes and scale 10^e (e in {-3,0,3}); returns are scale-free",
    "profit factor conventions as documented on ProfitFactor::calculate: none when gross profit and gross loss are both "
    "zero, Decimal::MAX with profits and no losses, Decimal::MIN with losses and no profits",
    "win rate / profit factor compared up to decimal rounding (1e-18 relative); PnL exactly representable",
    "instrument sheets are compared on pnl, win_rate, profit_factor, pnl_return, sharpe_ratio, sortino_ratio, calmar_ratio, and the "
    "running returns summaries of their generator (PnLReturns.total / .losses: count, sum, mean to 1e-18 relative; variance in the "
    "ratio domain); asset sheets (which report no ratio figure) on balance_end = the (total, free) pair of the last accepted "
    "snapshot and on WHICH accepted snapshot is the last point of the equity curve (the clock of the asset's drawdown generator; "
    "the other drawdown fields: C18)",
    "balance snapshots: total and free move independently (only free, only total, both, neither); every snapshot delivered is an "
    "ACCEPTED one (the exchange times of an asset increase: freshness is C09's subject); the engine route delivers it as a "
    "BalanceSnapshot or inside a full AccountSnapshot",
    "closed positions are delivered in ANY order of their exit times (late exits: behind a later exit of the same instrument, also "
    "before the start of the session); PnL, win rate, profit factor and the returns summaries are functions of the multiset of "
    "(pnl, cost) and must not notice. Left open by the specification for a history with a late exit (spec/Stats.tla, 'ratio figures', "
    "points 4 and 5; nothing is open without one): the END of the trading period - the exit delivered last (what the code stamps) or "
    "the latest exit delivered (the engine clock its doc comment names never moves back) - and the PnL curve under Calmar's drawdown "
    "- in the order delivered or in the order of the exit times; one reading per generated sheet (TLC lists the sheets of all readings "
    "that differ, the harness accepts a sheet that is one of them as a whole)",
    "ratio figures: TLC gives every figure in squared, factored form <<k, sign, sq, fac>> (value = sign * sqrt(sq * fac), sq and "
    "fac exact fractions, fac = target interval / trading period in seconds); the harness compares the Decimal with "
    "sign * sqrt(sq * fac) within 1e-12 relative (the code itself takes decimal square roots: rust_decimal's sqrt is "
    "approximate; the harness uses its own Newton iteration, checked by squaring to 1e-20); the rate of return is linear and "
    "compared to 1e-18 relative; sentinels Decimal::MAX / Decimal::MIN exactly",
    "ratio figures, left open by the specification (header of the section 'ratio figures' of spec/Stats.tla): a sentinel "
    "scaled DOWN may be the sentinel or any value of its sign from the product upwards; zero risk with excess exactly zero in "
    "a history of three or more positions (decimal rounding of the running mean decides); Calmar when the PnL curve "
    "declines from a running maximum that is not positive (C18 defines drawdowns for positive peaks only)",
    "ratio figures: exit times are whole seconds; the trading period runs from the start of the "
    "instrument's session (TearSheetGenerator::init / reset, the engine state's time_engine_start) to its latest exit, at "
    "least one second (an exit before the session start: one second); risk-free returns are finite decimals (0, 1/10, -1/10, 1/20); returns of the behaviours with ratio "
    "figures are finite decimals (costs 4, 5, 10, 20); wide behaviours (PnL up to 300, costs 3..25) carry no ratio figures "
    "because their squares exceed TLC's 32-bit integers",
    "summary mode: the risk-free return is the public field TradingSummaryGenerator.risk_free_return that init() sets; the "
    "harness assigns it before generate()",
    "engine mode: consecutive closed positions of one instrument are chained, where the numbers allow it exactly, by CROSSING "
    "fills (the closing fill is over-sized and opens the next position on the other side: long->short->long..); the position "
    "closed by such a fill belongs to the instrument's history like any other",
    "direct / summary modes: exits may also be equal or late ACROSS instruments (behind another key's exit, a balance update or "
    "TradingSummaryGenerator::update_time_now: the summary generator's own clock only moves forwards and is not what a sheet's "
    "period ends at)",
    "engine mode: a late exit is a closing Trade whose time_exchange is older than an earlier fill's (the position code stamps "
    "time_exit from the closing trade); all fills of a closed position carry the exit time the behaviour names",
    "the tear-sheet generators are serialisable: a serde_json store/restore of every running generator between two events "
    "(spec action Persist, a stutter) must leave the generated summary, now and later, unchanged",
    "the tear sheet is a function of the CLOSED positions only: an open position - just opened, increased, or partly reduced with PnL "
    "already realised - contributes nothing until it is closed. Engine mode generates summaries while such positions are open: the "
    "opening fill (and the reducing fill of a partial close) of an instrument's next closed position is executed up to several events "
    "early, and an instrument that closes nothing any more may carry a position that is opened, increased, partly reduced at another "
    "price and never closed",
    "summary / engine modes: the first balance snapshot of about half of the assets is delivered by the builder of the engine state "
    "(EngineState::builder(..).balances(..), as SystemBuilder::balances does) at the start of the session instead of an account event: "
    "it is the first accepted snapshot of that asset and the first point of its equity curve; the behaviour's event places it in the "
    "history (events of different keys commute), the asset is compared from that event on",
    "engine mode: producing the closed position from fills is C02's subject - a deviation there is a tool error, not a C16 verdict",
]
MODES = ("direct", "summary", "engine")


def signature(r):
    ra = r.get("ratio")
    if ra:
        # a sentinel expected or reported and the kinds differ: which became which; else the figure and its case
        base, ek, gk = ra["field"].split(".")[0], ra["expected_kind"], ra["got_kind"]
        if ek != gk and (ek in ("MAX", "MIN") or gk in ("MAX", "MIN", "panic")):
            return "Generate:%s:%s->%s" % (base, ek, gk)
        return "Generate:%s:%s" % (ra["field"], ra["case"].split(":")[0])
    m = re.search(r"expected (.+?), got (.+)$", r["error"])
    if not m:
        return "%s" % sc.field_of(r["error"]).replace(" ", "_")
    return "%s:%s->%s" % (sc.field_of(r["error"]), sc.kind(m.group(1).split(" ")[0]), sc.kind(m.group(2).split(" ")[0]))


def history(scn, upto):
    h = {}
    for e in scn["evs"][:upto + 1]:
        if e["a"] == "AddClosed":
            h.setdefault(e["k"], []).append("%+d/%d" % (e["x"], e["y"]) + ("@%ds" % e["t"] if "t" in e else ""))
        elif e["a"] == "Reset":
            h.setdefault(e["k"], []).append("reset()")
        elif e["a"] == "AddBalance":
            h.setdefault(e["k"], []).append("%s/%s free" % (e["x"], e["y"]))
    return h


def judge(ctx, results, scns, label, counts):
    for r in results:
        if r["ok"]:
            ctx.cov["traces_validated_against_impl"] += 1
            continue
        scn = scns[r["scn"]]
        sig = signature(r)
        counts.setdefault(sig, {}).setdefault(r.get("mode"), 0)
        counts[sig][r.get("mode")] += 1
        desc = "histories (pnl/cost@exit time per closed position in the order delivered, balance snapshots total/free) %s: after event #%d %s the generated summary has %s; summary before: %s [mode %s, scale 1e%s, %s]" % (
            json.dumps(history(scn, r["step"])), r["step"] + 1, json.dumps(r["event"]), r["error"],
            json.dumps(r["pre"].get("instruments", r["pre"].get("ratio_figures_now")) if isinstance(r["pre"], dict) else r["pre"]),
            r.get("mode"), r.get("variant", {}).get("e10"), label)
        ctx.violation(sig, desc, sc.replay_object(scn, r, ctx.seed, mode=r.get("mode")))


def corrupt(scn):
    e = scn["evs"][0]["exp"]["instruments"]
    k = sorted(e)[0]
    e[k]["pnl"]["n"] += e[k]["pnl"]["d"]            # PnL + 1


def corrupt_free(scn):
    """the first asset sheet with a balance: its free part + 1 (the total untouched)"""
    for e in scn["evs"]:
        for k in sorted(e["exp"]["assets"]):
            a = e["exp"]["assets"][k]
            if isinstance(a, dict):
                a["free"] += 1
                return
    raise vlib.ToolError("binding self-test: no balance in the chosen scenario")


def corrupt_points(scn):
    """the last asset sheet with two or more snapshots: the equity curve one point shorter"""
    for e in reversed(scn["evs"]):
        for k in sorted(e["exp"]["assets"]):
            a = e["exp"]["assets"][k]
            if isinstance(a, dict) and a["points"] >= 2:
                a["points"] -= 1
                return
    raise vlib.ToolError("binding self-test: no asset with two snapshots in the chosen scenario")


def corrupt_returns(scn):
    """the returns summary after the last event: one position fewer"""
    r = scn["evs"][-1]["exp"]["returns"]
    k = max(r, key=lambda k: r[k]["count"])
    r[k]["count"] -= 1


def corrupt_late(scn):
    """the last sheet for which the specification lists several readings (late exits): the rate of return tripled on
    EVERY reading (whichever reading the implementation follows, no listed sheet is its sheet any more)"""
    for e in reversed(scn["evs"]):
        for k in sorted(e["ratios"]["instruments"]):
            sh = e["ratios"]["instruments"][k]
            if sh["alt"] and sh["pnl_return"][0] != 0:
                for reading in [sh] + sh["alt"]:
                    reading["pnl_return"][0] *= 3
                return
    raise vlib.ToolError("binding self-test: no sheet with several readings and a non-zero rate of return in the chosen scenario")


def corrupt_ratio(scn):
    """the last Sharpe figure with a number: its squared value doubled"""
    for e in reversed(scn["evs"]):
        for k in sorted(e["ratios"]["instruments"]):
            f = e["ratios"]["instruments"][k]["sharpe_ratio"]
            if f[0] == "num" and f[2] != 0:
                f[2] *= 2
                return
    raise vlib.ToolError("binding self-test: no numeric Sharpe figure in the chosen scenario")


# every row of the convention tables (Stats.tla, CaseOfBase) and every scaling direction of every kind of figure
TABLE_ROWS = (["sharpe_ratio:zero_std_dev:%s" % x for x in ("pos", "neg", "zero")] + ["sharpe_ratio:num"]
              + ["sortino_ratio:zero_downside_dev:%s" % x for x in ("pos", "neg", "zero")] + ["sortino_ratio:num"]
              + ["calmar_ratio:zero_drawdown:%s" % x for x in ("pos", "neg", "zero")] + ["calmar_ratio:num", "calmar_ratio:undefined_drawdown"]
              + ["%s:%s" % (k, d) for k in ("num", "MAX", "MIN", "any") for d in ("up", "same", "down") if (k, d) != ("any", "same")]
              + ["zero_excess:exact", "zero_excess:open"])


def late_coverage(scns):
    """No vacuity: what the TLC-generated behaviours contain of late exits and of the readings the specification leaves
    open for them (flags and alternatives are computed by TLC from the specification)."""
    c = {"closed_positions": 0, "late_exits": 0, "exits_before_session_start": 0, "behaviours_with_a_late_exit": 0,
         "sheets_with_ratio_figures": 0, "sheets_with_several_readings": 0, "sheets_after_a_late_exit_with_one_reading": 0,
         "readings_listed_beside_the_code's": 0}
    for scn in scns:
        c["behaviours_with_a_late_exit"] += any(e.get("late") for e in scn["evs"])
        for e in scn["evs"]:
            if e["a"] == "AddClosed":
                c["closed_positions"] += 1
                c["late_exits"] += bool(e.get("late"))
                c["exits_before_session_start"] += e["t"] < 0
            r = e.get("ratios")
            if isinstance(r, dict):
                for sheet in r["instruments"].values():
                    c["sheets_with_ratio_figures"] += 1
                    c["sheets_with_several_readings"] += bool(sheet["alt"])
                    c["sheets_after_a_late_exit_with_one_reading"] += bool(sheet["late"] and not sheet["alt"])
                    c["readings_listed_beside_the_code's"] += len(sheet["alt"])
    return c


def table_coverage(scns):
    """No vacuity: the rows of the convention tables met by the TLC-generated behaviours (the case tags are
    computed by TLC from the specification)."""
    seen = {}
    for scn in scns:
        for e in scn["evs"]:
            r = e.get("ratios")
            if not isinstance(r, dict):
                continue
            for sheet in r["instruments"].values():
                for f in ("sharpe_ratio", "sortino_ratio", "calmar_ratio"):
                    fig = sheet[f]
                    for key in ("%s:%s" % (f, fig[6]), "%s:%s" % (fig[0], sheet["scale"])):
                        seen[key] = seen.get(key, 0) + 1
                    if f != "sharpe_ratio" and fig[6].endswith(":zero"):
                        key = "zero_excess:%s" % ("open" if fig[0] == "any" else "exact")
                        seen[key] = seen.get(key, 0) + 1
    return seen


def files_by_label(files):
    return [(label, scns) for label, _, scns in files]


def in_parallel(jobs):
    """run the callables beside one another; results in order; the first exception is re-raised in the caller"""
    out, err = [None] * len(jobs), []

    def run(k, job):
        try:
            out[k] = job()
        except BaseException as e:      # noqa: B902 - re-raised in the main thread
            err.append(e)
    ts = [threading.Thread(target=run, args=(k, j)) for k, j in enumerate(jobs)]
    for t in ts:
        t.start()
    for t in ts:
        t.join()
    if err:
        raise err[0]
    return out


def check(ctx):
    ctx.assumptions += ASSUMPTIONS
    ctx.build("c16")
    # (-coverage makes TLC several times slower here: vacuity is checked on the small configurations)
    # the model checking does not depend on the replays: it runs beside them, in two strands (a failure is re-raised
    # when they are joined)
    def sheets():
        # the exhaustive model of the sheets (figures that never read a time)
        ctx.tlc_mc("MC_" + MODULE, "MC_Stats_C16.cfg" if ctx.quick else "MC_Stats_C16_thorough.cfg", timeout=2400, coverage=False)

    def small_and_ratios():
        ctx.tlc_actions("MC_" + MODULE, "MC_Stats_C16_small.cfg", ["AddClosedAny", "AddBalanceAny", "GenerateAny", "PersistAny", "ResetAny"])
        # the sheets with LATE exits (negative steps of the exit time) and Generate choosing a reading: every action taken
        # there too (the dump run is a complete model check of that configuration with all its invariants and properties)
        ctx.tlc_actions("MC_" + MODULE, "MC_Stats_C16_late.cfg", ["AddClosedAny", "GenerateAny", "PersistAny", "ResetAny"])
        if not ctx.quick:
            ctx.tlc_mc("MC_" + MODULE, "MC_Stats_C16_late_thorough.cfg", timeout=1200, coverage=False)
        # balance snapshots whose total and free part move independently, three per run
        ctx.tlc_actions("MC_" + MODULE, "MC_Stats_C16_bal.cfg", ["AddBalanceAny", "GenerateAny", "PersistAny"])
        # the ratio laws over the histories of one instrument, late exits included
        ctx.tlc_mc("MC_" + MODULE, "MC_Stats_C16_ratios.cfg" if ctx.quick else "MC_Stats_C16_ratios_thorough.cfg", timeout=2400,
                   coverage=False, workers=4 if ctx.quick else None)
    extra = in_parallel([lambda: replays(ctx), sheets, small_and_ratios])[0]
    return ctx.finish(extra=extra)


def replays(ctx):
    gens = [("enumerated", "GenT_Stats_C16.cfg", None)]
    if not ctx.quick:
        gens.append(("enumerated-long", "GenT_Stats_C16_thorough.cfg", None))
    gens.append(("simulated", "GenR_Stats_C16.cfg", (400 if ctx.quick else 5000, 40)))
    def gen(label, cfg, sim):
        p, scns = ctx.tlc_gen("Gen_" + MODULE, cfg, label + ".ndjson", simulate=sim, timeout=1200)
        if sim and len(scns) < 0.9 * sim[0]:
            # (TLC ends a simulation at the first evaluation error, e.g. an integer overflow of the exact fractions)
            raise vlib.ToolError("TLC simulation of %s ended early: %d of %d behaviours" % (cfg, len(scns), sim[0]))
        return (label, p, scns)
    files = in_parallel([lambda g=g: gen(*g) for g in gens])
    ctx.sample({"kind": "TLC enumerated history with the exact summary after every event", "scenario": files[0][2][len(files[0][2]) // 2]})
    ctx.sample({"kind": "TLC simulated behaviour (closed positions, balances, Generate)", "scenario": files[-1][2][0]})
    sc.selftest_binding(ctx, "c16", files[0][2][0], corrupt, ".pnl", ("--mode", "direct"))
    with_ratios = [s for s in files[0][2] if all(isinstance(e.get("ratios"), dict) for e in s["evs"])]
    sc.selftest_binding(ctx, "c16", with_ratios[len(with_ratios) // 2], corrupt_ratio, "sharpe_ratio", ("--mode", "direct"))
    # ... the free part of a balance, the length of the equity curve, the returns summaries, and a sheet for which the
    # specification lists several readings (late exits): a corruption must not be absorbed by another reading
    with_bal = [s for s in files[-1][2] if any(isinstance(a, dict) and a["points"] >= 2 for e in s["evs"] for a in e["exp"]["assets"].values())]
    if not with_bal:
        raise vlib.ToolError("vacuous run: no simulated behaviour with two balance snapshots of one asset")
    sc.selftest_binding(ctx, "c16", with_bal[0], corrupt_free, ".free", ("--mode", "engine"))
    sc.selftest_binding(ctx, "c16", with_bal[-1], corrupt_points, ".points", ("--mode", "summary"))
    sc.selftest_binding(ctx, "c16", files[0][2][len(files[0][2]) // 3], corrupt_returns, "returns", ("--mode", "engine"))
    with_alt = [s for s in with_ratios if any(sh["alt"] and sh["pnl_return"][0] != 0 for e in s["evs"] for sh in e["ratios"]["instruments"].values())]
    if not with_alt:
        raise vlib.ToolError("vacuous run: no enumerated behaviour with several readings of a sheet (late exits)")
    sc.selftest_binding(ctx, "c16", with_alt[len(with_alt) // 2], corrupt_late, "pnl_return", ("--mode", "summary"))
    late = {label: late_coverage(scns) for label, _, scns in files}
    for label, c in late.items():
        if not all(c[k] for k in ("late_exits", "exits_before_session_start", "sheets_with_several_readings")) and label != "replay":
            raise vlib.ToolError("vacuous run: the %s behaviours contain no late exits / no sheet with several readings: %s" % (label, c))
        # (without a late exit nothing is open: at least a third of the behaviours stay that way)
        if c["behaviours_with_a_late_exit"] > (0.9 if label == "enumerated-long" else 0.7) * len(dict(files_by_label(files))[label]):
            raise vlib.ToolError("the %s behaviours are dominated by late exits: %s" % (label, c))
    ctx.cov["late_exits_in_generated_behaviours"] = late
    rows = table_coverage(files[0][2])
    missing = [r for r in TABLE_ROWS if not rows.get(r)]
    if missing:
        raise vlib.ToolError("vacuous run: rows of the ratio convention tables never met by the enumerated behaviours: %s" % missing)
    ctx.cov["ratio_table_rows_in_enumerated_behaviours"] = rows
    counts, arms, ratio = {}, {}, {}
    # (the three routes are independent processes: beside one another)
    runs = in_parallel([lambda m=m: [sc.run_replay(ctx, "c16", p, "%s_%s" % (label, m), ("--mode", m)) for label, p, _ in files] for m in MODES])
    for mode, per_file in zip(MODES, runs):
        for (label, p, scns), (info, results) in zip(files, per_file):
            judge(ctx, results, scns, label, counts)
            ctx.cov["scenarios_replayed"] += len(scns)
            for k, v in info.get("arm_hits", {}).items():
                arms[k] = arms.get(k, 0) + v
            for k, v in info.get("ratio_figures", {}).items():
                if isinstance(v, int):
                    ratio[k] = ratio.get(k, 0) + v
                elif k == "max_error_over_tolerance":
                    ratio[k] = max(ratio.get(k, 0.0), float(v))
    # (runs cut short by a violation exercise fewer arms: vacuity is only judged on a clean run)
    if not ctx.violations and not all(arms.get(k) for k in ("win", "loss", "break_even", "balance", "generate_event", "keyed_by_name",
                                                            "crossing_fill", "equal_exit_time", "late_reported_exit", "clock_update", "store_restore",
                                                            "reset", "sheets_with_ratio_figures",
                                                            "late_exit_behind_a_later_exit_of_the_same_instrument", "exit_before_session_start",
                                                            "balance_only_free_moved", "balance_only_total_moved", "balance_both_moved",
                                                            "balance_repeated_unchanged", "balance_inside_full_account_snapshot",
                                                            "sheets_with_more_than_one_reading",
                                                            "balance_seeded_by_the_state_builder", "balance_below_the_seeded_one_before_any_above",
                                                            "generated_with_an_opened_position", "generated_with_a_partly_reduced_open_position",
                                                            "positions_opened_early", "positions_never_closed")):
        raise vlib.ToolError("vacuous run: a kind of event was never replayed: %s" % arms)
    if not all(ratio.get(k) for k in ("compared", "left_open_by_the_spec", "sentinel_scaled_down", "rescaled_with_scale()")):
        raise vlib.ToolError("vacuous run: the ratio figures were not all exercised: %s" % ratio)
    return {"arm_hits": arms, "ratio_figures": ratio, "violations_by_signature_and_mode": counts}


def replay(ctx, rp):
    ctx.build("c16")
    p = ctx.path("replay_scn.ndjson")
    with open(p, "w") as f:
        f.write(json.dumps(rp["scenario"]) + "\n")
    ctx.seed = rp.get("seed", ctx.seed)
    _, results = sc.run_replay(ctx, "c16", p, "replay", ("--mode", rp.get("mode", "direct")))
    judge(ctx, results, [rp["scenario"]], "replay", {})
    return ctx.finish(write_evidence=False)
