SPECIFICATION G16
CONSTANTS
  Instr = {"i0", "i3"}
  Asset = {"a0", "a5"}
  PnLs <- PnLsQuick
  Costs = {10}
  Bals = {5, 7}
  Vals = {}
  MaxClosed = 4
  MaxBal = 0
  MaxVals = 0
  Gaps <- GapsGen
  RFs <- RFsGen
  Ivs = {"Daily", "Annual252", "Annual365", "Hours2", "Days500"}
INVARIANT Emit16
CHECK_DEADLOCK FALSE
