//! C10 — audit stream + state replica conformance driver (spec/Audit.tla).
//!
//! `c10 record --seed S --histories H --events N --out trace.ndjson`
//!
//! For each seeded history a real `Engine` (engine_kit, fresh client order ids so that ids are
//! never reused while tracked) is driven through one of:
//!   direct : process_with_audit per event
//!   sync   : sync_run_with_audit  (feed iterator, ChannelTxDroppable<UnboundedTx>)
//!   async  : async_run_with_audit (feed stream)
//! ended by a Shutdown event, by the end of the feed, or by a fatal send error. Lines:
//!   {"a":"Snapshot","seq":s0,...}
//!   {"a":"Emit","seq":n,"term":b,"kind":"process"|"feedEnded","evSame":b}   one per audit record
//!   {"a":"Deliver","seq":n,"term":b,"kind":..,"ok":b,"rseq":n,"eqs":[k..]}  one per record of a
//!        delivery stream (in order / one dropped / one repeated), obtained by running the REAL
//!        `StateReplicaManager::new(snapshot, prefix).run()` on every prefix of the stream:
//!        ok = run returned Ok, rseq = replica context sequence, eqs = the indices k for which the
//!        replica's EngineState equals the engine's state cloned after event k (in-flight request
//!        markers set aside) — exact equality of trading state, connectivity, balances,
//!        positions, market data and tear-sheet generators (derived PartialEq).
use barter::{
    EngineEvent,
    engine::{
        audit::{AuditTick, Auditor, EngineAudit, state_replica::StateReplicaManager},
        process_with_audit,
        run::{async_run_with_audit, sync_run_with_audit},
        state::trading::TradingState,
    },
};
use barter_data::event::DataKind;
use barter_execution::order::state::ActiveOrderState;
use barter_integration::channel::{ChannelTxDroppable, mpsc_unbounded};
use rand::{Rng, rngs::StdRng};
use serde_json::{Value, json};
use std::sync::{Arc, atomic::AtomicUsize};
use vh::{engine_gen, engine_kit::*, util::*, world2};

type State = world2::State;

/// in-flight request markers set aside: OIF and CIF(none) dropped, CIF(Open o) -> Open o
fn strip(st: &State) -> State {
    let mut s = st.clone();
    for (_, inst) in s.instruments.0.iter_mut() {
        let orders = std::mem::take(&mut inst.orders.0);
        for (cid, mut o) in orders {
            match o.state.clone() {
                ActiveOrderState::OpenInFlight(_) => continue,
                ActiveOrderState::Open(_) => {}
                ActiveOrderState::CancelInFlight(c) => match c.order {
                    None => continue,
                    Some(open) => o.state = ActiveOrderState::Open(open),
                },
            }
            inst.orders.0.insert(cid, o);
        }
    }
    s
}

fn differing_component(a: &State, b: &State) -> &'static str {
    if a.trading != b.trading {
        "trading"
    } else if a.connectivity != b.connectivity {
        "connectivity"
    } else if a.assets != b.assets {
        "balances/asset statistics"
    } else if a.instruments.0.values().zip(b.instruments.0.values()).any(|(x, y)| x.position != y.position) {
        "positions"
    } else if a.instruments.0.values().zip(b.instruments.0.values()).any(|(x, y)| x.data != y.data) {
        "market data"
    } else if a.instruments.0.values().zip(b.instruments.0.values()).any(|(x, y)| x.tear_sheet != y.tear_sheet) {
        "tear sheets"
    } else if a.instruments.0.values().zip(b.instruments.0.values()).any(|(x, y)| x.orders != y.orders) {
        "orders"
    } else {
        "other"
    }
}

/// events with fresh client order ids: opens always use a new id, cancels target ids in use
struct Gen {
    next: usize,
    live: Vec<(i64, String, String, i64)>,
    /// signed net filled quantity per instrument of the history generated so far
    net: [i64; world2::N_INST],
}

impl Gen {
    fn fresh(&mut self) -> String {
        self.next += 1;
        format!("n{}", self.next)
    }
    fn opens(&mut self, rng: &mut StdRng, max: usize) -> Vec<Value> {
        (0..rng.random_range(1..=max)).map(|_| {
            let inst = rng.random_range(0..world2::N_INST as i64);
            let cid = self.fresh();
            let side = if rng.random_bool(0.5) { "buy" } else { "sell" };
            let qty = rng.random_range(1..=3);
            self.live.push((inst, cid.clone(), side.to_string(), qty));
            json!({"k": "open", "ex": if rng.random_range(0..15) == 0 { world2::UNKNOWN_EX } else { world2::EX_OF[inst as usize] as i64 }, "inst": inst, "cid": cid,
                   "side": side, "qty": qty, "hasId": false})
        }).collect()
    }
    fn cancels(&mut self, rng: &mut StdRng, max: usize) -> Vec<Value> {
        let mut out = vec![];
        for _ in 0..rng.random_range(1..=max) {
            if self.live.is_empty() {
                break;
            }
            let (inst, cid, _, _) = self.live[rng.random_range(0..self.live.len())].clone();
            if out.iter().any(|r: &Value| r["cid"] == cid.as_str()) {
                continue;
            }
            out.push(json!({"k": "cancel", "ex": world2::EX_OF[inst as usize] as i64, "inst": inst, "cid": cid, "side": "-", "qty": 0, "hasId": rng.random_bool(0.5)}));
        }
        out
    }
    fn env(&mut self, rng: &mut StdRng, with_orders: bool, faults: bool) -> Value {
        let mode = |rng: &mut StdRng| if !faults { "healthy" } else { match rng.random_range(0..40) { 0 => "closed", 1 => "missing", 2 | 3 => "unhealthy", _ => "healthy" } };
        let link: Vec<&str> = (0..world2::N_EX).map(|_| mode(rng)).collect();
        let (mut c, mut o) = (vec![], vec![]);
        if with_orders && rng.random_bool(0.35) {
            if rng.random_bool(0.4) {
                c = self.cancels(rng, 2);
            }
            if rng.random_bool(0.7) {
                o = self.opens(rng, 2);
            }
        }
        let refuse: Vec<String> = o.iter().chain(c.iter()).filter(|_| rng.random_range(0..6) == 0).map(|r| r["cid"].as_str().unwrap().to_string()).collect();
        json!({"link": link, "algoC": c, "algoO": o, "refuse": refuse})
    }
    fn event(&mut self, rng: &mut StdRng) -> Value {
        let inst = rng.random_range(0..world2::N_INST as i64);
        let ex = world2::EX_OF[inst as usize] as i64;
        let nf = engine_gen::no_filter;
        let live = |g: &Gen, rng: &mut StdRng| g.live.iter().filter(|l| l.0 == inst).cloned().nth(rng.random_range(0..3)).unwrap_or_else(|| (inst, "none".to_string(), "buy".to_string(), 2));
        match rng.random_range(0..100) {
            0..=10 => engine_gen::ev("Market", ex, inst, "", "", "-", 0, false, "-", vec![], nf()),
            11..=13 => engine_gen::ev("MarketNoPrice", ex, inst, "", "", "-", 0, false, "-", vec![], nf()),
            14..=17 => engine_gen::ev("MarketReconnecting", rng.random_range(0..world2::N_EX as i64), 0, "", "", "-", 0, false, "-", vec![], nf()),
            18..=21 => engine_gen::ev("AccountReconnecting", rng.random_range(0..world2::N_EX as i64), 0, "", "", "-", 0, false, "-", vec![], nf()),
            22..=35 => {
                let c = live(self, rng);
                let mut e = engine_gen::ev("OrderSnap", ex, inst, &c.1, if rng.random_bool(0.7) { "Open" } else { "Inactive" }, &c.2, c.3, false, "-", vec![], nf());
                // a third of the open reports repeat the previous report's exchange timestamp with other content
                e["tie"] = json!(rng.random_range(0..3) == 0);
                e
            }
            36..=41 => { let c = live(self, rng); engine_gen::ev("CancelResp", ex, inst, &c.1, "", "-", 0, rng.random_bool(0.5), "-", vec![], nf()) }
            42..=55 => {
                let side = if rng.random_bool(0.5) { "buy" } else { "sell" };
                // now and then a fill of quantity ZERO while a position is open (a venue's "fee only" / dust report):
                // it is a fill like any other for the engine and for the replica
                let qty = if self.net[inst as usize] != 0 && rng.random_range(0..5) == 0 { 0 } else { rng.random_range(1..=2) };
                self.net[inst as usize] += if side == "buy" { qty } else { -qty };
                engine_gen::ev("Trade", ex, inst, "", "", side, qty, false, "-", vec![], nf())
            }
            56..=60 => engine_gen::ev("Balance", rng.random_range(0..world2::N_EX as i64), 0, "", "", "-", rng.random_range(0..9), false, "-", vec![], nf()),
            61..=68 => engine_gen::ev("TradingState", 0, 0, "", "", "-", 0, false, if rng.random_bool(0.6) { "Enabled" } else { "Disabled" }, vec![], nf()),
            69..=76 => { let b = self.opens(rng, 3); engine_gen::ev("SendOpens", 0, 0, "", "", "-", 0, false, "-", b, nf()) }
            77..=82 => { let b = self.cancels(rng, 3); if b.is_empty() { engine_gen::ev("Balance", 0, 0, "", "", "-", 1, false, "-", vec![], nf()) } else { engine_gen::ev("SendCancels", 0, 0, "", "", "-", 0, false, "-", b, nf()) } }
            83..=90 => { let f = engine_gen::random_filter(rng); engine_gen::ev("CancelOrders", 0, 0, "", "", "-", 0, false, "-", vec![], f) }
            _ => { let f = engine_gen::random_filter(rng); engine_gen::ev("ClosePositions", 0, 0, "", "", "-", 0, false, "-", vec![], f) }
        }
    }
}

fn new_kit(trading: TradingState) -> Kit {
    let mut kit = Kit::new(trading);
    kit.engine.strategy.fresh_close_cids = Some(Arc::new(AtomicUsize::new(0)));
    kit
}

/// a feed whose items install the step's environment just before the engine receives the event
struct Feed<'a> {
    items: std::vec::IntoIter<(Value, Value)>,
    kit_env: &'a dyn Fn(&Value),
    t: i64,
    fed: Arc<parking_lot::Mutex<Vec<EngineEvent<DataKind>>>>,
}
impl Iterator for Feed<'_> {
    type Item = EngineEvent<DataKind>;
    fn next(&mut self) -> Option<Self::Item> {
        let (mut ev, env) = self.items.next()?;
        self.t += 1;
        ev["t"] = json!(self.t);
        ev["price"] = json!(100 + self.t % 7);
        (self.kit_env)(&env);
        let e = make_event(&ev);
        self.fed.lock().push(e.clone());
        Some(e)
    }
}

fn kind_of(t: &Tick) -> (&'static str, bool) {
    use barter_integration::Terminal;
    match &t.event {
        EngineAudit::FeedEnded => ("feedEnded", true),
        EngineAudit::Process(p) => ("process", p.is_terminal()),
    }
}

fn main() {
    let args = Args::parse();
    if args.cmd != "record" {
        usage("c10 record --seed S --histories H --events N --out f");
    }
    let mut rng = rng(args.u64("seed", 1));
    let histories = args.usize("histories", 30);
    let n_events = args.usize("events", 40);
    let mut out = Out::create(args.req("out"));
    let (mut prefix_runs, mut emitted) = (0usize, 0usize);
    for h in 0..histories {
        let runner = ["direct", "sync", "async"][h % 3];
        let ending = ["shutdown", "feed_end", "fatal", "fatal_algo"][(h / 3) % 4];
        let with_orders = (h / 12) % 2 == 0;
        let mut kit = new_kit(if rng.random_bool(0.5) { TradingState::Enabled } else { TradingState::Disabled });
        let mut g = Gen { next: h * 1000, live: vec![], net: [0; world2::N_INST] };
        // the scripted history
        let mut items: Vec<(Value, Value)> = (0..n_events).map(|_| (g.event(&mut rng), g.env(&mut rng, with_orders, false))).collect();
        // a deliberate burst in most histories: open -> confirmed open -> cancel sent -> a second open
        // report with the SAME exchange timestamp and other content while the cancel is in flight ->
        // cancel rejected. The engine holds a cancel-in-flight marker here and the replica does not, so
        // the two take different arms of the order manager for the same audit record.
        if h % 4 != 3 {
            let at = rng.random_range(0..=items.len());
            let o = g.opens(&mut rng, 1);
            let (inst, cid, side, qty) = g.live.last().cloned().unwrap();
            let ex = world2::EX_OF[inst as usize] as i64;
            let nf = engine_gen::no_filter;
            let quiet = |g: &mut Gen, rng: &mut StdRng| g.env(rng, false, false);
            let mut o_fixed = o.clone();
            o_fixed[0]["ex"] = json!(ex);
            let mut burst = vec![
                (engine_gen::ev("SendOpens", 0, 0, "", "", "-", 0, false, "-", o_fixed, nf()), quiet(&mut g, &mut rng)),
                (engine_gen::ev("OrderSnap", ex, inst, &cid, "Open", &side, qty, false, "-", vec![], nf()), quiet(&mut g, &mut rng)),
                (engine_gen::ev("SendCancels", 0, 0, "", "", "-", 0, false, "-",
                                vec![json!({"k": "cancel", "ex": ex, "inst": inst, "cid": cid, "side": "-", "qty": 0, "hasId": true})], nf()), quiet(&mut g, &mut rng)),
            ];
            let mut tie = engine_gen::ev("OrderSnap", ex, inst, &cid, "Open", &side, qty, false, "-", vec![], nf());
            tie["tie"] = json!(true);
            burst.push((tie, quiet(&mut g, &mut rng)));
            burst.push((engine_gen::ev("CancelResp", ex, inst, &cid, "", "-", 0, false, "-", vec![], nf()), quiet(&mut g, &mut rng)));
            for (k, it) in burst.into_iter().enumerate() {
                items.insert(at + k, it);
            }
        }
        match ending {
            "shutdown" => items.push((engine_gen::ev("Shutdown", 0, 0, "", "", "-", 0, false, "-", vec![], engine_gen::no_filter()), g.env(&mut rng, false, false))),
            "fatal" => {
                let b = g.opens(&mut rng, 2);
                let mut env = g.env(&mut rng, false, false);
                env["link"] = json!(vec!["closed"; world2::N_EX]);
                let mut b2 = b.clone();
                for r in b2.iter_mut() { let i = r["inst"].as_i64().unwrap(); r["ex"] = json!(world2::EX_OF[i as usize]); }
                items.push((engine_gen::ev("SendOpens", 0, 0, "", "", "-", 0, false, "-", b2, engine_gen::no_filter()), env));
                // events after the fatal one must never be processed
                items.push((g.event(&mut rng), g.env(&mut rng, false, false)));
            }
            "fatal_algo" => {
                // the run ends by a fatal error raised while the STRATEGY's order is sent during a
                // state-changing market event: the terminal record carries an event the replica must apply
                items.push((engine_gen::ev("TradingState", 0, 0, "", "", "-", 0, false, "Enabled", vec![], engine_gen::no_filter()), g.env(&mut rng, false, false)));
                let mut o = g.opens(&mut rng, 1);
                o[0]["ex"] = json!(world2::UNKNOWN_EX); // a non-existent exchange index: unrecoverable in every runner
                let inst = rng.random_range(0..world2::N_INST as i64);
                let mut env = g.env(&mut rng, false, false);
                env["algoO"] = json!(o);
                env["refuse"] = json!([]);
                items.push((engine_gen::ev("Market", world2::EX_OF[inst as usize] as i64, inst, "", "", "-", 0, false, "-", vec![], engine_gen::no_filter()), env));
                items.push((g.event(&mut rng), g.env(&mut rng, false, false)));
            }
            _ => {}
        }
        let snapshot: AuditTick<State> = <Eng as Auditor<<Eng as barter::engine::Processor<EngineEvent<DataKind>>>::Audit>>::audit_snapshot(&mut kit.engine);
        let s0 = snapshot.context.sequence.value();
        out.line(&json!({"a": "Snapshot", "seq": s0, "runner": runner, "ending": ending, "with_orders": with_orders}));
        let mut states: Vec<State> = vec![strip(&snapshot.event)];
        let mut ticks: Vec<Tick> = vec![];
        let fed = Arc::new(parking_lot::Mutex::new(vec![]));
        // -------- run the engine
        match runner {
            "direct" => {
                let mut t = 0;
                for (ev, env) in items.iter() {
                    t += 1;
                    let mut e = ev.clone();
                    e["t"] = json!(t);
                    e["price"] = json!(100 + t % 7);
                    kit.set_env(env);
                    let event = make_event(&e);
                    fed.lock().push(event.clone());
                    let tick = process_with_audit(&mut kit.engine, event);
                    let term = kind_of(&tick).1;
                    states.push(strip(&kit.engine.state));
                    ticks.push(tick);
                    if term {
                        break;
                    }
                }
                // the feed ended without a terminal record: close the stream the way the runners do
                if !ticks.last().map(|t| kind_of(t).1).unwrap_or(false) {
                    let t: Tick = kit.engine.audit(barter_integration::FeedEnded);
                    ticks.push(t);
                }
            }
            _ => {
                let (tx, mut rx) = mpsc_unbounded::<Tick>();
                let mut audit_tx = ChannelTxDroppable::new(tx);
                // the environment is installed through a raw pointer-free trick: links/script cells are shared (Arc)
                let links_logs = kit.links.logs.clone();
                let script = kit.script.clone();
                let refuse = kit.refuse.clone();
                let env_cell: Arc<parking_lot::Mutex<Option<Value>>> = Arc::new(parking_lot::Mutex::new(None));
                let env_cell2 = env_cell.clone();
                let install = move |env: &Value| {
                    let mut s = script.lock();
                    s.cancels = env["algoC"].as_array().unwrap().iter().map(cancel_req).collect();
                    s.opens = env["algoO"].as_array().unwrap().iter().map(open_req).collect();
                    *refuse.lock() = env["refuse"].as_array().unwrap().iter().map(|c| c.as_str().unwrap().to_string()).collect();
                    *env_cell2.lock() = Some(env.clone());
                };
                let _ = links_logs;
                // link modes cannot be swapped while the runner owns the engine: runner histories use
                // healthy links except the final fatal step, for which the map is pre-built closed
                if ending == "fatal" {
                    // feed all but the last two items with healthy links, then swap is impossible ->
                    // make the fatal request name a non-existent exchange index instead (also unrecoverable)
                    let n = items.len();
                    if let Some(reqs) = items[n - 2].0["reqs"].as_array_mut() {
                        for r in reqs.iter_mut() { r["ex"] = json!(world2::UNKNOWN_EX); }
                    }
                }
                let feed = Feed { items: items.clone().into_iter(), kit_env: &install, t: 0, fed: fed.clone() };
                // the engine state after each event is observed by a wrapping iterator: clone state lazily
                // through the audit channel is impossible, so re-run the same history directly for states
                let mut feed = feed;
                if runner == "sync" {
                    let _ = sync_run_with_audit(&mut feed, &mut kit.engine, &mut audit_tx);
                } else {
                    let rt = tokio::runtime::Builder::new_current_thread().enable_all().build().unwrap();
                    let mut stream = futures::stream::iter(feed);
                    rt.block_on(async { let _ = async_run_with_audit(&mut stream, &mut kit.engine, &mut audit_tx).await; });
                }
                drop(audit_tx);
                while let Ok(t) = rx.rx.try_recv() {
                    ticks.push(t);
                }
                // states after each event: replay the same fed events on a twin engine, directly
                let mut twin = new_kit(snapshot.event.trading);
                let fed_events = fed.lock().clone();
                for (j, event) in fed_events.into_iter().enumerate() {
                    twin.set_env(&items[j].1);
                    if ending == "fatal" && false { unreachable!() }
                    let _ = process_with_audit(&mut twin.engine, event);
                    states.push(strip(&twin.engine.state));
                }
                // the twin must end in the runner engine's state (sanity of the twin construction)
                if strip(&twin.engine.state) != strip(&kit.engine.state) {
                    out.line(&json!({"a": "Emit", "anomaly": format!("twin engine diverged from the runner engine in {}", differing_component(&strip(&twin.engine.state), &strip(&kit.engine.state)))}));
                }
            }
        }
        // -------- the audit records
        let fed_events = fed.lock().clone();
        for (j, t) in ticks.iter().enumerate() {
            let (kind, term) = kind_of(t);
            let ev_same = match &t.event {
                EngineAudit::FeedEnded => true,
                EngineAudit::Process(p) => fed_events.get(j).map(|e| *e == p.event).unwrap_or(false),
            };
            out.line(&json!({"a": "Emit", "seq": t.context.sequence.value(), "term": term, "kind": kind, "evSame": ev_same,
                             "processed": fed_events.len(), "records": ticks.len()}));
            emitted += 1;
        }
        // -------- delivery streams: in order, one dropped, one repeated (also a late repeat)
        let n = ticks.len();
        let mut streams: Vec<Vec<usize>> = vec![(0..n).collect()];
        if n >= 3 {
            let d = rng.random_range(0..n - 1);
            streams.push((0..n).filter(|j| *j != d).collect());
            let r = rng.random_range(0..n);
            let mut s: Vec<usize> = (0..n).collect();
            s.insert(r + 1, r);
            streams.push(s);
            let mut s: Vec<usize> = (0..n).collect();
            let old = rng.random_range(0..n / 2 + 1);
            s.insert(n - 1, old);
            streams.push(s);
        }
        for (si, stream) in streams.iter().enumerate() {
            out.line(&json!({"a": "NewReplica", "seq": s0, "stream": stream.iter().map(|j| ticks[*j].context.sequence.value()).collect::<Vec<_>>(), "faulty": si > 0}));
            for upto in 1..=stream.len() {
                let prefix: Vec<Tick> = stream[..upto].iter().map(|j| ticks[*j].clone()).collect();
                let mut mgr = StateReplicaManager::new(snapshot.clone(), prefix.into_iter());
                let res = catch(|| mgr.run());
                prefix_runs += 1;
                let t = &ticks[stream[upto - 1]];
                let (kind, term) = kind_of(t);
                let line = match res {
                    Ok(r) => {
                        let rep = strip(mgr.replica_engine_state());
                        let eqs: Vec<usize> = states.iter().enumerate().filter(|(_, s)| **s == rep).map(|(k, _)| k).collect();
                        let rseq = mgr.state_replica.context.sequence.value();
                        let want = (rseq - s0) as usize;
                        let diff = if eqs.contains(&want) || want >= states.len() { "".to_string() } else {
                            let mut d = differing_component(&states[want], &rep).to_string();
                            if d == "orders" && std::env::var("C10_DEBUG").is_ok() {
                                for (a, b) in states[want].instruments.0.values().zip(rep.instruments.0.values()) {
                                    if a.orders != b.orders { d = format!("orders engine={:?} replica={:?} event={:?}", a.orders.0.values().map(|o| (o.key.cid.0.to_string(), order_kind(o))).collect::<Vec<_>>(), b.orders.0.values().map(|o| (o.key.cid.0.to_string(), order_kind(o))).collect::<Vec<_>>(), fed_events.get(want.saturating_sub(1))); break; }
                                }
                            }
                            d };
                        json!({"a": "Deliver", "seq": t.context.sequence.value(), "term": term, "kind": kind, "ok": r.is_ok(), "rseq": rseq, "eqs": eqs, "diff": diff})
                    }
                    Err(p) => json!({"a": "Deliver", "anomaly": format!("StateReplicaManager::run panicked: {p}")}),
                };
                out.line(&line);
            }
        }
    }
    let n = out.finish();
    println!("{}", json!({"lines": n, "histories": histories, "records": emitted, "replica_prefix_runs": prefix_runs}));
}
