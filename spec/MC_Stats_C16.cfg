SPECIFICATION SpecC16
CONSTANTS
  Instr = {"i0", "i3"}
  Asset = {"a0", "a5"}
  PnLs <- PnLsQuick
  Costs = {10}
  Bals = {5}
  Vals = {}
  MaxClosed = 4
  MaxBal = 1
  MaxVals = 0
  Gaps = {1}
  RFs <- RFsZero
  Ivs = {"Daily"}
INVARIANTS TypeC16 GenerateIsBatch AccSheet AccReturns WinRateSane ProfitFactorSane OrderFreeC16
PROPERTIES Keyed Additive LatestBalance EveryBalanceCounts PersistIsStutter
CHECK_DEADLOCK FALSE
VIEW View
