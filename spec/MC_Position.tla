---------------------------- MODULE MC_Position ----------------------------
(* Model-checking wrapper of Position: TLC configuration files cannot write  *)
(* negative numbers, so the price sets that contain 0 and negative prices    *)
(* (C15: "any market event that yields a price") are defined here and        *)
(* substituted with `MARK <- ...` / `PRICE <- ...`.                          *)
EXTENDS Position

MarkSigned   == {-3, 0, 2, 5}     \* market prices of the shared configurations
MarkNonPos   == {-3, 0, 2}
PriceNonPos  == {-2, 0, 3}        \* fill prices, C15 only (C02's quantifier says price > 0)
FeeSigned    == {-1, 1}           \* fill fees: a maker rebate next to a positive fee (0 is in the other configurations)
=============================================================================
