------------------------- MODULE Gen_SystemLifecycle -------------------------
(* Scenario generation (spec -> impl): random behaviours of SystemLifecycle from  *)
(* Init to the return of the stop call.  Each is printed once as the SCHEDULE of   *)
(* its user-side and source-side actions, in the order the specification took     *)
(* them: Start (mode, audit), Item (the market source yields), End (it ends),      *)
(* Cmd c, Take, Drop, Stop k, and Run where the engine took a step (a hint: the    *)
(* driver lets the engine task run there).  harness/src/bin/system.rs `lifecycle`  *)
(* executes the schedule against the REAL system; what the real system then does   *)
(* is recorded and validated by Trace_SystemLifecycle, whatever interleaving the   *)
(* real tasks chose.                                                               *)
EXTENDS SystemLifecycle, Json
VARIABLES hist, gmode, done, minlen
gvars == <<vars, hist, gmode, done, minlen>>

\* (minlen: the stop call is not taken before the schedule has that many entries - otherwise a uniformly
\*  random walk stops most runs at once)
GInit == Init /\ hist = <<>> /\ gmode = "-" /\ done = FALSE /\ minlen \in 0..9

Rec(a, x) == [a |-> a, x |-> x]
Log(a, x) == hist' = Append(hist, Rec(a, x)) /\ UNCHANGED <<gmode, done, minlen>>
Quiet == UNCHANGED <<hist, gmode, done, minlen>>

GNext == /\ ~done
         /\ \/ \E m \in FEEDMODES : Start(m) /\ gmode' = m /\ UNCHANGED <<hist, done, minlen>>
            \/ SrcYield /\ Log("Item", "-")
            \/ SrcEnd /\ Log("End", "-")
            \/ \E c \in CMDS : SendCommand(c) /\ Log("Cmd", c)
            \/ TakeAudit /\ Log("Take", "-")
            \/ DropAudit /\ Log("Drop", "-")
            \/ EngineStep /\ Log("Run", "-")
            \/ \E k \in STOPS : Len(hist) >= minlen /\ CallStop(k) /\ Log("Stop", k)
            \/ (AcctFwdEnd \/ StopAwaitMarket \/ StopAwaitEngine \/ StopAwaitExec) /\ Quiet
            \/ \E x \in EXCH : (AcctArrive(x) \/ ExecEnd(x)) /\ Quiet
GFinish == /\ ~done /\ api = "returned"
           /\ done' = TRUE
           /\ UNCHANGED <<vars, hist, gmode, minlen>>

GSpec == GInit /\ [][GNext \/ GFinish]_gvars
Emit == done => PrintT(<<"SCN", ToJson([mode |-> gmode, audit |-> audit, steps |-> hist])>>)
=============================================================================
