SPECIFICATION GSpec
CONSTANTS
  Values = {1, 2, 3, 4}
  Gaps = {1}
  MaxLen = 5
INVARIANT Emit
CHECK_DEADLOCK FALSE
