--------------------------- MODULE SystemLifecycle ---------------------------
(***************************************************************************)
(* The LIFECYCLE of the system assembled by SystemBuilder: start, commands, *)
(* audit hand-over, and the three ways to stop it.  Orders are abstracted    *)
(* away (BarterSystem.tla has them); what is kept is WHO runs, WHAT is in    *)
(* the engine's feed and in WHICH ORDER the engine processes it.             *)
(*                                                                         *)
(* Code transcribed:                                                        *)
(*   barter/src/system/builder.rs  SystemBuild::init_internal: execution    *)
(*       tasks, market -> feed and account -> feed forwarders (forward_to:  *)
(*       map_while(send ok) - a forwarder ENDS when its source ends or when *)
(*       the feed receiver is gone), audit snapshot taken BEFORE the engine *)
(*       task is spawned (it consumes sequence number 0), engine task in    *)
(*       Iterator (blocking thread) or Stream mode                          *)
(*   barter/src/system/mod.rs      System::{send_*, cancel_orders,           *)
(*       close_positions, trading_state} = feed_tx.send; take_audit =       *)
(*       Option::take; shutdown = send Shutdown, await engine, abort both   *)
(*       forwarders, await execution; abort = send Shutdown, await engine,  *)
(*       abort everything; shutdown_after_backtest = await the MARKET       *)
(*       FORWARDER first, then send Shutdown, await engine, abort the       *)
(*       account forwarder, await execution                                  *)
(*   barter/src/engine/run.rs      {sync,async}_run[_with_audit]: one       *)
(*       process_with_audit per feed item in feed order (one sequence       *)
(*       number each), stop at the terminal record (Shutdown), audit_tx.send *)
(*       of every record incl. the terminal one, Engine::shutdown (sends    *)
(*       ExecutionRequest::Shutdown to every execution manager)             *)
(*   barter-integration/src/channel.rs ChannelTxDroppable: a send to a      *)
(*       dropped receiver disables the transmitter - the engine carries on  *)
(*                                                                         *)
(* Tasks: engine, marketFwd, accountFwd, one execution task per exchange    *)
(* (it stands for that exchange's mock exchange, execution manager and      *)
(* account-stream forwarder: it has ended when all three have).             *)
(*                                                                         *)
(* Deliberately nondeterministic (the properties leave these open):         *)
(*  * WHEN the market source yields / ends and when an exchange delivers    *)
(*    an account item (AcctArrive: snapshots, answers) - environment;       *)
(*    hence the position of account items among the other feed items        *)
(*  * the interleaving of every task (engine steps, forwarders, API calls)  *)
(*  * items yielded after the engine has stopped are lost: the forwarder    *)
(*    ends on the failed send, or the item is still accepted by the feed    *)
(*    receiver the returning engine task is about to drop (either): the     *)
(*    properties only speak about what entered the feed before Shutdown     *)
(*  * the feed mode (Iterator / Stream) changes no rule: it is a parameter  *)
(*    of Start so that both are bound and traced                             *)
(*  * whether a forwarder is found finished or has to be aborted by the     *)
(*    stop call (AllStopped accepts both)                                    *)
(*  * an account item's hand-over is one step with its production           *)
(*    (AcctArrive), a stop call's synchronous statements are one step each  *)
(*    (send with the call; the aborts with the engine handle resolving)     *)
(* The environment is frozen once the stop call has returned (nothing the   *)
(* properties speak about can change any more).                             *)
(* Not modelled: a task that panics (JoinError), the engine stopping on an  *)
(* unrecoverable error (C20's fatal path, Backtest.tla), commands after a   *)
(* stop call (the stop calls consume the System).                           *)
(***************************************************************************)
EXTENDS Integers, Sequences, FiniteSets, TLC

CONSTANTS EXCH,          \* exchanges (one execution task each)
          NMarket,       \* items the market source can yield at most
          CMDS,          \* commands the user may hand to the System API (each at most once)
          MaxAcct,       \* bound on account items the exchanges deliver
          MaxTakes,      \* bound on take_audit calls
          FEEDMODES,     \* subset of {"stream", "iter"}
          AUDITMODES,    \* subset of {"on", "off"}
          STOPS,         \* subset of {"shutdown", "abort", "backtest"}
          EarlyShutdown  \* FALSE; TRUE = the deliberately wrong variant (negative configuration):
                         \* shutdown_after_backtest sends Shutdown without awaiting the market forwarder

MK == <<"m1", "m2", "m3", "m4", "m5", "m6", "m7", "m8">>     \* the market items, in source order
SD == "sd"
ACCT == "acct"
Markets == {MK[k] : k \in 1..Len(MK)}
IsMarket(x) == x \in Markets
IsCmd(x) == x \in CMDS
NonAcct(x) == x # ACCT

ENGINE == "engine"
MFWD == "marketFwd"
AFWD == "accountFwd"
TASKS == {ENGINE, MFWD, AFWD} \cup EXCH
SnapSeq == 0             \* the audit snapshot consumes the first sequence number

VARIABLES audit,       \* "on" | "off"
          api,         \* "init" | "running" | "stopping" | "returned"  (the user's side)
          stop,        \* "none" | the stop call in progress / completed
          pc,          \* program counter inside the stop call
          task,        \* [TASKS -> {"idle", "running", "finished", "aborted"}]
          src,         \* market items yielded so far
          srcDone,     \* the market source has ended
          feed,        \* the engine's feed (FIFO)
          processed,   \* what the engine has processed, in order
          entered,     \* ghost: the non-account items in the order they entered the feed
          sent,        \* ghost: the commands in the order they were handed to the API
          eseq,        \* the engine's next sequence number
          auditRx,     \* "none" (auditing off) | "insys" (inside System) | "taken" | "dropped"
          auditTx,     \* "none" | "active" | "disabled"   (ChannelTxDroppable)
          auditQ,      \* the audit records that reached a live receiver: [seq, ev]
          takeLog,     \* results of the take_audit calls so far (TRUE = Some)
          acct         \* account items delivered so far

vars == <<audit, api, stop, pc, task, src, srcDone, feed, processed, entered, sent, eseq,
          auditRx, auditTx, auditQ, takeLog, acct>>

Range(s) == {s[i] : i \in 1..Len(s)}
IsPrefix(s, t) == Len(s) <= Len(t) /\ SubSeq(t, 1, Len(s)) = s
Last(s) == s[Len(s)]
Running(t) == task[t] = "running"
Ended(t) == task[t] \in {"finished", "aborted"}

Init == /\ audit \in AUDITMODES
        /\ api = "init" /\ stop = "none" /\ pc = "-"
        /\ task = [t \in TASKS |-> "idle"]
        /\ src = 0 /\ srcDone = FALSE
        /\ feed = <<>> /\ processed = <<>> /\ entered = <<>> /\ sent = <<>>
        /\ eseq = 0 /\ auditRx = "none" /\ auditTx = "none" /\ auditQ = <<>> /\ takeLog = <<>> /\ acct = 0

(* ---- SystemBuild::init: every task is spawned; with auditing the snapshot is taken first ---- *)
Start(m) == /\ api = "init" /\ m \in FEEDMODES
            /\ api' = "running"
            /\ task' = [t \in TASKS |-> "running"]
            /\ IF audit = "on" THEN eseq' = SnapSeq + 1 /\ auditRx' = "insys" /\ auditTx' = "active"
                               ELSE UNCHANGED <<eseq, auditRx, auditTx>>
            /\ UNCHANGED <<audit, stop, pc, src, srcDone, feed, processed, entered, sent, auditQ, takeLog, acct>>

(* ---- environment: the market source, through the market forwarder ---- *)
\* the forwarder takes the next item and sends it to the feed; a failed send (engine gone) ends it
SrcYield == /\ Running(MFWD) /\ ~srcDone /\ src < NMarket /\ api # "returned"
            /\ src' = src + 1
            /\ \/ /\ Running(ENGINE)
                  /\ feed' = Append(feed, MK[src + 1]) /\ entered' = Append(entered, MK[src + 1]) /\ UNCHANGED task
               \/ /\ ~Running(ENGINE) /\ UNCHANGED <<feed, entered>>
                  \* the engine has stopped: the send fails and the forwarder ends - or the item is still accepted by
                  \* the feed receiver the returning engine task is about to drop, and is lost
                  /\ \/ task' = [task EXCEPT ![MFWD] = "finished"]
                     \/ UNCHANGED task
            /\ UNCHANGED <<audit, api, stop, pc, srcDone, processed, sent, eseq, auditRx, auditTx, auditQ, takeLog, acct>>
\* the source ends (a back-test's dataset is exhausted): the forwarder finishes
SrcEnd == /\ Running(MFWD) /\ ~srcDone /\ api # "returned"
          /\ srcDone' = TRUE
          /\ task' = [task EXCEPT ![MFWD] = "finished"]
          /\ UNCHANGED <<audit, api, stop, pc, src, feed, processed, entered, sent, eseq, auditRx, auditTx, auditQ, takeLog, acct>>

(* ---- environment: exchange x delivers an account item (snapshot, answer) through the account forwarder ---- *)
AcctArrive(x) == /\ Running(x) /\ Running(AFWD) /\ acct < MaxAcct /\ api # "returned"
                 /\ acct' = acct + 1
                 /\ \/ /\ Running(ENGINE) /\ feed' = Append(feed, ACCT) /\ UNCHANGED task
                    \/ /\ ~Running(ENGINE) /\ UNCHANGED feed
                       /\ \/ task' = [task EXCEPT ![AFWD] = "finished"]
                          \/ UNCHANGED task
                 /\ UNCHANGED <<audit, api, stop, pc, src, srcDone, processed, entered, sent, eseq, auditRx, auditTx, auditQ, takeLog>>
\* the merged account channel closes once every exchange's execution task has ended
AcctFwdEnd == /\ Running(AFWD) /\ api # "returned" /\ \A x \in EXCH : ~Running(x)
              /\ task' = [task EXCEPT ![AFWD] = "finished"]
              /\ UNCHANGED <<audit, api, stop, pc, src, srcDone, feed, processed, entered, sent, eseq, auditRx, auditTx, auditQ, takeLog, acct>>

(* ---- the System API ---- *)
SendCommand(c) == /\ api = "running" /\ c \notin Range(sent)
                  /\ Running(ENGINE)            \* (a send to a dropped feed receiver panics: never the case, EngineAlive)
                  /\ feed' = Append(feed, c) /\ entered' = Append(entered, c) /\ sent' = Append(sent, c)
                  /\ UNCHANGED <<audit, api, stop, pc, task, src, srcDone, processed, eseq, auditRx, auditTx, auditQ, takeLog, acct>>

TakeAudit == /\ api = "running" /\ Len(takeLog) < MaxTakes
             /\ takeLog' = Append(takeLog, auditRx = "insys")
             /\ auditRx' = IF auditRx = "insys" THEN "taken" ELSE auditRx
             /\ UNCHANGED <<audit, api, stop, pc, task, src, srcDone, feed, processed, entered, sent, eseq, auditTx, auditQ, acct>>
\* the user drops the receiver it took
DropAudit == /\ api = "running" /\ auditRx = "taken"
             /\ auditRx' = "dropped"
             /\ UNCHANGED <<audit, api, stop, pc, task, src, srcDone, feed, processed, entered, sent, eseq, auditTx, auditQ, takeLog, acct>>

(* ---- the engine: one feed item per step, in feed order ---- *)
AuditSend(h) == IF auditTx = "active"
                THEN IF auditRx \in {"insys", "taken"}
                     THEN auditQ' = Append(auditQ, [seq |-> eseq, ev |-> h]) /\ UNCHANGED auditTx
                     ELSE auditTx' = "disabled" /\ UNCHANGED auditQ      \* receiver gone: carry on without
                ELSE UNCHANGED <<auditQ, auditTx>>
EngineStep == /\ Running(ENGINE) /\ feed # <<>>
              /\ LET h == Head(feed) IN
                 /\ processed' = Append(processed, h)
                 /\ eseq' = eseq + 1
                 /\ AuditSend(h)
                 /\ IF h = SD
                    THEN \* terminal record: the runner returns, the feed receiver is dropped with whatever is left
                         /\ task' = [task EXCEPT ![ENGINE] = "finished"] /\ feed' = <<>>
                    ELSE /\ feed' = Tail(feed) /\ UNCHANGED task
              /\ UNCHANGED <<audit, api, stop, pc, src, srcDone, entered, sent, auditRx, takeLog, acct>>

\* Engine::shutdown has sent ExecutionRequest::Shutdown: the exchange's execution tasks end
ExecEnd(x) == /\ Running(x) /\ task[ENGINE] = "finished" /\ api # "returned"
              /\ task' = [task EXCEPT ![x] = "finished"]
              /\ UNCHANGED <<audit, api, stop, pc, src, srcDone, feed, processed, entered, sent, eseq, auditRx, auditTx, auditQ, takeLog, acct>>

(* ---- the three ways to stop ---- *)
\* feed_tx.send(Shutdown): the first statement of shutdown() and abort(), synchronous with the call
SendShutdown == /\ feed' = Append(feed, SD) /\ entered' = Append(entered, SD) /\ pc' = "awaitEngine"
CallStop(k) == /\ api = "running" /\ k \in STOPS
               /\ Running(ENGINE)                      \* (EngineAlive)
               /\ api' = "stopping" /\ stop' = k
               /\ IF k = "backtest" /\ ~EarlyShutdown
                  THEN pc' = "awaitMarket" /\ UNCHANGED <<feed, entered>>
                  ELSE SendShutdown
               /\ UNCHANGED <<audit, task, src, srcDone, processed, sent, eseq, auditRx, auditTx, auditQ, takeLog, acct>>
\* shutdown_after_backtest: the market forwarder's handle resolves, THEN Shutdown is sent
StopAwaitMarket == /\ pc = "awaitMarket" /\ task[MFWD] = "finished" /\ Running(ENGINE)
                   /\ SendShutdown
                   /\ UNCHANGED <<audit, api, stop, task, src, srcDone, processed, sent, eseq, auditRx, auditTx, auditQ, takeLog, acct>>
AbortSet == CASE stop = "shutdown" -> {MFWD, AFWD}
              [] stop = "abort"    -> TASKS
              [] OTHER             -> {AFWD}
Aborted(tk) == [t \in TASKS |-> IF t \in AbortSet /\ tk[t] = "running" THEN "aborted" ELSE tk[t]]
\* the call returns the engine; the System - with an audit receiver nobody took - is gone
Return == /\ api' = "returned" /\ pc' = "done"
          /\ auditRx' = IF auditRx = "insys" THEN "dropped" ELSE auditRx
\* the engine's handle resolves; the aborts follow without an await in between (abort() then returns at once)
StopAwaitEngine == /\ pc = "awaitEngine" /\ task[ENGINE] = "finished"
                   /\ task' = Aborted(task)
                   /\ IF stop = "abort" THEN Return ELSE pc' = "awaitExec" /\ UNCHANGED <<api, auditRx>>
                   /\ UNCHANGED <<audit, stop, src, srcDone, feed, processed, entered, sent, eseq, auditTx, auditQ, takeLog, acct>>
\* the graceful calls await every execution task, then return
StopAwaitExec == /\ pc = "awaitExec" /\ \A x \in EXCH : task[x] = "finished"
                 /\ Return
                 /\ UNCHANGED <<audit, stop, task, src, srcDone, feed, processed, entered, sent, eseq, auditTx, auditQ, takeLog, acct>>
StopStep == StopAwaitMarket \/ StopAwaitEngine \/ StopAwaitExec

Next == \/ (\E m \in FEEDMODES : Start(m)) \/ SrcYield \/ SrcEnd \/ AcctFwdEnd \/ TakeAudit \/ DropAudit \/ EngineStep
        \/ \E x \in EXCH : AcctArrive(x) \/ ExecEnd(x)
        \/ \E c \in CMDS : SendCommand(c)
        \/ \E k \in STOPS : CallStop(k)
        \/ StopAwaitMarket \/ StopAwaitEngine \/ StopAwaitExec

\* fairness: every task is scheduled; a back-test's market source is finite (SrcEnd)
Fair == /\ WF_vars(EngineStep) /\ WF_vars(StopStep) /\ WF_vars(SrcEnd)
        /\ \A x \in EXCH : WF_vars(ExecEnd(x))
Spec == Init /\ [][Next]_vars /\ Fair
\* the same without a finite market source: shutdown_after_backtest on a live stream never returns
\* (used only to show that `Returns` is not vacuous)
SpecLiveSource == Init /\ [][Next]_vars /\ WF_vars(EngineStep) /\ WF_vars(StopStep) /\ \A x \in EXCH : WF_vars(ExecEnd(x))

(***************************************************************************)
(* Properties.  The formulas are operators over the observable data so that *)
(* Trace_SystemLifecycle re-evaluates the SAME definitions on what the real *)
(* system showed.                                                           *)
(***************************************************************************)
TypeOK == /\ audit \in AUDITMODES
          /\ api \in {"init", "running", "stopping", "returned"}
          /\ task \in [TASKS -> {"idle", "running", "finished", "aborted"}]
          /\ src \in 0..NMarket /\ srcDone \in BOOLEAN /\ acct \in 0..MaxAcct
          /\ auditRx \in {"none", "insys", "taken", "dropped"} /\ auditTx \in {"none", "active", "disabled"}

\* the user can always reach the engine while it has not asked it to stop
EngineAlive == api \in {"running"} => Running(ENGINE)

\* FIFO: events are processed in the order they entered the feed (account items set aside: their
\* position is the environment's) ...
P_Fifo(proc, ent) == IsPrefix(SelectSeq(proc, NonAcct), ent)
Fifo == P_Fifo(processed, entered)
\* ... and every command handed over before the stop call has been processed - exactly once, in
\* order - by the time the call returns
P_CommandsAll(proc, snt) == SelectSeq(proc, IsCmd) = snt
CommandsBeforeStop == api = "returned" => P_CommandsAll(processed, sent)

\* ShutdownLast: the engine stops on the Shutdown record and nothing is processed after it
P_ShutdownLast(proc) == /\ proc # <<>> /\ Last(proc) = SD
                        /\ \A i \in 1..(Len(proc) - 1) : proc[i] # SD
ShutdownLast == task[ENGINE] = "finished" => P_ShutdownLast(processed)
NothingAfterShutdown == [][task[ENGINE] = "finished" => processed' = processed]_vars

\* BacktestDrains: shutdown_after_backtest - every item the market source yields is processed
\* BEFORE Shutdown, none skipped
P_Drained(proc, n, done) == done /\ SelectSeq(proc, IsMarket) = SubSeq(MK, 1, n)
BacktestDrains == (stop = "backtest" /\ SD \in Range(processed)) => P_Drained(processed, src, srcDone)

\* AllStopped: when a stop call returns, no task is left running; the graceful ones let the engine
\* and every execution task run to their end
P_AllStopped(tk) == \A t \in TASKS : tk[t] \in {"finished", "aborted"}
AllStopped == api = "returned" =>
                 /\ P_AllStopped(task) /\ task[ENGINE] = "finished"
                 /\ stop \in {"shutdown", "backtest"} => \A x \in EXCH : task[x] = "finished"
                 /\ stop = "backtest" => task[MFWD] = "finished"

\* AuditOnce: take_audit is Some exactly once iff auditing is enabled ...
P_TakeOnce(tl, aud) == \A i \in 1..Len(tl) : tl[i] <=> (i = 1 /\ aud = "on")
AuditOnce == P_TakeOnce(takeLog, audit)
\* ... the records it delivers are the engine's, gap-free from the snapshot on, one per processed event ...
P_GapFree(q, proc) == /\ Len(q) <= Len(proc)
                      /\ \A i \in 1..Len(q) : q[i].seq = SnapSeq + i /\ q[i].ev = proc[i]
AuditGapFree == P_GapFree(auditQ, processed)
\* ... none is missing while the receiver is alive (so the last one is the Shutdown record) ...
AuditComplete == auditRx \in {"insys", "taken"} => Len(auditQ) = Len(processed)
\* ... and the sequence numbers count the processed events
SeqCounts == api # "init" => eseq = (IF audit = "on" THEN SnapSeq + 1 ELSE 0) + Len(processed)

\* liveness: a stop call returns (with it: dropping the audit receiver neither stops nor stalls the engine)
Returns == (api = "stopping") ~> (api = "returned")
\* ... also when the audit receiver has been dropped
ReturnsDropped == (api = "stopping" /\ auditRx = "dropped") ~> (api = "returned")
=============================================================================
