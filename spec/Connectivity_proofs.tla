------------------------- MODULE Connectivity_proofs -------------------------
(***************************************************************************)
(* TLAPS proofs about spec/Connectivity.tla for an ARBITRARY set EXCH of    *)
(* exchanges (no bound, finiteness not even needed):                        *)
(*   THEOREM Invariance   Spec => [](TypeOK /\ ConnIff)                     *)
(*   THEOREM StepProps    Inv /\ [Next]_vars => ExactlyThatLinkA /\         *)
(*                           DownMarksA /\ HealedByNextA /\ OnlyOwnEventsA  *)
(*   THEOREM StepPropsAlways   Spec => the four []-properties               *)
(* Checked with  tlapm --threads 8 Connectivity_proofs.tla  (bin/props/     *)
(* connectivity.py counts the obligations and fails on any unproved one).   *)
(* The induction step is expanded per code path of connectivity/mod.rs.     *)
(***************************************************************************)
EXTENDS Connectivity, TLAPS

LEMMA InitInv == Init => Inv
<1> SUFFICES ASSUME Init PROVE Inv
  OBVIOUS
<1>1. TypeOK
  BY DEF Init, TypeOK, Health, LinkState
<1>2. PICK x \in EXCH : link[x].market = "Reconnecting"
  BY ExchNonEmpty DEF Init
<1>3. ConnIff
  BY <1>2 DEF Init, ConnIff
<1> QED BY <1>1, <1>3 DEF Inv

\* the three writing shapes of a link update keep the type
LEMMA TypeKept ==
  ASSUME TypeOK, NEW e \in EXCH, NEW m \in Health, NEW a \in Health
  PROVE  [link EXCEPT ![e] = [market |-> m, account |-> a]] \in [EXCH -> LinkState]
  BY DEF TypeOK, LinkState

LEMMA ItemGlobalHealthy ==
  ASSUME Inv, NEW e \in EXCH, MarketItemGlobalHealthy(e) \/ AccountItemGlobalHealthy(e)
  PROVE  Inv'
  BY DEF Inv, TypeOK, ConnIff, vars, MarketItemGlobalHealthy, AccountItemGlobalHealthy

LEMMA ItemLinkHealthy ==
  ASSUME Inv, NEW e \in EXCH, MarketItemLinkHealthy(e) \/ AccountItemLinkHealthy(e)
  PROVE  Inv'
  BY DEF Inv, TypeOK, ConnIff, vars, MarketItemLinkHealthy, AccountItemLinkHealthy

LEMMA MarketHealsInv ==
  ASSUME Inv, NEW e \in EXCH, MarketItemHeals(e)
  PROVE  Inv'
<1> USE DEF Inv
<1>1. link[e].account \in Health
  BY DEF TypeOK, LinkState
<1>2. link' = [link EXCEPT ![e] = [market |-> "Healthy", account |-> link[e].account]]
  BY DEF MarketItemHeals
<1>3. link' \in [EXCH -> LinkState]
  BY <1>1, <1>2, TypeKept DEF Health
<1>4. global' = IF AllHealthyIn(link') THEN "Healthy" ELSE global
  BY DEF MarketItemHeals
<1>5. global # "Healthy" /\ global \in Health
  BY DEF MarketItemHeals, TypeOK
<1>6. TypeOK'
  BY <1>3, <1>4, <1>5 DEF TypeOK, Health
<1>7. ConnIff'
  <2>1. AllHealthyIn(link') <=> (\A x \in EXCH : link'[x].market = "Healthy" /\ link'[x].account = "Healthy")
    BY DEF AllHealthyIn
  <2>2. CASE AllHealthyIn(link')
    BY <2>1, <2>2, <1>4 DEF ConnIff
  <2>3. CASE ~AllHealthyIn(link')
    <3>1. global' = global
      BY <2>3, <1>4
    <3>2. global' # "Healthy"
      BY <3>1, <1>5
    <3> QED BY <2>1, <2>3, <3>2 DEF ConnIff
  <2> QED BY <2>2, <2>3
<1> QED BY <1>6, <1>7

LEMMA AccountHealsInv ==
  ASSUME Inv, NEW e \in EXCH, AccountItemHeals(e)
  PROVE  Inv'
<1> USE DEF Inv
<1>1. link[e].market \in Health
  BY DEF TypeOK, LinkState
<1>2. link' = [link EXCEPT ![e] = [market |-> link[e].market, account |-> "Healthy"]]
  BY DEF AccountItemHeals
<1>3. link' \in [EXCH -> LinkState]
  BY <1>1, <1>2, TypeKept DEF Health
<1>4. global' = IF AllHealthyIn(link') THEN "Healthy" ELSE global
  BY DEF AccountItemHeals
<1>5. global # "Healthy" /\ global \in Health
  BY DEF AccountItemHeals, TypeOK
<1>6. TypeOK'
  BY <1>3, <1>4, <1>5 DEF TypeOK, Health
<1>7. ConnIff'
  <2>1. AllHealthyIn(link') <=> (\A x \in EXCH : link'[x].market = "Healthy" /\ link'[x].account = "Healthy")
    BY DEF AllHealthyIn
  <2>2. CASE AllHealthyIn(link')
    BY <2>1, <2>2, <1>4 DEF ConnIff
  <2>3. CASE ~AllHealthyIn(link')
    <3>1. global' = global
      BY <2>3, <1>4
    <3>2. global' # "Healthy"
      BY <3>1, <1>5
    <3> QED BY <2>1, <2>3, <3>2 DEF ConnIff
  <2> QED BY <2>2, <2>3
<1> QED BY <1>6, <1>7

LEMMA MarketDownInv ==
  ASSUME Inv, NEW e \in EXCH, MarketDown(e)
  PROVE  Inv'
<1> USE DEF Inv
<1>1. link[e].account \in Health
  BY DEF TypeOK, LinkState
<1>2. link' = [link EXCEPT ![e] = [market |-> "Reconnecting", account |-> link[e].account]]
  BY DEF MarketDown
<1>3. link' \in [EXCH -> LinkState]
  BY <1>1, <1>2, TypeKept DEF Health
<1>4. global' = "Reconnecting"
  BY DEF MarketDown
<1>5. link'[e].market = "Reconnecting"
  BY <1>2 DEF TypeOK
<1>6. TypeOK'
  BY <1>3, <1>4 DEF TypeOK, Health
<1>7. ConnIff'
  BY <1>4, <1>5 DEF ConnIff
<1> QED BY <1>6, <1>7

LEMMA AccountDownInv ==
  ASSUME Inv, NEW e \in EXCH, AccountDown(e)
  PROVE  Inv'
<1> USE DEF Inv
<1>1. link[e].market \in Health
  BY DEF TypeOK, LinkState
<1>2. link' = [link EXCEPT ![e] = [market |-> link[e].market, account |-> "Reconnecting"]]
  BY DEF AccountDown
<1>3. link' \in [EXCH -> LinkState]
  BY <1>1, <1>2, TypeKept DEF Health
<1>4. global' = "Reconnecting"
  BY DEF AccountDown
<1>5. link'[e].account = "Reconnecting"
  BY <1>2 DEF TypeOK
<1>6. TypeOK'
  BY <1>3, <1>4 DEF TypeOK, Health
<1>7. ConnIff'
  BY <1>4, <1>5 DEF ConnIff
<1> QED BY <1>6, <1>7

LEMMA NextInv == Inv /\ [Next]_vars => Inv'
<1> SUFFICES ASSUME Inv, [Next]_vars PROVE Inv'
  OBVIOUS
<1>1. CASE UNCHANGED vars
  BY <1>1 DEF Inv, TypeOK, ConnIff, vars
<1>2. CASE Next
  <2>1. PICK e \in EXCH : MarketItem(e) \/ AccountItem(e) \/ MarketDown(e) \/ AccountDown(e)
    BY <1>2 DEF Next
  <2>2. CASE MarketItem(e)
    BY <2>2, ItemGlobalHealthy, ItemLinkHealthy, MarketHealsInv DEF MarketItem
  <2>3. CASE AccountItem(e)
    BY <2>3, ItemGlobalHealthy, ItemLinkHealthy, AccountHealsInv DEF AccountItem
  <2>4. CASE MarketDown(e)
    BY <2>4, MarketDownInv
  <2>5. CASE AccountDown(e)
    BY <2>5, AccountDownInv
  <2> QED BY <2>1, <2>2, <2>3, <2>4, <2>5
<1> QED BY <1>1, <1>2

THEOREM Invariance == Spec => []Inv
<1>1. Init => Inv
  BY InitInv
<1>2. Inv /\ [Next]_vars => Inv'
  BY NextInv
<1> QED BY <1>1, <1>2, PTL DEF Spec

(***************************************************************************)
(* The step properties, from any state of the invariant.                    *)
(***************************************************************************)
LEMMA ExactlyThatLinkStep == Inv => ExactlyThatLinkA
  BY DEF Inv, TypeOK, LinkState, ExactlyThatLinkA, MarketItem, MarketItemGlobalHealthy, MarketItemLinkHealthy,
         MarketItemHeals, AccountItem, AccountItemGlobalHealthy, AccountItemLinkHealthy, AccountItemHeals,
         MarketDown, AccountDown, vars

LEMMA DownMarksStep == Inv => DownMarksA
  BY DEF Inv, TypeOK, LinkState, DownMarksA, MarketDown, AccountDown

\* here the invariant is needed: the early return on a Healthy global leaves the link alone - it IS Healthy by ConnIff
LEMMA HealedByNextStep == Inv => HealedByNextA
  BY DEF Inv, TypeOK, ConnIff, LinkState, HealedByNextA, MarketItem, MarketItemGlobalHealthy, MarketItemLinkHealthy,
         MarketItemHeals, AccountItem, AccountItemGlobalHealthy, AccountItemLinkHealthy, AccountItemHeals, vars

LEMMA OnlyOwnEventsStep == Inv /\ [Next]_vars => OnlyOwnEventsA
<1> SUFFICES ASSUME Inv, [Next]_vars, NEW e \in EXCH
             PROVE /\ (link'[e].market # link[e].market =>
                         (MarketDown(e) /\ link'[e].market = "Reconnecting") \/ (MarketItem(e) /\ link'[e].market = "Healthy"))
                   /\ (link'[e].account # link[e].account =>
                         (AccountDown(e) /\ link'[e].account = "Reconnecting") \/ (AccountItem(e) /\ link'[e].account = "Healthy"))
  BY DEF OnlyOwnEventsA
<1>1. CASE UNCHANGED vars
  BY <1>1 DEF vars
<1>2. CASE Next
  <2>1. PICK x \in EXCH : MarketItem(x) \/ AccountItem(x) \/ MarketDown(x) \/ AccountDown(x)
    BY <1>2 DEF Next
  <2>2. CASE MarketItemGlobalHealthy(x) \/ MarketItemLinkHealthy(x) \/ AccountItemGlobalHealthy(x) \/ AccountItemLinkHealthy(x)
    BY <2>2 DEF MarketItemGlobalHealthy, MarketItemLinkHealthy, AccountItemGlobalHealthy, AccountItemLinkHealthy, vars
  <2>3. CASE MarketItemHeals(x)
    <3>1. link' = [link EXCEPT ![x] = [market |-> "Healthy", account |-> link[x].account]]
      BY <2>3 DEF MarketItemHeals
    <3>2. CASE x = e
      BY <2>3, <3>1, <3>2 DEF Inv, TypeOK, LinkState, MarketItem
    <3>3. CASE x # e
      BY <3>1, <3>3 DEF Inv, TypeOK, LinkState
    <3> QED BY <3>2, <3>3
  <2>4. CASE AccountItemHeals(x)
    <3>1. link' = [link EXCEPT ![x] = [market |-> link[x].market, account |-> "Healthy"]]
      BY <2>4 DEF AccountItemHeals
    <3>2. CASE x = e
      BY <2>4, <3>1, <3>2 DEF Inv, TypeOK, LinkState, AccountItem
    <3>3. CASE x # e
      BY <3>1, <3>3 DEF Inv, TypeOK, LinkState
    <3> QED BY <3>2, <3>3
  <2>5. CASE MarketDown(x)
    <3>1. link' = [link EXCEPT ![x] = [market |-> "Reconnecting", account |-> link[x].account]]
      BY <2>5 DEF MarketDown
    <3>2. CASE x = e
      BY <2>5, <3>1, <3>2 DEF Inv, TypeOK, LinkState
    <3>3. CASE x # e
      BY <3>1, <3>3 DEF Inv, TypeOK, LinkState
    <3> QED BY <3>2, <3>3
  <2>6. CASE AccountDown(x)
    <3>1. link' = [link EXCEPT ![x] = [market |-> link[x].market, account |-> "Reconnecting"]]
      BY <2>6 DEF AccountDown
    <3>2. CASE x = e
      BY <2>6, <3>1, <3>2 DEF Inv, TypeOK, LinkState
    <3>3. CASE x # e
      BY <3>1, <3>3 DEF Inv, TypeOK, LinkState
    <3> QED BY <3>2, <3>3
  <2> QED BY <2>1, <2>2, <2>3, <2>4, <2>5, <2>6 DEF MarketItem, AccountItem
<1> QED BY <1>1, <1>2

THEOREM StepProps == Inv /\ [Next]_vars => ExactlyThatLinkA /\ DownMarksA /\ HealedByNextA /\ OnlyOwnEventsA
  BY ExactlyThatLinkStep, DownMarksStep, HealedByNextStep, OnlyOwnEventsStep

\* ([][A]_vars of a step that leaves vars unchanged: each of the four formulas is true of a stuttering step as well -
\*  they are implications whose antecedent mentions the actions; the box form below is what TLC checks at |EXCH| <= 4)
THEOREM StepPropsAlways == Spec => [][ExactlyThatLinkA /\ DownMarksA /\ HealedByNextA /\ OnlyOwnEventsA]_vars
<1>1. Inv /\ [Next]_vars => [ExactlyThatLinkA /\ DownMarksA /\ HealedByNextA /\ OnlyOwnEventsA]_vars
  BY StepProps
<1> QED BY <1>1, Invariance, PTL DEF Spec
=============================================================================
