SPECIFICATION Spec
CONSTANTS
  MaxFrames = 6
  MaxTrades = 3
  Needs = {2, 3}
INVARIANTS WireConserve WireNothingLost WireComplete
PROPERTIES WireEnds
CHECK_DEADLOCK FALSE
