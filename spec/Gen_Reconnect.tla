---------------------------- MODULE Gen_Reconnect ----------------------------
(* Scenario generation for the conformance harness (spec -> impl).  Reconnect is deterministic  *)
(* once script, policy and mode are fixed, so every complete behaviour is printed, as one JSON  *)
(* line, together with what the specification expects the implementation to show:              *)
(*   status  "Pend" (init pends for ever) | "NoStream" (the first init failed)                  *)
(*   out     the observations (kind, value, via) in order   (instants are judged by             *)
(*           Trace_Reconnect on the recorded trace, not here)                                   *)
(*   ncalls  how often init is called;  waits  the back-off sleeps in order.                    *)
(* Exhaustive (breadth-first) run: a final state has no successor, the invariant `Emit` is      *)
(* evaluated once per distinct state, so every script x policy x mode is printed exactly once.  *)
EXTENDS MC_Reconnect, Json

Final == phase \in {"Pend", "NoStream"}

Seq0(f) == IF DOMAIN f = {} THEN <<>> ELSE f      \* ToJson prints the empty function as an object

Emit == Final => PrintT(<<"SCN", ToJson(
          [mode |-> mode, pol |-> policy, script |-> script,
           exp |-> [status |-> phase,
                    out |-> Seq0([i \in 1..Len(out) |-> Strip(out[i])]),
                    ncalls |-> Len(calls),
                    waits |-> waits]])>>)
=============================================================================
