--------------------------- MODULE Gen_BinanceL2 ---------------------------
(* Scenario generation for the C06 conformance harness (spec -> impl).       *)
(* One JSON line per behaviour:                                              *)
(*   {rule, world:{i:{chg,cut,events:[{U,u,pu,b,a}..]}}, steps:[..]}         *)
(*   steps: {a:"Init"|"Reinit", snap:{i:S}, buf:[{i,k}..], books:{i:book},   *)
(*           after:{book,sq,conn,notices}, emit:{i:[{t,i,k}..]}}             *)
(*          (books = the REST snapshots; buf = frames buffered by the        *)
(*           subscription validation; after / emit = what the consumer holds *)
(*           and has received, in order, once the connection is established) *)
(*          {a:"Deliver", i, k, out, book, sq, conn, notices}                *)
(* where book / sq are the EXPECTED local book and sequencer of instrument i *)
(* after the delivery (the specification is deterministic here: event lists  *)
(* built from the ground truth never repeat a price).                        *)
(*  GSpecT (exhaustive): every initial world of the small universe x every   *)
(*         delivery sequence up to MaxLen (a behaviour ends at an Error).    *)
(*  GSpecR (simulation): random world per behaviour (drawn in a setup step), *)
(*         deliveries drawn with RandomElement, half of them biased to the   *)
(*         next link so that long chains occur; Reinit after every Error.    *)
EXTENDS MC_BinanceL2, Json
CONSTANTS MaxLen     \* steps per behaviour
VARIABLES phase, hist, done,
          pick       \* simulation: the random draws of the NEXT step, made one step ahead (a state
                     \* value is fully evaluated, so every use of a draw sees the same value)

gvars == <<rule, chg, cut, snap, sq, book, expected, emitted, conn, notices, nreinit, ndeliv, admitted, clean, last, phase, hist, done, pick>>

ProjB(b) == [bids |-> OB!Levels(b.bids, "bids"), asks |-> OB!Levels(b.asks, "asks"), seq |-> b.seq]
ProjS(s) == [processed |-> s.processed, lastId |-> s.lastId]

AfterRec == [book |-> [i \in INSTR |-> ProjB(book'[i])], sq |-> [i \in INSTR |-> ProjS(sq'[i])],
             conn |-> conn', notices |-> notices']
InitRec(a, buf) == [a |-> a, snap |-> snap', buf |-> buf, books |-> [i \in INSTR |-> ProjB(Truth(i, snap'[i]))],
                    after |-> AfterRec, emit |-> emitted']
DeliverRec == [a |-> "Deliver", i |-> last'.i, k |-> last'.k, out |-> last'.out,
               book |-> ProjB(book'[last'.i]), sq |-> ProjS(sq'[last'.i]), conn |-> conn', notices |-> notices']

World == [i \in INSTR |-> [chg |-> chg[i], cut |-> cut[i], events |-> [k \in 1..NEv(i) |-> Event(i, k)]]]

\* ---------------------------------------------------------------- exhaustive
GInitT == /\ \E r \in RULES, ch \in [INSTR -> EVOLUTIONS], ct \in [INSTR -> Cuts(M, MaxEvents)], S \in [INSTR -> 0..M],
                x \in EXPECTED, buf \in Bufs :
               /\ InitWithBuf(r, ch, ct, S, x, buf)
               /\ hist = <<[a |-> "Init", snap |-> S, buf |-> buf, books |-> [i \in INSTR |-> ProjB(TruthOf(ch[i], S[i]))],
                            after |-> [book |-> [i \in INSTR |-> ProjB(book[i])], sq |-> [i \in INSTR |-> ProjS(sq[i])],
                                       conn |-> conn, notices |-> notices],
                            emit |-> emitted]>>
          /\ phase = "run" /\ done = FALSE /\ pick = 0

GStepT == /\ ~done /\ conn = "up" /\ Len(hist) <= MaxLen
          /\ (Dropped \/ Admitted \/ Error)
          /\ hist' = Append(hist, DeliverRec)
          /\ UNCHANGED <<phase, done, pick>>

GFinishT == /\ ~done /\ (conn = "down" \/ Len(hist) = MaxLen + 1)
            /\ done' = TRUE
            /\ UNCHANGED <<rule, chg, cut, snap, sq, book, expected, emitted, conn, notices, nreinit, ndeliv, admitted, clean, last, phase, hist, pick>>

GSpecT == GInitT /\ [][GStepT \/ GFinishT]_gvars

\* ---------------------------------------------------------------- simulation
\* (a third of the drawn ids change no level, so that level-less depth updates occur)
CHANGE == [side : {"b", "a"}, p : PRICE, a : AMOUNT]
DrawChange(j) == IF RandomElement(1..3) = 1 THEN NoLevel ELSE RandomElement(CHANGE)
Trivial == <<[side |-> "b", p |-> CHOOSE p \in PRICE : TRUE, a |-> 0]>>

\* Random draws (HOWTO "TLC pitfalls"): every draw is bound through a singleton set and stored in a
\* state variable one step before it is used (a state value is fully evaluated, a LET is not).
DrawPick == \E i \in {RandomElement(INSTR)}, r \in {RandomElement(1..3)}, k \in {RandomElement(1..MaxEvents)},
               S \in {[j \in INSTR |-> RandomElement(0..MCM)]}, nb \in {RandomElement(0..MaxBuf)} :
              \E bf \in {[j \in 1..nb |-> [i |-> RandomElement(INSTR), k |-> RandomElement(1..MaxEvents)]]} :
                pick' = [i |-> i, r |-> r, k |-> k, S |-> S, buf |-> bf]

\* the drawn buffer, made valid for the current world (event indices folded into 1..NEv)
PickBuf == IF expected = 1 THEN << >>
           ELSE [j \in DOMAIN pick.buf |-> Frame(pick.buf[j].i, ((pick.buf[j].k - 1) % NEv(pick.buf[j].i)) + 1)]

GInitR == /\ InitWith("Spot", [i \in INSTR |-> Trivial], [i \in INSTR |-> <<1>>], [i \in INSTR |-> 0])
          /\ phase = "setup" /\ hist = << >> /\ done = FALSE /\ pick = 0

\* step 1: the world is drawn into the state variables; there is no connection yet
GSetup == /\ phase = "setup" /\ phase' = "open"
          /\ \E r \in {RandomElement(RULES)}, x \in {RandomElement(EXPECTED)},
                ch \in {[i \in INSTR |-> [j \in 1..MCM |-> DrawChange(j)]]},
                cs \in {[i \in INSTR |-> RandomElement(SUBSET (1..(MCM - 1)))]} :
               rule' = r /\ expected' = x /\ chg' = ch /\ cut' = [i \in INSTR |-> AscSeq(cs[i] \cup {MCM})]
          /\ conn' = "down" /\ nreinit' = -1 /\ book' = NoBooks
          /\ UNCHANGED <<snap, sq, emitted, notices, ndeliv, admitted, clean, last, done, hist>>
          /\ DrawPick

\* step 2: the first connection, computed from the (now fixed) world
GOpen == /\ phase = "open" /\ phase' = "run"
         /\ ReinitWithBuf(pick.S, PickBuf)
         /\ hist' = <<InitRec("Init", PickBuf)>>
         /\ UNCHANGED done
         /\ DrawPick

NextLinkIdx(i) ==
  IF admitted[i] # << >> THEN (IF LastOf(admitted[i]) < NEv(i) THEN LastOf(admitted[i]) + 1 ELSE NEv(i))
  ELSE IF \E k \in 1..NEv(i) : Covers(rule, i, k, snap[i]) THEN CHOOSE k \in 1..NEv(i) : Covers(rule, i, k, snap[i])
  ELSE 1

PickK == IF pick.r # 1 THEN NextLinkIdx(pick.i) ELSE ((pick.k - 1) % NEv(pick.i)) + 1

GDeliver == /\ phase = "run" /\ ~done /\ conn = "up" /\ Len(hist) <= MaxLen
            /\ (DeliverDropped(pick.i, PickK) \/ DeliverAdmitted(pick.i, PickK) \/ DeliverError(pick.i, PickK))
            /\ hist' = Append(hist, DeliverRec)
            /\ DrawPick
            /\ UNCHANGED <<phase, done>>

GReinit == /\ phase = "run" /\ ~done /\ conn = "down" /\ Len(hist) <= MaxLen
           /\ ReinitWithBuf(pick.S, PickBuf)
           /\ hist' = Append(hist, InitRec("Reinit", PickBuf))
           /\ DrawPick
           /\ UNCHANGED <<phase, done>>

GFinishR == /\ phase = "run" /\ ~done /\ Len(hist) = MaxLen + 1
            /\ done' = TRUE
            /\ UNCHANGED <<rule, chg, cut, snap, sq, book, expected, emitted, conn, notices, nreinit, ndeliv, admitted, clean, last, phase, hist, pick>>

GSpecR == GInitR /\ [][GSetup \/ GOpen \/ GDeliver \/ GReinit \/ GFinishR]_gvars

Emit == done => PrintT(<<"SCN", ToJson([rule |-> rule, expected |-> expected, world |-> World, steps |-> hist])>>)
=============================================================================
