--------------------------- MODULE Gen_Position ---------------------------
(* Scenario generation for the conformance harness (Pattern B): behaviours  *)
(* of Position printed as JSON, one line per behaviour; every step carries  *)
(* the event and the complete expected state after it (exact fractions).    *)
(*                                                                          *)
(*  GSpecX  exhaustive: every fill sequence of length MaxLen, with a store/  *)
(*          restore round trip (Persist) at every subset of the points where *)
(*          a position is open (C02)                                         *)
(*  GSpecF  simulation: long random fill sequences over a wider domain (C02)*)
(*  GSpecM  simulation: random interleavings of fills and market events     *)
(*          (public trades, L1 updates) with arbitrary exchange times (C15) *)
(*                                                                          *)
(* For GSpecM the generator has to know which price the data state yields   *)
(* after a market event.  dl1 / dlt are the driver's model of               *)
(* DefaultInstrumentMarketData (barter/src/engine/state/instrument/data.rs):*)
(* an L1 update / a public trade is adopted iff strictly newer than the one *)
(* held; price() = L1 mid if an L1 was ever adopted, else the last trade    *)
(* price, else none.  It is environment, not part of the property: the      *)
(* harness reads price() from the implementation state and only judges a    *)
(* scenario under C15 while the two agree.                                  *)
(*                                                                          *)
(* MarkStale is nondeterministic in the spec (keep or recompute).  The      *)
(* implementation's choice is unknown to the generator, so the expectation  *)
(* carries the set `uset` of all values the spec allows after the step      *)
(* ({"anyOf": ..} for the comparator).                                      *)
EXTENDS Position, TLC, Json

CONSTANTS MaxLen
VARIABLES hist, done,
          dl1, dlt,     \* data-state model: dl1 = [t, has, p] the L1 held (has: both sides present, p its
                        \* mid), dlt = [t, p] the last public trade; t = 0 means "none yet"
          tfill,        \* exchange time of the last fill (0 = none)
          now,          \* largest exchange time used so far
          uset          \* values pos.unreal may have now (a set because of MarkStale)

\* TLC configuration files cannot write negative numbers: the signed price sets of the C15
\* generators (`PRICE <- GenPriceSigned`, `MARK <- GenMarkSigned`, `PRICE <- GenPriceNonPos`)
GenPriceSigned == {-3, 0, 1, 3, 10}
GenMarkSigned  == {-3, 0, 1, 2, 5, 9}
GenPriceNonPos == {-2, 0, 1, 3}
\* fees: maker rebates (negative), zero and positive fees next to each other
GenFeeSigned   == {-2, -1, 0, 1, 2}
GenFeeRebate   == {-1, 1}
GenFeeWide     == {-2, 0, 1, 2, 3}

gvars == <<pos, exited, net, cash, fees, nfill, fresh, last, hist, done, dl1, dlt, tfill, now, uset>>
mvars == <<dl1, dlt, tfill, now>>

RECURSIVE SetToSeq(_)
SetToSeq(S) == IF S = {} THEN <<>> ELSE LET x == CHOOSE x \in S : TRUE IN <<x>> \o SetToSeq(S \ {x})
RJs(S) == LET q == SetToSeq(S) IN [i \in DOMAIN q |-> RJ(q[i])]

PosJ(P, us) ==
    IF ~IsOpen(P) THEN [side |-> "none"]
    ELSE [side |-> P.side, qty |-> RJ(P.qty), qmax |-> RJ(P.qmax), avg |-> RJ(P.avg),
          real |-> RJ(P.real),
          unreal |-> IF Cardinality(us) = 1 THEN RJ(P.unreal) ELSE [anyOf |-> RJs(us)],
          feeIn |-> RJ(P.feeIn), feeOut |-> RJ(P.feeOut), trades |-> P.trades,
          tin |-> P.tin, tupd |-> P.tupd]
ExJ(c) == [side |-> c.side, avg |-> RJ(c.avg), qmax |-> RJ(c.qmax), real |-> RJ(c.real),
           feeIn |-> RJ(c.feeIn), feeOut |-> RJ(c.feeOut), trades |-> c.trades,
           tin |-> c.tin, tout |-> c.tout]

DPrice(l1, lt) == IF l1.has THEN <<TRUE, l1.p>> ELSE IF lt.t > 0 THEN <<TRUE, lt.p>> ELSE <<FALSE, Zero>>
PriceJ(pr) == IF pr[1] THEN RJ(pr[2]) ELSE "none"

FillRec ==
    [a |-> "Fill", arm |-> last'.arm, side |-> last'.side, p |-> last'.p, q |-> last'.q,
     fee |-> last'.fee, id |-> last'.id, t |-> last'.t,
     exp |-> [pos |-> PosJ(pos', {pos'.unreal}),
              exit |-> IF Len(exited') > Len(exited) THEN ExJ(exited'[Len(exited')]) ELSE [side |-> "none"],
              price |-> PriceJ(DPrice(dl1', dlt'))]]

GInit == /\ Init
         /\ hist = <<>> /\ done = FALSE
         /\ dl1 = [t |-> 0, has |-> FALSE, p |-> Zero] /\ dlt = [t |-> 0, p |-> Zero]
         /\ tfill = 0 /\ now = 0 /\ uset = {}

Max(a, b) == IF a > b THEN a ELSE b

\* ------------------------------------------------------------------ fills
\* Fill prices <= 0 (C15's generators only) are used where the lead asked for them and the code
\* accepts them: on fills that increase or reduce an open position, and never so that the average
\* entry price becomes exactly 0 (closing a position whose average entry price is 0 makes
\* TearSheetGenerator::update_from_position divide by zero - the statistics' matter, neither C02's
\* nor C15's; reported separately).  Any other draw of a non-positive price is replaced by a
\* positive one.
ArmOf(s, q) == IF ~IsOpen(pos) THEN "Open" ELSE IF pos.side = s THEN "Increase"
               ELSE IF Gt(pos.qty, R(q)) THEN "Reduce" ELSE IF pos.qty = R(q) THEN "Close" ELSE "Flip"
AvgStaysNonZero(s, p, q) ==
    ArmOf(s, q) = "Increase" => ~IsZero(Add(Mul(pos.avg, pos.qty), Mul(R(p), R(q))))
SafePrice(s, p, q) ==
    IF /\ p > 0 \/ ArmOf(s, q) \in {"Increase", "Reduce"}
       /\ AvgStaysNonZero(s, p, q)
    THEN p
    ELSE CHOOSE x \in PRICE : x > 0 /\ AvgStaysNonZero(s, x, q)

GFillAt(s, p0, q, f, t) ==
    /\ LET p == SafePrice(s, p0, q) IN Fill(s, R(p), R(q), R(f), nfill + 1, t)
    /\ tfill' = t /\ now' = Max(now, t)
    /\ uset' = IF IsOpen(pos') THEN {pos'.unreal} ELSE {}
    /\ UNCHANGED <<dl1, dlt, done>>
    /\ hist' = Append(hist, FillRec)

GFillX == /\ ~done /\ nfill < MaxLen
          /\ \E a \in Args : GFillAt(a[1], a[2], a[3], a[4], nfill + 1)

\* ------------------------------------------------------------------ store and restore
\* Persist: the harness serialises and deserialises the state that holds the position
\* (PositionManager / EngineState.instruments) - a stutter; the expectation is the state as it is.
GPersist ==
    /\ Persist
    /\ UNCHANGED <<dl1, dlt, tfill, now, uset, done>>
    /\ hist' = Append(hist,
          [a |-> "Persist", arm |-> "", exp |-> [pos |-> PosJ(pos, uset), exit |-> [side |-> "none"],
                                                 price |-> PriceJ(DPrice(dl1, dlt))]])

WasPersist == Len(hist) > 0 /\ hist[Len(hist)].a = "Persist"
\* exhaustive: at every point where a position is open (once between two fills)
GPersistX == /\ ~done /\ nfill < MaxLen /\ IsOpen(pos) /\ ~WasPersist /\ GPersist
GFinishX  == /\ ~done /\ nfill = MaxLen
             /\ done' = TRUE
             /\ UNCHANGED <<pos, exited, net, cash, fees, nfill, fresh, last, hist, dl1, dlt, tfill, now, uset>>
\* random: one step in five
GPersistR == /\ ~done /\ Len(hist) < MaxLen /\ GPersist

\* random behaviours over the wider domain end early when a long-lived position has accumulated
\* fractions whose next cross-multiplication could leave TLC's 32-bit integers (DESIGN 5.5)
Big(P) == P.real[2] > 1500 \/ P.avg[2] > 64 \/ AbsI(P.real[1]) > 2000000 \/ P.unreal[2] > 1500

\* NB (TLC): a RandomElement draw is bound through a singleton set (\E x \in {Rnd(S, hist)}): a LET
\* definition would be re-evaluated - and re-drawn - at every reference; and the draw is given a
\* state-dependent dummy argument, because TLC evaluates constant-level expressions once at start-up
\* (every step would see the same draw).
Rnd(S, dummy) == RandomElement(S)

GFillR0 == /\ ~done /\ Len(hist) < MaxLen /\ ~Big(pos)
           /\ \E a \in {Rnd(Args, hist)} : GFillAt(a[1], a[2], a[3], a[4], nfill + 1)
GFillR == /\ ~done /\ ~Big(pos)
          /\ \E c \in {Rnd(1..5, hist)} : IF c = 1 /\ ~WasPersist THEN GPersistR ELSE GFillR0

\* exchange time of an event of GSpecM: mostly fresh, sometimes equal to the last fill's, sometimes
\* anything already used (stale, duplicates, reordering across the two market streams)
TimeOf(r, u) == IF r <= 2 THEN now + 1 ELSE IF r = 3 /\ tfill > 0 THEN tfill ELSE u

GFillM == /\ ~done /\ Len(hist) < MaxLen
          /\ \E a \in {Rnd(Args, hist)}, r \in {Rnd(1..5, hist)}, u \in {Rnd(1..(now + 1), hist)} :
                GFillAt(a[1], a[2], a[3], a[4], TimeOf(r, u))

\* ------------------------------------------------------------------ market events
\* kinds: "trade" public trade at m; "l1" top-of-book with mid m; "l1bid" / "l1ask" / "l1none" a
\* top-of-book with only a bid / only an ask / no level (no mid: once adopted the price falls back to
\* the last public trade, or to none); "candle" / "liq" kinds the default data state ignores.
\* After ANY market event: position open and price() defined -> Mark(price(), newer), else the
\* event is a stutter for the position (MarkNoPrice) - also before the first priced event.
L1Kinds == {"l1", "l1bid", "l1ask", "l1none"}

\* barter-data/src/books/mod.rs volume_weighted_mid_price(best_bid, best_ask), transcribed exactly:
\*   (bid.price * ask.amount + ask.price * bid.amount) / (bid.amount + ask.amount)
\* OrderBookL1::volume_weighed_mid_price yields it for ANY two-sided top of book - normal
\* (bid < ask), locked (bid = ask) and crossed (bid > ask) alike - and nothing for a one-sided one.
VWMid(bp, ba, ap, aa) == Div(Add(Mul(R(bp), R(aa)), Mul(R(ap), R(ba))), R(ba + aa))

\* an "l1" event carries bid (bp, ba) and ask (ap, aa); "l1bid" only the bid, "l1ask" only the ask
GMkt(kind, bp, ba, ap, aa, t) ==
    LET m   == bp                       \* the price a trade / candle / liquidation carries
        l1n == IF kind \in L1Kinds /\ dl1.t < t
               THEN [t |-> t, has |-> kind = "l1", p |-> IF kind = "l1" THEN VWMid(bp, ba, ap, aa) ELSE Zero]
               ELSE dl1
        ltn == IF kind = "trade" /\ (dlt.t = 0 \/ dlt.t < t) THEN [t |-> t, p |-> R(m)] ELSE dlt
        pr  == DPrice(l1n, ltn)
        newer == t > tfill
        marks == IsOpen(pos) /\ pr[1]
    IN /\ dl1' = l1n /\ dlt' = ltn /\ now' = Max(now, t)
       /\ UNCHANGED <<tfill, done>>
       /\ IF marks
          THEN /\ Mark(pr[2], newer)
               /\ uset' = IF newer \/ fresh # "fill" THEN {Estimate(pos, pr[2])}
                          ELSE uset \cup {Estimate(pos, pr[2])}
          ELSE /\ MarkNoPrice
               /\ uset' = uset
       /\ hist' = Append(hist,
             [a |-> "Mkt", kind |-> kind, p |-> R(m), bp |-> bp, ba |-> ba, ap |-> ap, aa |-> aa,
              shape |-> IF kind # "l1" THEN "" ELSE IF bp < ap THEN "normal" ELSE IF bp = ap THEN "locked" ELSE "crossed",
              t |-> t, newer |-> newer,
              arm |-> IF ~marks THEN "NoMark" ELSE IF newer THEN "Newer" ELSE "Stale",
              fresh |-> fresh,
              exp |-> [pos |-> PosJ(pos', uset'), exit |-> [side |-> "none"], price |-> PriceJ(pr)]])

KindOf(r) == CASE r <= 3 -> "trade" [] r <= 6 -> "l1" [] r = 7 -> "l1bid" [] r = 8 -> "l1ask"
               [] r = 9 -> "l1none" [] r = 10 -> "candle" [] OTHER -> "liq"

GMktR == /\ ~done /\ Len(hist) < MaxLen
         /\ \E k \in {Rnd(1..11, hist)}, m \in {Rnd(MARK, hist)}, m2 \in {Rnd(MARK, hist)},
               ba \in {Rnd(1..3, hist)}, aa \in {Rnd(1..3, hist)},
               r \in {Rnd(1..5, hist)}, u \in {Rnd(1..(now + 1), hist)} :
               GMkt(KindOf(k), m, ba, m2, aa, TimeOf(r, u))

\* (the guard comes first on purpose: TLC splits an action at a top-level \E at start-up and would
\*  evaluate the draw once for the whole run)
GStepM == /\ ~done
          /\ \E c \in {Rnd(1..6, hist)} : IF c <= 2 THEN GFillM ELSE IF c = 6 THEN GPersistR ELSE GMktR

GFinish == /\ ~done /\ Len(hist) = MaxLen
           /\ done' = TRUE
           /\ UNCHANGED <<pos, exited, net, cash, fees, nfill, fresh, last, hist, dl1, dlt, tfill, now, uset>>

GAbort == /\ ~done /\ Len(hist) < MaxLen /\ Big(pos)
          /\ done' = TRUE
          /\ UNCHANGED <<pos, exited, net, cash, fees, nfill, fresh, last, hist, dl1, dlt, tfill, now, uset>>

GSpecX == GInit /\ [][GFillX \/ GPersistX \/ GFinishX]_gvars
GSpecXN == GInit /\ [][GFillX \/ GFinishX]_gvars          \* the same without Persist (C15's fill sequences)
GSpecF == GInit /\ [][GFillR \/ GAbort \/ GFinish]_gvars
GSpecM == GInit /\ [][GStepM \/ GFinish]_gvars

Emit == done => PrintT(<<"SCN", ToJson([evs |-> hist])>>)
=============================================================================
