#!/usr/bin/env python3
"""Self-test of the Indexing area (C11, C04): does the binding bite?

  selftest/indexing_selftest.py corrupt     (seconds; needs `bin/setup` / a built harness)
      - one field of the *expected* state of a TLC scenario is changed  -> the harness must reject
      - one field of a *recorded* trace line is changed                 -> TLC (Trace_Indexing) must reject
      - the unchanged scenario / line must be accepted (C04: on a single-exchange collection,
        where finding F2 does not show)
  selftest/indexing_selftest.py mutants [name ...]    (minutes; builds a scratch copy under /var/tmp)
      - every source mutant of selftest/indexing_mutants.json is applied to a scratch copy of /repo
        (never to /repo), both drivers are run on the enumerated collections and on a random trace,
        and the property named in "breaks" must report signatures that the unmutated copy does not,
        while the other property must not.
Exit 0 iff every expectation holds.
"""
import collections
import copy
import json
import os
import re
import shutil
import subprocess
import sys

VERIF = os.path.dirname(os.path.dirname(os.path.abspath(__file__)))
WORK = os.path.join(VERIF, "work", "indexing_selftest")
SPEC = os.path.join(VERIF, "spec")
SCRATCH = "/var/tmp/indexing-selftest"
BINS = {"C11": "c11", "C04": "c04"}


def sh(cmd, **kw):
    return subprocess.run(cmd, capture_output=True, text=True, **kw)


def tlc_scenarios(cfg="GenA_Indexing.cfg"):
    p = sh(["timeout", "600", "tlc", "-workers", "1", "-metadir", os.path.join(WORK, "meta"), "-cleanup",
            "-noGenerateSpecTE", "-config", cfg, "Gen_Indexing.tla"], cwd=SPEC)
    out = []
    for line in p.stdout.splitlines():
        if line.startswith('<<"SCN", "') and line.endswith('">>'):
            out.append(json.loads(line[len('<<"SCN", "'):-3].replace('\\"', '"').replace("\\\\", "\\")))
    assert out, p.stdout[-2000:]
    return out


def tlc_trace(focus, path):
    env = dict(os.environ, TRACE=path, JAVA_TOOL_OPTIONS="-Xss1g -Dtlc2.tool.queue.IStateQueue=StateDeque")
    p = sh(["timeout", "600", "tlc", "-workers", "1", "-metadir", os.path.join(WORK, "meta_t"), "-cleanup",
            "-noGenerateSpecTE", "-config", "Trace_Indexing_%s.cfg" % focus, "Trace_Indexing.tla"], cwd=SPEC, env=env)
    m = re.search(r'"TRACE_END",\s*"(.*?)"\s*>>', p.stdout, re.S)
    assert m, p.stdout[-3000:]
    return {int(b[0]): b[1] for b in json.loads(m.group(1).replace('\\"', '"'))}


def write(path, objs):
    with open(path, "w") as f:
        for o in objs:
            f.write(json.dumps(o) + "\n")
    return path


def replay(exe, scns, name):
    p = write(os.path.join(WORK, name + ".ndjson"), scns)
    out = os.path.join(WORK, name + ".out")
    r = sh([exe, "replay", "--scenarios", p, "--out", out])
    assert r.returncode == 0, r.stderr[-2000:]
    return [json.loads(l) for l in open(out)]


def corrupt(harness_dir):
    ok = True
    scns = tlc_scenarios()
    multi = next(s for s in scns if len(s["ex"]) == 3 and len(s["ins"]) == 4)
    single = next(s for s in scns if len(s["ex"]) == 1 and len(s["ins"]) == 2)

    def flip(v):
        return 0 if v else 1

    cases = {
        "C11": (multi, [
            ("unchanged", lambda c: None, False),
            ("ins[1].base", lambda c: c["ins"][1].__setitem__("base", c["ins"][1]["base"] % len(c["as"]) + 1), True),
            ("exchanges swapped", lambda c: c["ex"].__setitem__(slice(0, 2), [c["ex"][1], c["ex"][0]]), True),
            ("as[2].nx", lambda c: c["as"][2].__setitem__("nx", 6 if c["as"][2]["nx"] != 6 else 1), True),
            ("sti[0].key", lambda c: c["sti"][0].__setitem__("key", 2), True),
            ("conn reversed", lambda c: c["conn"].reverse(), True),
            ("tx slot", lambda c: c["tx"][-1]["t"][0].__setitem__("k", flip(c["tx"][-1]["t"][0]["k"])), True),
        ]),
        "C04": (single, [
            ("unchanged", lambda c: None, False),
            ("ii[0]", lambda c: c["maps"][0]["ii"].__setitem__(0, flip(c["maps"][0]["ii"][0])), True),
            ("ia[last]", lambda c: c["maps"][0]["ia"].__setitem__(-1, 1), True),
            ("na[0]", lambda c: c["maps"][0]["na"].__setitem__(0, flip(c["maps"][0]["na"][0])), True),
            ("ni[own]", lambda c: c["maps"][0]["ni"].__setitem__(c["maps"][0]["inn"][0] - 1, 0), True),
        ]),
    }
    for focus, (base, tests) in cases.items():
        exe = os.path.join(harness_dir, "target", "debug", BINS[focus])
        muts = []
        for _, f, _ in tests:
            c = copy.deepcopy(base)
            f(c)
            muts.append(c)
        for (name, _, want), r in zip(tests, replay(exe, muts, "corrupt_" + focus)):
            got = not r["ok"]
            print("%s scenario %-18s %s" % (focus, name, "rejected" if got else "accepted"), "" if got == want else "   <-- UNEXPECTED")
            ok &= got == want
        # recorded trace
        tr = os.path.join(WORK, "trace_%s.ndjson" % focus)
        r = sh([exe, "trace", "--seed", "1", "--n", "200", "--out", tr])
        assert r.returncode == 0, r.stderr[-2000:]
        lines = [json.loads(l) for l in open(tr)]
        line = next(l for l in lines if len(l["ex"]) == (3 if focus == "C11" else 1) and len(l["ins"]) >= 2)
        if focus == "C11":
            ttests = [
                ("unchanged", lambda c: None, False),
                ("ins[0].quote", lambda c: c["ins"][0].__setitem__("quote", c["ins"][0]["quote"] % len(c["as"]) + 1), True),
                ("assets swapped", lambda c: c["as"].__setitem__(slice(0, 2), [c["as"][1], c["as"][0]]), True),
                ("asset state misread", lambda c: c["sta"][0].__setitem__("ok", False), True),
                ("tx slot", lambda c: c["tx"]["t"][0].__setitem__("k", flip(c["tx"]["t"][0]["k"])), True),
                ("conn reversed", lambda c: c["conn"].reverse(), True),
            ]
        else:
            ttests = [
                ("unchanged", lambda c: None, False),
                ("ii[0]", lambda c: c["maps"][0]["ii"].__setitem__(0, 0), True),
                ("ni[own]", lambda c: c["maps"][0]["ni"].__setitem__(c["maps"][0]["inn"][0] - 1, 0), True),
                ("client got other name", lambda c: c["maps"][0]["rq"][0].__setitem__("rn", c["maps"][0]["rq"][0]["rn"] % 12 + 1), True),
                ("balance refused", lambda c: c["maps"][0]["ev"][0][0].__setitem__(c["maps"][0]["an"][0] - 1, [0, 0]), True),
                ("trade to other index", lambda c: c["maps"][0]["ev"][2][0].__setitem__(c["maps"][0]["inn"][0] - 1, [1, len(c["ins"]) + 1]), True),
            ]
        muts = []
        for _, f, _ in ttests:
            c = copy.deepcopy(line)
            f(c)
            muts.append(c)
        bad = tlc_trace(focus, write(os.path.join(WORK, "corrupt_trace_%s.ndjson" % focus), muts))
        for n, (name, _, want) in enumerate(ttests, 1):
            got = n in bad
            print("%s trace    %-22s %s %s" % (focus, name, "rejected" if got else "accepted", bad.get(n, "")), "" if got == want else "   <-- UNEXPECTED")
            ok &= got == want
    return ok


def run_drivers(hdir, scn_path):
    """signatures reported by both drivers of the (scratch) harness"""
    res = {}
    for focus, b in BINS.items():
        exe = os.path.join(hdir, "target", "debug", b)
        out = os.path.join(WORK, "mut_%s.out" % b)
        r = sh([exe, "replay", "--scenarios", scn_path, "--out", out])
        assert r.returncode == 0, r.stderr[-2000:]
        sigs = collections.Counter()
        for l in open(out):
            for e in json.loads(l)["errors"]:
                sigs[e["sig"]] += 1
        tr = os.path.join(WORK, "mut_trace_%s.ndjson" % b)
        r = sh([exe, "trace", "--seed", "1", "--n", "200", "--out", tr])
        assert r.returncode == 0, r.stderr[-2000:]
        lines = [json.loads(l) for l in open(tr)]
        # lines TLC cannot read are screened by bin/props/indexing.py; here: count them
        readable = [l for l in lines if l["panic"] == "none" and all(isinstance(x, int) for x in l["ex"])
                    and not any("key" in x for x in l["as"] + l["ins"])]
        if focus == "C04":      # C04 takes the tables as given: one entity, one index (as bin/props/indexing.py)
            readable = [l for l in readable if len(set(l["ex"])) == len(l["ex"])
                        and len({(x["ex"], x["a"]) for x in l["as"]}) == len(l["as"])
                        and len({(x["ex"], x["ni"], x["nx"], x["kind"]) for x in l["ins"]}) == len(l["ins"])]
        elif len(readable) < len(lines):
            sigs["trace:unreadable-tables"] += len(lines) - len(readable)
        for tags in tlc_trace(focus, write(tr + ".clean", readable)).values():
            for t in tags:
                sigs["trace:" + t] += 1
        res[focus] = sigs
    return res


def mutants(names):
    muts = json.load(open(os.path.join(VERIF, "selftest", "indexing_mutants.json")))
    if names:
        muts = [m for m in muts if m["name"] in names]
    shutil.rmtree(SCRATCH, ignore_errors=True)
    os.makedirs(SCRATCH + "/x")
    sh(["rsync", "-a", "--exclude", "target", "/repo/", SCRATCH + "/repo/"])
    sh(["rsync", "-a", "--exclude", "target", os.path.join(VERIF, "harness") + "/", SCRATCH + "/x/harness/"])
    hdir = SCRATCH + "/x/harness"          # its path dependencies ../../repo now point at the scratch copy

    def build():
        r = sh(["cargo", "build", "--offline", "--quiet", "--bin", "c11", "--bin", "c04"], cwd=hdir)
        assert r.returncode == 0, r.stderr[-3000:]

    scn_path = write(os.path.join(WORK, "collections.ndjson"), tlc_scenarios())
    build()
    base = run_drivers(hdir, scn_path)
    print("unmutated copy:", {k: sorted(v) for k, v in base.items()})
    ok = True
    for m in muts:
        path = os.path.join(SCRATCH, "repo", m["file"])
        src = open(path).read()
        assert src.count(m["old"]) >= 1, "pattern of %s not found" % m["name"]
        open(path, "w").write(src.replace(m["old"], m["new"], 1))
        try:
            build()
            got = run_drivers(hdir, scn_path)
        finally:
            open(path, "w").write(src)
        for focus in BINS:
            new = sorted(s for s in got[focus] if s not in base[focus] and s != "precondition")
            want = focus in m["breaks"]
            verdict = bool(new) == want or (focus == "C04" and m.get("c04_too_while_F2_present") and any("later-exchange" in x for x in base["C04"]))
            print("%-40s %s: %s%s" % (m["name"], focus, new if new else "no new signature",
                                      "" if verdict else "   <-- UNEXPECTED (expected %s)" % ("a violation" if want else "none")))
            ok &= verdict
    shutil.rmtree(SCRATCH, ignore_errors=True)
    return ok


def main():
    mode = sys.argv[1] if len(sys.argv) > 1 else "corrupt"
    shutil.rmtree(WORK, ignore_errors=True)
    os.makedirs(WORK)
    try:
        ok = corrupt(os.path.join(VERIF, "harness")) if mode == "corrupt" else mutants(sys.argv[2:])
    finally:
        shutil.rmtree(WORK, ignore_errors=True)
    print("SELFTEST", "OK" if ok else "FAILED")
    return 0 if ok else 1


if __name__ == "__main__":
    sys.exit(main())
