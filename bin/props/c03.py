"""C03 - decided on spec/EngineCore.tla (see props/enginecore.py for the shared pipeline)."""
from props import enginecore

MODULE = "EngineCore"


def check(ctx):
    return enginecore.check(ctx)


def replay(ctx, rp):
    return enginecore.replay(ctx, rp)
