SPECIFICATION Spec
CONSTANTS
  Values = {0, 1, 2, 3, 4}
  NegMag = {2}
  Gaps = {0, 2}
  MaxLen = 5
INVARIANTS TypeOK RunIsRef ReadIsCurrent PeakToTrough Recovery OnePerPeak NoneIffMonotone MaxIsLargest ClassicMDD
PROPERTIES ReadingIsPure
CHECK_DEADLOCK FALSE
