"""C20 - backtests consume their whole dataset in order and do not affect one another
(spec/Backtest.tla; binding: the real run_backtests / backtest on multi-thread tokio runtimes)."""
import json
import random

import vlib

MODULE = "Backtest"
META = {
    "spec": ["Backtest", "Clock", "SystemLifecycle"],
    "technique": "TLC exhaustive interleavings of K=2 backtests (forwarder / exchange / engine / shutdown tasks) "
                 "with the state space checked to be the product of the single-run spaces; every small strategy "
                 "parameterisation enumerated by TLC and executed concurrently through the real run_backtests; "
                 "per-run observation logs validated by Trace_Backtest; concurrent runs compared with the same "
                 "parameters run alone",
    "level_note": "real runs sample the tokio runtime's schedules (1-16 workers, 1-32 concurrent backtests); "
                  "they do not enumerate them",
}
ASSUMPTIONS = [
    "strategies decide on the dataset index of the market event just processed only (act on the k-th event): their "
    "decisions do not depend on the relative timing of market data and execution responses",
    "fills / positions / balances / realised PnL are compared only in scenarios whose data source holds back the item "
    "after a decision point until that run's engine has processed the order's response, balance and trade (and the item "
    "after the first event until the initial account snapshot is processed): shutdown_after_backtest waits only for the "
    "market forwarder, so without the gate a fill may legitimately arrive after Shutdown (DESIGN C20); ungated "
    "MarketDataInMemory scenarios are judged on the dataset-consumption clauses only",
    "the gated source also holds back its FIRST item until the initial account snapshot is processed: the mock exchange "
    "stamps balances with the request time of the wall-clock driven HistoricalClock, which the first market event re-anchors "
    "at its seed - an order sent on it before the snapshot is processed gets a balance snapshot stamped older than the "
    "account snapshot and the engine keeps the pre-order balance (observed once in ~500 concurrent runs before this gate)",
    "one order per decision point (two orders answered at the same instant may legitimately be applied in either order)",
    "trade / balance timestamps come from the wall-clock driven HistoricalClock and are excluded from comparisons",
    "every order is accepted by the mock exchange (balances suffice whichever asset its sell arm debits - F3/C08); "
    "unrealised PnL is not compared (C15 owns it)",
    "wall-clock bounds (data-source gate 120 s, scenario 600 s) are tool errors, never verdicts; an execution-manager "
    "request timeout (1 s wall clock, hard-coded for mock execution) changes only the order-response event, which is "
    "not compared",
    "clock clause: harness datasets space market events one hour of exchange time apart; in gated scenarios and in "
    "paused-clock scenarios with a pause before every item nothing can be processed between an order's event and the "
    "stamping of its request, so fill / balance / position-entry timestamps must lie within 300 s (the wall-clock delta "
    "HistoricalClock adds) after the exchange time of the order's event in that run; a scenario taking more than 120 s "
    "of wall time is a tool error; in ungated in-memory scenarios the clock legitimately runs ahead with the run's own "
    "progress and timestamps are not judged",
    "paused-clock scenarios (current_thread runtime, tokio time paused, data source sleeping virtual milliseconds to "
    "hours between items, days in total) are judged on the dataset-consumption clauses; HistoricalClock reads the real "
    "Utc::now there, which only stamps",
    "a failing data source is a harness BacktestMarketData whose stream panics after k of n items (paused-clock family); "
    "judged: the run returns no summary (an error), the engine saw exactly those k items in order, healthy runs joined "
    "beside it through one backtest() per run return complete summaries; what run_backtests (try_join_all) does with "
    "the other runs of a batch when one fails - it returns that error and drops them - is not part of the property",
    "datasets contain late ticks (exchange time 30 s to a day older than the predecessor's); no order is opened on a late "
    "tick (the order stamp would be the clock's, not the tick's)",
    "ids of backtests are labels, not keys: batches carry pairwise distinct ids, the empty id for every run (the repository "
    "example's template), ids equal in pairs, and a few equal ids among distinct ones; judged: run_backtests returns "
    "num_backtests = number of runs and one summary per run, position k holding run k's id and the summary of run k's own "
    "engine (and, gated, equal to the summary of the same parameters run alone)",
    "the fatal-error path (engine stops on an unrecoverable execution-link error) is model-checked in the specification "
    "but not driven in the implementation: the property exempts it",
]

SPACING_MS = 3600 * 1000        # exchange time between two dataset items (harness datasets)
SLACK_MS = 300 * 1000           # wall-clock delta HistoricalClock may add
WALL_LIMIT_S = 120              # a scenario slower than this cannot be judged on timestamps (tool error)


def hms(ms):
    return "%02d:%02d:%06.3f" % (ms // 3600000, ms // 60000 % 60, ms % 60000 / 1000.0)


TRACE = "Trace_" + MODULE
CFG = TRACE + ".cfg"


# ------------------------------------------------------------------------------- model checking
NO_DISC = ("StepDisc",)          # configurations whose dataset has no Reconnecting item
NO_SD = ("StepShutdown",)        # single-run configuration that always stops on its fatal error
FAILS = ("StepShutdown", "SendShutdown", "EngineShutdown")    # single run whose data source always fails


def ign(cfg, ignore):
    """the data source fails only in the *srcfail* configurations"""
    return tuple(ignore) + (() if "srcfail" in cfg else ("SourceFails",))


def product_check(ctx, whole, parts, coverage=False):
    """Model-check a K=2 configuration and its two single-run configurations; the K-run state
    space must be exactly the product of the single-run spaces (Isolation at the spec level).
    whole / parts: (cfg, actions that cannot occur in it)."""
    sizes = []
    for cfg, ignore in parts:
        r = ctx.tlc_mc("MC_" + MODULE, cfg, timeout=900, ignore_uncovered=ign(cfg, ignore))
        sizes.append(r["distinct_states"])
    cfg, ignore = whole
    r = ctx.tlc_mc("MC_" + MODULE, cfg, timeout=1700, coverage=coverage, ignore_uncovered=ign(cfg, ignore))
    want = sizes[0] * sizes[1]
    if r["distinct_states"] != want:
        raise vlib.ToolError("spec-level isolation failure: %s has %d distinct states, the single-run spaces %s give %d"
                             % (cfg, r["distinct_states"], sizes, want))
    ctx.cov.setdefault("state_space_products", []).append({"cfg": cfg, "states": r["distinct_states"], "factors": sizes})
    vlib.log("state space of %s = %d x %d (product of the single-run spaces)" % (cfg, sizes[0], sizes[1]))


def model_check(ctx):
    product_check(ctx, ("MC_Backtest.cfg", NO_DISC), [("MC_Backtest_r1.cfg", NO_DISC), ("MC_Backtest_r2.cfg", NO_DISC)])
    product_check(ctx, ("MC_Backtest_faults.cfg", ()), [("MC_Backtest_faults_r1.cfg", NO_SD), ("MC_Backtest_faults_r2.cfg", ())])
    # a run whose data source fails (after 2 of 3 items) beside a healthy one
    product_check(ctx, ("MC_Backtest_srcfail.cfg", NO_DISC), [("MC_Backtest_srcfail_r1.cfg", NO_DISC + FAILS),
                                                               ("MC_Backtest_srcfail_r2.cfg", NO_DISC + ("SourceFails",))])
    for cfg, ignore in (("MC_Backtest_live.cfg", NO_DISC), ("MC_Backtest_live_fatal.cfg", NO_SD),
                        ("MC_Backtest_live_srcfail.cfg", NO_DISC + FAILS)):
        ctx.tlc_mc("MC_" + MODULE, cfg, timeout=600, ignore_uncovered=ign(cfg, ignore))
    if not ctx.quick:
        product_check(ctx, ("MC_Backtest_thorough.cfg", NO_DISC),
                      [("MC_Backtest_thorough_r1.cfg", NO_DISC), ("MC_Backtest_thorough_r2.cfg", NO_DISC)], coverage=False)
        product_check(ctx, ("MC_Backtest_deep.cfg", ()), [("MC_Backtest_deep_r1.cfg", ()), ("MC_Backtest_deep_r2.cfg", ())], coverage=False)
        product_check(ctx, ("MC_Backtest_full.cfg", ()), [("MC_Backtest_full_r1.cfg", NO_SD), ("MC_Backtest_full_r2.cfg", ())], coverage=False)
        ctx.tlc_mc("MC_" + MODULE, "MC_Backtest_full_r3.cfg", timeout=900, ignore_uncovered=ign("", NO_DISC))
        ctx.tlc_mc("MC_" + MODULE, "MC_Backtest_full_r4.cfg", timeout=900, ignore_uncovered=ign("", NO_SD))
        # the source fails before its first item (a Reconnecting item in the dataset) beside a run with two orders
        product_check(ctx, ("MC_Backtest_srcfail2.cfg", ()), [
            ("MC_Backtest_srcfail2_r1.cfg", NO_DISC + FAILS + ("Forward", "StepMarket")),
            ("MC_Backtest_srcfail2_r2.cfg", NO_DISC + ("SourceFails",))], coverage=False)


# ------------------------------------------------------------------------------- scenarios
def tlc_scenarios(ctx, outcomes):
    """All strategy parameterisations TLC enumerated, grouped by dataset (n, recs): per dataset one
    concurrent scenario per mode with every parameterisation as one run (K = their number), plus
    every parameterisation alone (gated)."""
    rng = random.Random(ctx.seed)
    by_ds = {}
    for o in outcomes:
        by_ds.setdefault((o["n"], tuple(o["recs"])), {}).setdefault(tuple(o["acts"]), []).append(o)
    scns, expected = [], {}
    for di, ((n, recs), variants) in enumerate(sorted(by_ds.items())):
        data_seed = ctx.seed * 1000 + 900 + di
        points = [k for k in range(1, n + 1) if k not in recs]
        runs = []
        for vi, acts in enumerate(sorted(variants)):
            pos = [0, 0]
            aj = []
            for k in acts:
                inst = rng.randrange(2)
                qty = rng.randint(1, 3)
                side = "sell" if pos[inst] > 0 and rng.random() < 0.7 else ("buy" if rng.random() < 0.75 else "sell")
                pos[inst] += qty if side == "buy" else -qty
                aj.append({"k": k, "inst": inst, "side": side, "qty": qty})
            runs.append({"variant": vi, "acts": aj})
            expected[(data_seed, vi)] = variants[acts]
        base = {"n": n, "data_seed": data_seed, "recs": list(recs), "points": points}
        for vi, r in enumerate(runs):
            scns.append(dict(base, name="ta%d.%d" % (di, vi), mode="gated", workers=1, latency_ms=0, alone=True, runs=[r]))
        def ids(pattern):
            # ids are labels, not keys: distinct / all empty (the example's template id) / equal in pairs / a few equal
            k = len(runs)
            return [str(r) if pattern % 4 == 0 else "" if pattern % 4 == 1 else "sweep-%d" % (r // 2) if pattern % 4 == 2
                    else ("template" if r in (0, k - 1) else str(r)) for r in range(k)]
        for wi, w in enumerate((1, 2, 4) if ctx.quick else (1, 2, 4, 16)):
            order = runs[wi % len(runs):] + runs[:wi % len(runs)]
            scns.append(dict(base, name="tg%d.w%d" % (di, w), mode="gated", workers=w, latency_ms=wi % 2, alone=False, ids=ids(wi + di + 1), runs=order))
            scns.append(dict(base, name="tm%d.w%d" % (di, w), mode="inmem", workers=w, latency_ms=(wi + 1) % 2, alone=False,
                             points=[], ids=ids(wi + di + 2), runs=list(reversed(order))))
        # the same runs over a data source that takes (virtual) hours between items: paused tokio clock
        scns.append(dict(base, name="tp%d" % di, mode="paused", workers=1, latency_ms=di % 2, alone=False, points=[],
                         gaps=("long", "short", "one", "tail")[di % 4], ids=ids(di + 1), runs=runs))
    return scns, expected


def first_lines_by_run(lines):
    """[(start_index0, label, [lines])] one per Reset segment."""
    segs = []
    for i, l in enumerate(lines):
        if l["a"] == "Reset":
            segs.append((i, l["kind"], []))
        segs[-1][2].append(l)
    return segs


# ------------------------------------------------------------------------------- judging
def judge(ctx, scns, trace_path, results_path, expected, label):
    by_name = {s["name"]: s for s in scns}
    results = ctx.read_results(results_path)
    lines = ctx.read_trace(trace_path)

    def replay_of(names):
        ss = [by_name[n] for n in names]
        keys = set((s["data_seed"], r["variant"]) for s in ss for r in s["runs"])
        return {"scenarios": ss, "expected": [[k[0], k[1], expected[k]] for k in sorted(keys) if k in expected]}

    # ---- screening: aborted runs / harness-observed anomalies cannot be shown to TLC
    clean, cur = [], None
    for l in lines:
        if l["a"] == "Reset":
            cur = l["kind"]
        if l["a"] in ("Abort", "Anomaly"):
            scn = cur.split("/")[0]
            what = l["kind"]
            if l["a"] == "Abort":
                ctx.violation("abort:" + what.split(":")[0], "scenario %s (%s, K=%d, %d workers): run_backtests did not return "
                              "summaries: %s" % (scn, by_name[scn]["mode"], len(by_name[scn]["runs"]), by_name[scn]["workers"], what[:300]),
                              replay_of([scn]))
            else:
                ctx.violation("anomaly:" + what.split(":")[0], "run %s: %s" % (cur, what), replay_of([scn]))
            continue
        clean.append(l)
    clean_path = ctx.path("clean_%s.ndjson" % label)
    with open(clean_path, "w") as f:
        for l in clean:
            f.write(json.dumps(l) + "\n")

    # ---- impl -> spec: every run's observation log is a behaviour of Backtest
    n, bad, _ = ctx.tlc_trace(TRACE, CFG, clean_path, timeout=1700)
    segs = first_lines_by_run(clean)
    starts = [s[0] for s in segs]
    seen_runs = set()
    for b in sorted(bad):
        si = max(j for j, st in enumerate(starts) if st <= b - 1)
        run_label = segs[si][1]
        if run_label in seen_runs:
            continue            # report the first rejected line of a run (later ones follow from it)
        seen_runs.add(run_label)
        scn = run_label.split("/")[0]
        tags = ctx.last_tags.get(b, ["unconsumed"])
        line = clean[b - 1]
        prev = clean[b - 2] if b >= 2 else None
        ctx.violation("trace:%s:%s" % (by_name[scn]["mode"], "+".join(tags)),
                      "run %s (%s, K=%d, %d workers, dataset of %d): after %s the engine state showed %s - not a step of "
                      "Backtest: %s" % (run_label, by_name[scn]["mode"], len(by_name[scn]["runs"]), by_name[scn]["workers"],
                                        by_name[scn]["n"], brief(prev), brief(line), ", ".join(tags)),
                      replay_of([scn]))
    ctx.cov["traces_validated_against_impl"] += len(segs)

    # ---- direct facts per run and per scenario
    alone = {}
    for r in results:
        if r["mode"] == "gated" and r["k"] == 1:
            alone[(r["data_seed"], r["variant"])] = r
    stats = ctx.cov.setdefault("implementation_runs", {
        "scenarios": 0, "runs": 0, "market_events_consumed": 0, "orders": 0, "fills": 0, "account_events": 0,
        "runs_with_closed_positions": 0, "gated_runs_compared_with_alone": 0, "max_concurrent": 0, "max_workers": 0,
        "order_response_timeouts": 0, "tlc_outcomes_matched": 0, "inmem_runs_ending_with_unprocessed_fills": 0})
    by_scn = {}
    for r in results:
        by_scn.setdefault(r["scn"], []).append(r)
    stats["scenarios"] += len(by_scn)
    for scn, rs in by_scn.items():
        s = by_name[scn]
        stats["max_concurrent"] = max(stats["max_concurrent"], len(rs))
        stats["max_workers"] = max(stats["max_workers"], s["workers"])
        if all(r["status"] != "ok" for r in rs) and not rs[0]["scenario_has_failing_source"]:
            continue            # (reported above from the Abort lines)
        if rs[0]["extra_streams"]:
            raise vlib.ToolError("scenario %s: stream() was called more often than there are runs" % scn)
        if any(r["account_reconnects"] for r in rs):
            raise vlib.ToolError("scenario %s: the mock account stream reconnected (broadcast lag) - timing, not a verdict" % scn)
        # the batch result is a sequence with one summary per run (ids are labels, not keys)
        shape = (rs[0]["batch_num_backtests"], rs[0]["batch_summaries"])
        if shape[0] is not None:
            dup = len(set(r["id"] for r in rs)) < len(rs)
            stats["batches_with_equal_ids"] = stats.get("batches_with_equal_ids", 0) + (1 if dup and len(rs) > 1 else 0)
            if shape != (len(rs), len(rs)):
                ctx.violation("batch:size", "scenario %s (%s): run_backtests over %d runs with ids %s returned num_backtests = %d and %d "
                              "summaries - one summary per run is due, whatever the ids" % (
                                  scn, s["mode"], len(rs), json.dumps([r["id"] for r in rs]), shape[0], shape[1]), replay_of([scn]))
        # Isolation of the data streams: one stream per run, no stream seen by two runs
        tags = [tuple(r["tags"]) for r in rs]
        if s["mode"] == "gated":
            seen = [t for t in tags if t]          # (a run that saw no market event at all is judged below)
            if any(len(t) != 1 for t in seen) or len(set(seen)) != len(seen) or any(t[0] < 1 or t[0] > len(rs) for t in seen):
                ctx.violation("streams:mixed", "scenario %s: the runs saw events of the streams %s - every run must see "
                              "exactly its own stream" % (scn, tags), replay_of([scn]))
        for r in rs:
            stats["runs"] += 1
            stats["market_events_consumed"] += r["consumed"]
            stats["orders"] += r["orders_fired"]
            stats["fills"] += r["trades_seen"]
            stats["account_events"] += r["account_events"]
            stats["order_response_timeouts"] += r["order_response_timeouts"]
            who = "run %s/%d (%s, K=%d, %d workers)" % (scn, r["run"], r["mode"], r["k"], r["workers"])
            if r["late_items"]:
                stats["runs_over_datasets_with_late_ticks"] = stats.get("runs_over_datasets_with_late_ticks", 0) + 1
            # a data source that fails part way: the run must end WITHOUT a summary
            if r["source_fails_after"] is not None:
                stats["runs_with_failing_source"] = stats.get("runs_with_failing_source", 0) + 1
                if r["status"] == "ok":
                    ctx.violation("summary:%s:made-after-source-failure" % r["mode"],
                                  "%s (%s): the market data source failed after %d of %d items, yet a summary was returned (the engine "
                                  "saw %d items)" % (who, r["api"], r["source_fails_after"], r["n"], r["consumed"]), replay_of([scn]))
                elif "%s/%d" % (scn, r["run"]) not in seen_runs and r["consumed"] == r["source_fails_after"]:
                    stats["source_failures_ending_in_an_error"] = stats.get("source_failures_ending_in_an_error", 0) + 1
                continue
            if r["status"].startswith("missing:"):
                ctx.violation("batch:summary-missing", "%s with id %s: %s" % (who, json.dumps(r["id"]), r["status"][9:]), replay_of([scn]))
                continue
            if r["status"] != "ok":
                # (healthy run of a run_backtests batch that returned the failing run's error: by
                #  try_join_all no summary at all is returned - nothing to judge beyond the prefix
                #  validated above; with one backtest() per run a healthy run must return its summary:
                #  the harness wrote an Abort line for it, reported above)
                stats["runs_cut_by_a_batch_error"] = stats.get("runs_cut_by_a_batch_error", 0) + 1
                continue
            if r["scenario_has_failing_source"]:
                stats["healthy_runs_beside_a_failing_one"] = stats.get("healthy_runs_beside_a_failing_one", 0) + 1
            if r["consumed"] != r["n"]:
                ctx.violation("consumed:%s:incomplete" % r["mode"], "%s: the engine processed %d of the %d dataset items before "
                              "the backtest returned" % (who, r["consumed"], r["n"]), replay_of([scn]))
            if not r["sumok"]:
                ctx.violation("summary:%s:not-own-engine" % r["mode"], "%s: returned summary (id ok: %s) %s differs from the "
                              "summary of the run's own final engine state %s" % (who, "%s (%s at position %d, run id %s)" % (
                                  r["summary_id_ok"], json.dumps(r["summary_id"]), r["run"], json.dumps(r["id"])), json.dumps(r["summary"])[:400],
                                                                                 json.dumps(r["digest"])[:400]), replay_of([scn]))
            facts = r["facts"] or {"realised_pnl": []}
            closed = any(p["closed_positions"] != "0" for p in facts["realised_pnl"])
            stats["runs_with_closed_positions"] += 1 if closed else 0
            fired = sorted(a["k"] for a in r["acts"])
            # (what follows presupposes the consumption clauses: a run already rejected is not judged further)
            rejected = "%s/%d" % (scn, r["run"]) in seen_runs or r["consumed"] != r["n"]
            # (a run whose exchange refused an order is reported through its anomaly and not judged further either)
            rejected = rejected or any(a.startswith("order-refused") for a in r.get("anomalies", []))
            if r["mode"] == "gated" and not rejected:
                # scenario sanity (tool level): the gate only opens when everything was answered
                if r["orders_fired"] != len(fired) or r["trades_seen"] != len(fired) or r["balances_seen"] != len(fired):
                    raise vlib.ToolError("%s: gated scenario ended with %d orders / %d balances / %d trades for %d decision points"
                                         % (who, r["orders_fired"], r["balances_seen"], r["trades_seen"], len(fired)))
                base = alone.get((r["data_seed"], r["variant"]))
                if base is None:
                    raise vlib.ToolError("%s: no baseline (same parameters run alone)" % who)
                if r["k"] > 1:
                    stats["gated_runs_compared_with_alone"] += 1
                    for field in ("fills", "facts", "summary"):
                        if r[field] != base[field]:
                            ctx.violation("isolation:%s" % field,
                                          "%s with parameters %s: %s differ from the same parameters run alone (%s), concurrent vs alone at %s"
                                          % (who, json.dumps(r["acts"]), field, base["scn"], diff(r[field], base[field])),
                                          replay_of(sorted(set(alone[(x["data_seed"], x["variant"])]["scn"] for x in rs
                                                               if (x["data_seed"], x["variant"]) in alone)) + [scn]))
            # Isolation of the clock: every fill / balance / position-entry timestamp of a run lies at the
            # exchange time of the event the order was opened on in THIS run (+ wall-clock slack)
            if r["clock_checked"] and not rejected:
                if r["wall_s"] > WALL_LIMIT_S:
                    raise vlib.ToolError("%s: the scenario took %.0f s of wall time - timestamps cannot be judged" % (who, r["wall_s"]))
                stamps = [("fill", f["k"], f["ts_ms"]) for f in r["fill_ts"]]
                if r["mode"] == "gated":
                    stamps += [("balance", k, ts) for k, ts in zip(r["fired"], r["balance_ts"])]
                for what, k, ts in stamps:
                    if not 0 <= ts - k * SPACING_MS <= SLACK_MS:
                        ctx.violation("clock:%s:%s-not-at-own-event-time" % (r["mode"], what),
                                      "%s: the %s of the order opened on event %d (exchange time %s) is stamped %s - a run's clock must "
                                      "follow its own consumed prefix (slack %d s)" % (who, what, k, hms(k * SPACING_MS), hms(ts), SLACK_MS // 1000),
                                      replay_of([scn]))
                for ts in (r["times"] or {}).get("position_enter_ms", []):
                    if ts is not None and not any(0 <= ts - k * SPACING_MS <= SLACK_MS for k in r["fired"]):
                        ctx.violation("clock:%s:position-entry-not-at-own-event-time" % r["mode"],
                                      "%s: an open position's entry time %s is at none of the events this run traded on %s"
                                      % (who, hms(ts), r["fired"]), replay_of([scn]))
                if r["mode"] == "gated" and r["k"] > 1:
                    for f, g in zip(r["fill_ts"], base["fill_ts"]):
                        if abs(f["ts_ms"] - g["ts_ms"]) > SLACK_MS:
                            ctx.violation("isolation:timestamps", "%s: fill of order %d stamped %s, alone (%s) %s" % (
                                who, f["k"], hms(f["ts_ms"]), base["scn"], hms(g["ts_ms"])), replay_of([base["scn"], scn]))
                stats["timestamps_judged"] = stats.get("timestamps_judged", 0) + len(stamps)
            if r["mode"] == "inmem" and r["trades_seen"] < r["orders_fired"]:
                stats["inmem_runs_ending_with_unprocessed_fills"] += 1
            # spec -> impl: the final observation is one of the outcomes TLC enumerated for these parameters
            exp = expected.get((r["data_seed"], r["variant"]))
            if exp is not None and scn.startswith("t") and not rejected:
                obs = {"consumed": list(range(1, r["consumed"] + 1)) if r["consumed"] == r["n"] else r["consumed"],
                       "sent": fired[:r["orders_fired"]], "trades": [f["k"] for f in r["fills"]]}
                allowed = [e for e in exp if r["mode"] != "gated" or e["pending"] == 0]
                if any(all(e[k] == obs[k] for k in obs) for e in allowed):
                    stats["tlc_outcomes_matched"] += 1
                else:
                    ctx.violation("outcome:%s" % r["mode"], "%s with acts %s: final observation %s is none of the %d outcomes "
                                  "Backtest allows for these parameters" % (who, fired, json.dumps(obs), len(allowed)), replay_of([scn]))
            ctx.cov["scenarios_replayed"] += 1
    return results


def brief(l):
    if l is None:
        return "the start"
    if l["a"] == "Market":
        return "market event %d (stream %d; %d items, %d account events seen; in flight %s)" % (l["id"], l["tag"], l["nc"], l["na"], l["sent"])
    if l["a"] == "Disc":
        return "a Reconnecting item (%d items seen)" % l["nc"]
    if l["a"] == "Account":
        stamp = ", stamped %s = exchange time of item %d" % (hms(l["ts_ms"]), l["tsk"]) if l.get("ck") else ""
        return "account event %s of order %d%s (%d items, %d account events seen; in flight %s)" % (
            l["kind"], l["k"], stamp, l["nc"], l["na"], l["sent"])
    if l["a"] == "End":
        return "the end of the backtest with %d items / %d account events seen, summary from own engine: %s" % (l["nc"], l["na"], l["sumok"])
    return "the start of the run (n=%d, acts %s)" % (l["n"], l["acts"])


def diff(a, b, path=""):
    """first differing leaf of two JSON values"""
    if type(a) != type(b):
        return "%s: %s vs %s" % (path, json.dumps(a)[:200], json.dumps(b)[:200])
    if isinstance(a, dict):
        for k in sorted(set(a) | set(b)):
            if a.get(k) != b.get(k):
                return diff(a.get(k), b.get(k), path + "/" + k)
    if isinstance(a, list):
        if len(a) != len(b):
            return "%s: %d vs %d entries (%s vs %s)" % (path, len(a), len(b), json.dumps(a)[:200], json.dumps(b)[:200])
        for j, (x, y) in enumerate(zip(a, b)):
            if x != y:
                return diff(x, y, "%s[%d]" % (path, j))
    return "%s: %s vs %s" % (path, json.dumps(a)[:200], json.dumps(b)[:200])


# ------------------------------------------------------------------------------- self-test
def synthetic_run():
    """A well-formed observation log (what a correct run of n=12, orders on events 3 and 7 looks like)."""
    def L(a, **kw):
        d = {"a": a, "id": 0, "tag": 0, "kind": "-", "k": 0, "sent": [], "nc": 0, "na": 0, "n": 0, "recs": [], "acts": [], "fail": [], "sumok": True,
             "tsk": 0, "ck": False, "ts_ms": 0}
        d.update(kw)
        return d
    seg = [L("Reset", n=12, recs=[5], acts=[3, 7], tag=2, kind="selftest/0")]
    nc = na = 0
    sent = []
    for i in range(1, 13):
        nc += 1
        seg.append(L("Disc", tag=2, nc=nc, na=na, sent=list(sent)) if i == 5 else L("Market", id=i, tag=2, nc=nc, na=na, sent=list(sent)))
        if i == 1:
            na += 1
            seg.append(L("Account", kind="snapshot", k=0, nc=nc, na=na, sent=list(sent)))
        if i in (3, 7):
            sent.append(i)
            for kind in ("balance", "order", "trade"):
                na += 1
                seg.append(L("Account", kind=kind, k=i, nc=nc, na=na, sent=list(sent), ck=kind != "order", tsk=i if kind != "order" else 0))
    seg.append(L("End", tag=2, nc=nc, na=na, sent=list(sent)))
    return seg


def binding_bites(ctx):
    """Corrupt a well-formed run log one field at a time: Trace_Backtest must accept the original
    and reject every corrupted copy with the expected clause."""
    seg = synthetic_run()
    markets = [j for j, l in enumerate(seg) if l["a"] == "Market"]
    trade = next(j for j, l in enumerate(seg) if l["a"] == "Account" and l["kind"] == "trade")

    def copy():
        return [dict(l) for l in seg]
    muts = [("nothing (the original)", copy(), None)]
    # a run whose data source fails after 8 items: the log of those 8 items then `Fail` is a behaviour ...
    m = copy(); cut = next(j for j, l in enumerate(m) if l["a"] == "Market" and l["id"] == 9)
    failing = m[:cut] + [dict(m[-1], a="Fail", nc=8, na=m[cut - 1]["na"], sent=[])]
    failing[0] = dict(failing[0], fail=[8])
    muts.append(("nothing (the log of a run whose source fails, ending in the error)", [dict(l) for l in failing], None))
    # ... but a summary (End) after the failure is not, nor is the error anywhere else
    m = [dict(l) for l in failing]; m[-1] = dict(m[-1], a="End", sent=[3, 7]); muts.append(("a summary although the data source failed", m, "shutdown-before-dataset-consumed"))
    m = [dict(l) for l in failing]; m[0] = dict(m[0], fail=[10]); muts.append(("the error of a source failure the engine saw too little of", m, "error-not-at-the-source-failure"))
    m = copy(); del m[markets[len(markets) // 2]]; muts.append(("a market event never reached the engine", m, "skipped-item"))
    m = copy(); j = markets[len(markets) // 2]; m.insert(j + 1, dict(m[j])); muts.append(("a market event reached the engine twice", m, "repeated-item"))
    m = copy(); a, b = markets[2], markets[3]; m[a], m[b] = m[b], m[a]; muts.append(("two market events swapped", m, "skipped-item"))
    m = copy(); del m[markets[-1]:-1]; muts.append(("Shutdown overtook the tail of the dataset", m, "shutdown-before-dataset-consumed"))
    m = copy(); m[trade] = dict(m[trade], k=m[trade]["k"] + 1); muts.append(("a fill of an order this run never sent", m, "unexpected-account-event"))
    m = copy(); m[markets[1]] = dict(m[markets[1]], tag=m[markets[1]]["tag"] + 1); muts.append(("an event of another run's stream", m, "foreign-stream"))
    m = copy(); m[trade] = dict(m[trade], tsk=m[trade]["tsk"] + 4); muts.append(("a fill stamped by another run's clock", m, "foreign-clock"))
    m = copy(); m[-1] = dict(m[-1], sumok=False); muts.append(("summary of another engine", m, "summary-not-from-own-engine"))
    p = ctx.path("selftest_corrupted.ndjson")
    bounds = []
    with open(p, "w") as f:
        at = 1
        for _, m, _ in muts:
            for l in m:
                f.write(json.dumps(l) + "\n")
            bounds.append((at, at + len(m) - 1))
            at += len(m)
    _, bad, _ = ctx.tlc_trace(TRACE, CFG, p)
    ctx.cov["trace_events_validated"] -= at - 1          # (not implementation events)
    caught = []
    for (lo, hi), (what, _, tag) in zip(bounds, muts):
        tags = set(t for b in bad if lo <= b <= hi for t in ctx.last_tags.get(b, []))
        if tag is None:
            if any(lo <= b <= hi for b in bad):
                raise vlib.ToolError("self-test: the well-formed run log was rejected (%s)" % sorted(tags))
            continue
        if tag not in tags:
            raise vlib.ToolError("self-test: corrupted trace (%s) was not rejected as %s (rejections: %s)" % (what, tag, sorted(tags)))
        caught.append(what)
    caught_n = len(caught)
    ctx.cov["corrupted_traces_rejected"] = caught
    vlib.log("self-test: %d corrupted copies of well-formed run logs rejected by Trace_Backtest (the originals accepted)" % len(caught))


# ------------------------------------------------------------------------------- entry points
def run_all(ctx, scns, expected, label):
    sp = ctx.path("scenarios_%s.json" % label)
    with open(sp, "w") as f:
        json.dump(scns, f)
    tp, rp = ctx.path("trace_%s.ndjson" % label), ctx.path("results_%s.ndjson" % label)
    ctx.harness("c20", "run", "--scenarios", sp, "--out", tp, "--results", rp, timeout=3000)
    judge(ctx, scns, tp, rp, expected, label)
    return tp


def check(ctx):
    ctx.assumptions += ASSUMPTIONS
    ctx.build("c20")
    model_check(ctx)
    binding_bites(ctx)
    # the engine clock every time an engine reports comes from (spec/Clock.tla; signatures "clock:...")
    from props import clock
    clock.run(ctx)
    # --- g3: the System lifecycle (spec/SystemLifecycle.tla; signatures "lifecycle:..."): shutdown_after_backtest drains the
    # market source before Shutdown, what a stop call returns, tasks left running, every stop call returns
    from props import lifecycle
    n_before = len(ctx.violations)
    lifecycle.run(ctx, lifecycle.C20_TAGS, full=True)
    if len(ctx.violations) > n_before:     # report it now: a tool error in a later stage must not hide this verdict
        return ctx.finish()
    # --- g3 end
    # spec -> impl: every small parameterisation, all run concurrently
    _, outcomes = ctx.tlc_gen("Gen_" + MODULE, "GenT_Backtest.cfg" if ctx.quick else "GenT_Backtest_thorough.cfg",
                              "outcomes.ndjson", timeout=1200, workers=1 if ctx.quick else 4)
    scns_t, expected = tlc_scenarios(ctx, outcomes)
    ctx.sample({"kind": "TLC-enumerated outcome (one of those allowed for its parameters)", "outcome": outcomes[len(outcomes) // 2]})
    run_all(ctx, scns_t, expected, "enumerated")
    # impl -> spec: seeded datasets of 50-2000 events, K up to 8 (32 thorough), 1-4 (16) workers
    rc, out, _ = vlib.run([vlib.os.path.join(vlib.HARNESS, "target", "debug", "c20"), "plan", "--seed", str(ctx.seed), "--tier", ctx.tier],
                          timeout=120)
    if rc != 0:
        raise vlib.ToolError("c20 plan failed\n" + out[-2000:])
    scns_r = json.loads(out.strip().splitlines()[-1])
    ctx.sample({"kind": "seeded scenario (gated, concurrent)", "scenario": next(
        dict(s, runs=s["runs"][:2]) for s in scns_r if s["mode"] == "gated" and len(s["runs"]) > 1)})
    run_all(ctx, scns_r, {}, "seeded")
    st = ctx.cov["implementation_runs"]
    if not ctx.violations and (not st.get("source_failures_ending_in_an_error") or not st.get("healthy_runs_beside_a_failing_one")
                               or not st.get("runs_over_datasets_with_late_ticks")):
        raise vlib.ToolError("vacuous run: %s" % st)
    if not ctx.violations and not st.get("batches_with_equal_ids"):
        raise vlib.ToolError("vacuous run: %s" % st)
    if not ctx.violations and (st["fills"] == 0 or st["runs_with_closed_positions"] == 0 or st["gated_runs_compared_with_alone"] == 0 or st["tlc_outcomes_matched"] == 0):
        raise vlib.ToolError("vacuous run: %s" % st)
    return ctx.finish()


def replay(ctx, rp):
    if rp.get("kind") == "clock":
        from props import clock
        return clock.replay(ctx, rp)
    if rp.get("kind") == "lifecycle":       # g3
        from props import lifecycle
        return lifecycle.replay(ctx, rp, lifecycle.C20_TAGS)
    ctx.build("c20")
    scns = rp["scenarios"]
    expected = {(e[0], e[1]): e[2] for e in rp.get("expected", [])}
    run_all(ctx, scns, expected, "replay")
    return ctx.finish(write_evidence=False)
