SPECIFICATION SpecBuild
CONSTANTS
  Universe <- U9
  MaxLen = 5
INVARIANTS Dense Unique Inverse Resolve OrderFree Sorted Aligned
CHECK_DEADLOCK FALSE
