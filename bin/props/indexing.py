"""Shared orchestration of the Indexing area (spec/Indexing.tla): C11 and C04.

One specification, two verdicts (DESIGN 5.4, attribution): the FOCUS selects the harness binary
(`c11` / `c04`, same driver source, different comparison sets), the bounded model that is checked
and the conjuncts of Trace_Indexing that decide acceptance.
"""
import json
import vlib

MODULE = "Indexing"

# collections = sum_{k<=MaxLen} |Universe|^k
QUICK = {"gen": "GenA_Indexing.cfg", "expect": sum(7 ** k for k in range(5)), "sim": 300, "random": 400}
THOROUGH = {"gen": "GenA_Indexing_thorough.cfg", "expect": sum(9 ** k for k in range(6)), "sim": 3000, "random": 5000}

EX = {1: "Mock", 2: "BinanceSpot", 3: "Kraken", 4: "Okx"}


def coll_text(defs):
    """human form of an insertion sequence"""
    out = []
    for d in defs:
        out.append("%s:ins%02d/Sym%02d%s" % (EX.get(d["ex"], d["ex"]), d["ni"], d["nx"], "(%s)" % d["kind"] if d["kind"] != "spot" else ""))
    return "[" + ", ".join(out) + "]"


def judge_results(ctx, focus, path, scenarios, label):
    """Pattern B results of `<bin> replay`: one line per scenario."""
    res = ctx.read_results(path)
    if len(res) != len(scenarios):
        raise vlib.ToolError("harness judged %d of %d scenarios (%s)" % (len(res), len(scenarios), label))
    failing = sorted((r for r in res if not r["ok"]), key=lambda r: (len(r["defs"]), r["scn"]))
    not_judged = 0
    for r in failing:
        scn = scenarios[r["scn"]]
        seen = set()
        for e in r["errors"]:
            if e["sig"] == "precondition":
                # C04 takes the tables as given; if they do not even contain the entities the
                # collection defines, that is C11's finding and C04 has nothing to translate
                not_judged += 1
                break
            if e["sig"] in seen:
                continue
            seen.add(e["sig"])
            ctx.violation(e["sig"], "collection %s: %s [%s, scenario %d]" % (coll_text(scn["defs"]), e["msg"], label, r["scn"]),
                          {"mode": "scn", "focus": focus, "scenario": scn})
    if not_judged:
        ctx.cov["not_judged_tables_incomplete"] = ctx.cov.get("not_judged_tables_incomplete", 0) + not_judged
        vlib.log("%s: %d scenario(s) not judged - the implementation's tables lack entities of the collection (see C11)" % (focus, not_judged))
        if not_judged == len(res):
            raise vlib.ToolError("%s cannot be judged: no collection could be resolved against the implementation's tables (run C11)" % focus)
    ctx.cov["scenarios_replayed"] += len(res)
    ctx.cov["traces_validated_against_impl"] += len(res) - len(failing)
    return len(failing)


def malformed(line):
    """tables TLC cannot read as spec values (index != position, foreign names, panic)"""
    if line.get("panic") != "none":
        return "panic", "the real code panicked: %s" % line.get("panic")
    for x in line["ex"]:
        if not isinstance(x, int) or x == 0:
            return "tables:exchanges", "exchange table entry %s (index is not the position, or unknown exchange)" % json.dumps(x)
    for x in line["as"]:
        if "key" in x or 0 in (x.get("ex"), x.get("a"), x.get("nx")):
            return "tables:assets", "asset table entry %s (index is not the position, or unknown name)" % json.dumps(x)
    for x in line["ins"]:
        if "key" in x or not isinstance(x.get("unit"), int) or 0 in (x.get("ex"), x.get("ni"), x.get("nx"), x.get("id")):
            return "tables:instruments", "instrument table entry %s (index is not the position, or not the inserted definition)" % json.dumps(x)
    return None


def ambiguous(line):
    """C04 takes the tables as given, which presupposes that one entity has one index (C11, Unique)"""
    for name, keys in (("exchange", [x for x in line["ex"]]),
                       ("asset", [(x["ex"], x["a"]) for x in line["as"]]),
                       ("instrument", [(x["ex"], x["ni"], x["nx"], x["kind"]) for x in line["ins"]])):
        if len(set(keys)) != len(keys):
            return "tables", "one %s has two indices" % name
    return None


def validate_trace(ctx, focus, trace_path, label):
    """impl -> spec: TLC decides every logged collection (Trace_Indexing, FOCUS)."""
    lines = ctx.read_trace(trace_path)
    keep, origin = [], []
    for n, line in enumerate(lines, 1):
        m = malformed(line) or (focus == "C04" and ambiguous(line))
        if m:
            if focus == "C11":
                ctx.violation(m[0], "collection %s: %s [%s, line %d]" % (coll_text(line["defs"]), m[1], label, n),
                              {"mode": "trace", "focus": focus, "defs": line["defs"]})
            else:
                ctx.cov["not_judged_tables_incomplete"] = ctx.cov.get("not_judged_tables_incomplete", 0) + 1
            continue
        keep.append(line)
        origin.append(n)
    if not keep:
        raise vlib.ToolError("%s: no line of %s is readable as spec tables (run C11)" % (focus, trace_path))
    clean = ctx.path("clean_" + label.replace("/", "_") + ".ndjson")
    with open(clean, "w") as f:
        for line in keep:
            f.write(json.dumps(line) + "\n")
    n, bad, _ = ctx.tlc_trace("Trace_" + MODULE, "Trace_Indexing_%s.cfg" % focus, clean)
    tags = getattr(ctx, "last_tags", {})
    for b in bad:
        line = keep[b - 1]
        for tag in tags.get(b, ["rejected"]):
            what = ("the logged tables are not Build(defs)" if focus == "C11"
                    else "a link's look-ups are not those of MapFor(tables, e)")
            ctx.violation(tag, "collection %s built by the real code: %s - failed conjunct %s; tables ex=%s [%s, line %d]" % (
                coll_text(line["defs"]), what, tag, json.dumps(line["ex"]), label, origin[b - 1]),
                {"mode": "trace", "focus": focus, "defs": line["defs"]})
    ctx.cov["traces_validated_against_impl"] += len(keep) - len(bad)
    return lines


def check(ctx, focus, binname, mc_cfg, assumptions, before_finish=None):
    ctx.assumptions += assumptions
    tier = QUICK if ctx.quick else THOROUGH
    ctx.build(binname)
    # the bounded model without -coverage (which slows TLC down several times); vacuity: the small
    # model of the same specification is checked with -coverage, every action must have been taken
    ctx.tlc_mc(MODULE, mc_cfg, timeout=1500, coverage=False)
    small = ctx.tlc_mc(MODULE, "MC_Indexing_small.cfg" if focus == "C04" else "MC_Indexing_C11_small.cfg", timeout=600)
    want = 8 if focus == "C04" else 2
    if len([a for a in small["actions"] if a != "Init"]) != want:
        raise vlib.ToolError("coverage of %s lists actions %s, expected %d" % (MODULE, sorted(small["actions"]), want))
    # (i) every insertion sequence up to the bound, with the spec's tables / maps
    p_a, scn_a = ctx.tlc_gen("Gen_" + MODULE, tier["gen"], "collections.ndjson", timeout=1500,
                             workers=1 if ctx.quick else 10)
    if len(scn_a) != tier["expect"]:
        raise vlib.ToolError("TLC enumerated %d collections, expected %d (an invariant of %s failed during generation?)" % (
            len(scn_a), tier["expect"], MODULE))
    multi = sum(1 for s in scn_a if len(s["ex"]) >= 2)
    if multi == 0 or not any(len(s["defs"]) != len(s["ins"]) for s in scn_a):
        raise vlib.ToolError("vacuous scenario set: no multi-exchange collection or no duplicate insertion")
    # (ii) long random insertion sequences over the wide universe
    p_r, scn_r = ctx.tlc_gen("Gen_" + MODULE, "GenR_Indexing.cfg", "collections_sim.ndjson",
                             simulate=(tier["sim"], 12), timeout=900)
    ctx.cov["collections_with_2plus_exchanges"] = multi + sum(1 for s in scn_r if len(s["ex"]) >= 2)
    ctx.sample({"kind": "TLC enumerated collection with the expected tables and maps", "scenario": scn_a[len(scn_a) // 2]})
    ctx.sample({"kind": "TLC simulated collection", "scenario": max(scn_r, key=lambda s: len(s["ins"]))})
    for label, path, scns in (("enumerated", p_a, scn_a), ("simulated", p_r, scn_r)):
        out = ctx.path("results_%s.ndjson" % label)
        ctx.harness(binname, "replay", "--scenarios", path, "--out", out, timeout=3000)
        judge_results(ctx, focus, out, scns, label)
    # (iii) impl -> spec: seeded random collections built by the real code, validated by TLC
    out = ctx.path("trace_random.ndjson")
    ctx.harness(binname, "trace", "--seed", ctx.seed, "--n", tier["random"], "--out", out, timeout=3000)
    lines = validate_trace(ctx, focus, out, "random")
    ctx.sample({"kind": "recorded collection (real code) validated by Trace_Indexing", "line": max(lines, key=lambda l: len(l["ins"]))})
    if before_finish:
        before_finish(ctx)
    return ctx.finish()


def replay(ctx, rp, focus, binname):
    ctx.build(binname)
    if rp.get("mode") == "trace":
        coll = ctx.path("replay_collections.ndjson")
        with open(coll, "w") as f:
            f.write(json.dumps({"defs": rp["defs"]}) + "\n")
        out = ctx.path("replay_trace.ndjson")
        ctx.harness(binname, "trace", "--seed", ctx.seed, "--collections", coll, "--out", out)
        validate_trace(ctx, focus, out, "replay")
    else:
        scn = ctx.path("replay_scn.ndjson")
        with open(scn, "w") as f:
            f.write(json.dumps(rp["scenario"]) + "\n")
        out = ctx.path("replay_results.ndjson")
        ctx.harness(binname, "replay", "--scenarios", scn, "--out", out)
        judge_results(ctx, focus, out, [rp["scenario"]], "replay")
    return ctx.finish(write_evidence=False)
