SPECIFICATION GSpec
CONSTANTS
  Runs = {1}
  Params <- GenParams
  OrderKinds = {"trade"}
  NS = {2, 3, 4, 5}
  RECS = {{}, {2}, {3}, {1}, {1, 2}, {1, 4}}
  MaxOrders = 4
INVARIANT Emit PrefixAlways CompleteInOrder
CHECK_DEADLOCK FALSE
