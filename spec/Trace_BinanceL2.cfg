SPECIFICATION TSpec
CONSTANTS
  INSTR = {"i1", "i2", "i3"}
  PRICE = {1, 2, 3, 4, 5, 6, 7, 8}
  AMOUNT = {0, 1, 2, 3, 4, 5, 6, 7, 8, 9}
  RULES = {"Spot", "Futures"}
  EVOLUTIONS = {}
  MaxEvents = 0
  MaxDeliver = 0
  MaxReinit = 0
  EXPECTED = {1}
  MaxBuf = 0
  InitOrder = "snapshot-first"
INVARIANTS Done TInv
PROPERTIES TProps
POSTCONDITION Post
CHECK_DEADLOCK FALSE
