SPECIFICATION SpecC16R
CONSTANTS
  Instr = {"i0", "i3"}
  Asset = {"a0", "a5"}
  PnLs <- PnLsQuick
  Costs = {10}
  Bals = {5, 7}
  Vals = {}
  MaxClosed = 1
  MaxBal = 1
  MaxVals = 0
  Gaps <- GapsSmall
  RFs <- RFsQuick
  Ivs = {"Daily", "Hours2"}
INVARIANTS TypeC16 GenerateIsBatch AccSheet WinRateSane ProfitFactorSane OrderFreeC16 AccRatios Conventions
PROPERTIES Keyed Additive LatestBalance PersistIsStutter KeyedRatios ResetIsFresh
CHECK_DEADLOCK FALSE
VIEW View
