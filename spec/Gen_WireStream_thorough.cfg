SPECIFICATION Spec
CONSTANTS
  MaxFrames = 6
  MaxTrades = 3
  Needs = {2, 3}
INVARIANT Emit
CHECK_DEADLOCK FALSE
