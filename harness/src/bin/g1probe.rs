use barter::statistic::{metric::{sortino::SortinoRatio, sharpe::SharpeRatio, calmar::CalmarRatio, rate_of_return::RateOfReturn}, time::{Daily, Annual365}, summary::instrument::TearSheetGenerator};
use chrono::TimeDelta;
use rust_decimal::Decimal;
use rust_decimal::MathematicalOps;
use std::str::FromStr;
fn main() {
    let d = |s: &str| Decimal::from_str(s).unwrap();
    let s = SortinoRatio::calculate(d("0.01"), d("0"), d("0"), TimeDelta::seconds(1));
    println!("sortino base {}", s.value);
    println!("sortino scaled daily {}", s.clone().scale(Daily).value);
    let s2 = SortinoRatio::calculate(d("0.01"), d("0"), d("0"), TimeDelta::days(2));
    println!("sortino MIN scaled down {}", s2.scale(Daily).value);
    let s3 = SortinoRatio::calculate(d("0"), d("0.01"), d("0"), TimeDelta::days(2));
    println!("sortino MAX scaled down {}", s3.scale(Daily).value);
    let c = CalmarRatio::calculate(d("0.01"), d("0"), d("0"), TimeDelta::seconds(1)).scale(Annual365);
    println!("calmar MIN scaled up {}", c.value);
    let mut g = TearSheetGenerator::init(chrono::DateTime::<chrono::Utc>::MIN_UTC);
    let t = g.generate(d("0.01"), Daily);
    println!("empty sheet rf=0.01: sharpe {} sortino {} calmar {} ret {}", t.sharpe_ratio.value, t.sortino_ratio.value, t.calmar_ratio.value, t.pnl_return.value);
    println!("sqrt(2)={:?} sqrt(86400)={:?} sqrt(1/3)={:?}", Decimal::TWO.sqrt(), Decimal::from(86400).sqrt(), (Decimal::ONE/Decimal::from(3)).sqrt());
    println!("sqrt(31536000)={:?}", Decimal::from(31536000).sqrt());
    let sh = SharpeRatio::calculate(d("0"), d("0.1"), d("0.3"), TimeDelta::seconds(7)).scale(Annual365);
    println!("sharpe {}", sh.value);
    let r = RateOfReturn::calculate(d("0.1"), TimeDelta::seconds(7)).scale(Annual365);
    println!("ror {}", r.value);
}
