SPECIFICATION GSpecR
CONSTANTS
  INSTR = {"i1", "i2", "i3"}
  PRICE = {1, 2, 3}
  AMOUNT = {0, 1, 2}
  RULES = {"Spot", "Futures"}
  MCM = 10
  EVOLUTIONS <- FewEvolutions
  MaxEvents = 10
  MaxDeliver = 1000
  MaxReinit = 1000
  EXPECTED = {1}
  MaxBuf = 0
  InitOrder = "snapshot-first"
  MaxLen = 30
INVARIANT Emit
CHECK_DEADLOCK FALSE
